"""
LOOPFRESH: a variable that is only ever assigned inside a loop body and is read in that body must be assigned on every path from the start
of the iteration to the read. Otherwise the read sees the value of an EARLIER iteration (or nothing at all in the first one):

    for i in inputs:
        if i.prev_txid not in seen:
            prev_t = fetch(i.prev_txid)          # only definition
        i.value = prev_t.outputs[i.n].value      # for a txid seen before: prev_t of the previous input
"""
import ast

from .cfg import build_cfg, node_asts


def _stores(fn):
    out = {}
    for n in ast.walk(fn):
        tg = []
        if isinstance(n, ast.Assign):
            tg = n.targets
        elif isinstance(n, (ast.AugAssign, ast.AnnAssign)):
            tg = [n.target]
        elif isinstance(n, (ast.For, ast.comprehension)):
            tg = [n.target]
        elif isinstance(n, ast.With):
            tg = [i.optional_vars for i in n.items if i.optional_vars is not None]
        elif isinstance(n, ast.ExceptHandler) and n.name:
            out.setdefault(n.name, []).append(n)
        for t in tg:
            for x in ast.walk(t):
                if isinstance(x, ast.Name) and isinstance(x.ctx, ast.Store):
                    out.setdefault(x.id, []).append(n)
    return out


def scan_function(fn):
    """[(loop node, variable, read node)]"""
    params = set(a.arg for a in fn.args.posonlyargs + fn.args.args + fn.args.kwonlyargs)
    stores = _stores(fn)
    res = []
    loops = [n for n in ast.walk(fn) if isinstance(n, (ast.For, ast.While))]
    if not loops:
        return res
    g = build_cfg(fn, split_bool=True)
    for loop in loops:
        inside = set(id(x) for s in loop.body for x in ast.walk(s))
        cand = set()
        for v, sites in stores.items():
            if v in params:
                continue
            if all(id(s) in inside for s in sites) and not any(isinstance(s, (ast.For, ast.comprehension)) and s is not loop and False for s in sites):
                cand.add(v)
        # loop targets of this loop and of inner loops / comprehensions are defined by their loop
        for x in ast.walk(loop.target) if isinstance(loop, ast.For) else []:
            if isinstance(x, ast.Name):
                cand.discard(x.id)
        if not cand:
            continue
        loop_nodes = [n for n in g.nodes if n.ast is loop]
        if not loop_nodes:
            continue
        head = loop_nodes[0].id
        body_nodes = set(n.id for n in g.nodes if n.ast is not None and n.ast is not loop and any(id(sub) in inside for frag in node_asts(n) for sub in [frag]))
        for v in sorted(cand):
            defs = set(n.id for n in g.nodes if n.id in body_nodes and any(
                isinstance(x, ast.Name) and x.id == v and isinstance(x.ctx, ast.Store) for frag in node_asts(n) for x in ast.walk(frag)))
            # inner for-loops / comprehensions that bind v define it for their own body: treat their node as a definition
            for n in g.nodes:
                if n.kind == 'for' and n.ast is not loop and id(n.ast) in inside and any(isinstance(x, ast.Name) and x.id == v for x in ast.walk(n.ast.target)):
                    defs.add(n.id)
            for n in g.nodes:
                if isinstance(n.ast, (ast.With, ast.AsyncWith)) and id(n.ast) in inside and any(
                        isinstance(x, ast.Name) and x.id == v for i in n.ast.items if i.optional_vars is not None for x in ast.walk(i.optional_vars)):
                    defs.add(n.id)
                if n.kind == 'handler' and isinstance(n.ast, ast.ExceptHandler) and n.ast.name == v:
                    defs.add(n.id)
            reads = [n for n in g.nodes if n.id in body_nodes and n.id not in defs and any(
                isinstance(x, ast.Name) and x.id == v and isinstance(x.ctx, ast.Load) for frag in node_asts(n) for x in ast.walk(frag))]
            if not reads:
                continue
            # start of an iteration: successors of the loop head that lie in the body
            starts = [s for (s, lab) in g[head].succ if s in body_nodes]
            seen = g.reach(starts, blocked_nodes=defs | {head}, skip_exc=True)
            for r in reads:
                # a node that both reads and writes v (v = f(v)) reads the old value
                if r.id in seen:
                    res.append((loop, v, r.ast))
                    break
    return res
