#!/usr/bin/env python3
"""Development-time helper (never used by a check): list the findings a property reports that are not yet in
known_findings.json, and with --add RULE=text[,RULE=text] record them with the given triage note.

    python3 sa/kf.py C18                      # list
    python3 sa/kf.py C18 --add "C18.prefix-total=D14 ..." 
"""
import json
import os
import sys

sys.path.insert(0, os.path.dirname(os.path.dirname(os.path.abspath(__file__))))
from sa import core  # noqa
import importlib


def main():
    pid = sys.argv[1].upper()
    notes = {}
    if '--add' in sys.argv:
        for item in sys.argv[sys.argv.index('--add') + 1:]:
            k, _, v = item.partition('=')
            notes[k] = v
    mod = importlib.import_module('sa.props.%s' % pid.lower())
    known, fixed = core.load_known_findings()
    repo = core.Repo()
    path = os.path.join(core.VERIF_DIR, 'known_findings.json')
    data = json.load(open(path))
    n = 0
    for ob in mod.PROP.obligations:
        try:
            ctx = core.run_obligation(repo, ob)
        except core.AnalysisError as e:
            print('UNDECIDED', ob.oid, e)
            continue
        for f in ctx.findings:
            k = (pid,) + f.key()
            if k in known:
                continue
            print('NEW', f.rule, f.qual, '::', f.detail)
            if f.rule in notes:
                data['known'].append({'property': pid, 'rule': f.rule, 'qualname': f.qual, 'detail': f.detail,
                                      'triage': notes[f.rule], 'loc_when_recorded': f.loc})
                n += 1
    if n:
        json.dump(data, open(path, 'w'), indent=1)
        print('added', n)


if __name__ == '__main__':
    main()
