"""
Symbolic (abstract) evaluator for the Python subset used by the byte-building, dispatching and
stack-manipulating code of the repository. It never executes repository code: it walks the AST and
computes *terms*. It is the common core of the LAYOUT, ENUM, STACK and INTV engines of DESIGN.md.

Values are either concrete Python values (int, bytes, str, bool, None, list/tuple/dict whose items
are values) or ``S(term, ty)`` symbolic values. Conditionals with a symbolic test evaluate both
branches and merge (``('cond', test, a, b)``), factoring common prefixes/suffixes of concatenations.
Branches that end in return/raise are recorded as *exits* with their path condition.

Anything outside the modelled subset raises AnalysisError (never a guess).
"""
import ast

from .core import AnalysisError, fold, NotConst, unparse, OpNamespace

MAX_UNROLL = 300


class LocalFn:
    """a closure-free nested function definition bound in the local environment"""
    def __init__(self, node):
        self.node = node

    def __repr__(self):
        return '<local function %s>' % self.node.name


class S:
    """Symbolic value."""
    __slots__ = ('t', 'ty')

    def __init__(self, t, ty=None):
        self.t = t
        self.ty = ty

    def __repr__(self):
        return 'S(%s)' % (show(self.t),)

    def __eq__(self, other):
        return isinstance(other, S) and self.t == other.t

    def __hash__(self):
        return hash(self.t)


def term(v):
    """Term of a value (concrete values are their own terms; containers become tuples)."""
    if isinstance(v, S):
        return v.t
    if isinstance(v, list):
        return ('list',) + tuple(term(x) for x in v)
    if isinstance(v, tuple):
        return ('tuple',) + tuple(term(x) for x in v)
    if isinstance(v, dict):
        return ('dict',) + tuple((term(k), term(x)) for k, x in v.items())
    if isinstance(v, Model):
        return v.term()
    if isinstance(v, OpNamespace):
        return ('opns',)
    return v


def is_conc(v):
    if isinstance(v, (S, Model)):
        return False
    if isinstance(v, (list, tuple)):
        return all(is_conc(x) for x in v)
    if isinstance(v, dict):
        return all(is_conc(x) for x in v.values())
    return True


def show(t, depth=0):
    """Compact rendering of a term for reports."""
    if isinstance(t, S):
        t = t.t
    if isinstance(t, bytes):
        return t.hex() + "'h" if t else "b''"
    if not isinstance(t, tuple) or not t:
        return repr(t)
    op = t[0]
    if op == 'var':
        return t[1]
    if op == 'attr':
        return '%s.%s' % (show(t[1]), t[2])
    if op == 'index':
        return '%s[%s]' % (show(t[1]), show(t[2]))
    if op == 'cat':
        return ' . '.join(show(x) for x in t[1])
    if op == 'int2bytes':
        return '%s%s(%s)' % ('LE' if t[3] == 'little' else 'BE', t[2] if isinstance(t[2], int) else '[' + show(t[2]) + ']', show(t[1]))
    if op == 'rev':
        return 'Rev(%s)' % show(t[1])
    if op == 'cond':
        return '(%s ? %s : %s)' % (show(t[1]), show(t[2]), show(t[3]))
    if op == 'repeat':
        return 'Repeat[%s in %s](%s)' % (t[2], show(t[1]), show(t[3]))
    if op == 'cmp':
        return '(%s %s %s)' % (show(t[2]), t[1], show(t[3]))
    if op == 'binop':
        return '(%s %s %s)' % (show(t[2]), t[1], show(t[3]))
    if op == 'not':
        return 'not %s' % show(t[1])
    if op == 'bool':
        return '(' + (' %s ' % t[1]).join(show(x) for x in t[2]) + ')'
    if op == 'call':
        return '%s(%s)' % (t[1], ', '.join([show(x) for x in t[2]] + ['%s=%s' % (k, show(v)) for k, v in t[3]]))
    if op == 'mcall':
        return '%s.%s(%s)' % (show(t[1]), t[2], ', '.join([show(x) for x in t[3]] + ['%s=%s' % (k, show(v)) for k, v in t[4]]))
    if op == 'slice':
        return '%s[%s:%s%s]' % (show(t[1]), '' if t[2] is None else show(t[2]), '' if t[3] is None else show(t[3]),
                                '' if t[4] is None else ':' + show(t[4]))
    if op in ('list', 'tuple'):
        return '[' + ', '.join(show(x) for x in t[1:]) + ']'
    return '%s(%s)' % (op, ', '.join(show(x) for x in t[1:]))


class Model:
    """Base class for client-provided object models (symbolic stack, stream, ...)."""

    def copy(self):
        return self

    def term(self):
        return ('model', type(self).__name__)

    def get_attr(self, interp, name, st):
        return NotImplemented

    def set_attr(self, interp, name, value, st):
        return NotImplemented

    def call_method(self, interp, name, args, kwargs, st, node):
        return NotImplemented

    def get_item(self, interp, idx, st):
        return NotImplemented

    def set_item(self, interp, idx, value, st):
        return NotImplemented

    def length(self, interp, st):
        return NotImplemented

    def truth(self, interp, st):
        return NotImplemented

    def merge(self, test, other):
        """merge with other under cond(test, self, other); return merged model or NotImplemented"""
        return NotImplemented

    def same(self, other):
        return self is other


class State:
    def __init__(self, env=None, heap=None, pc=None):
        self.env = env if env is not None else {}
        self.heap = heap if heap is not None else {}
        self.pc = pc if pc is not None else []

    def copy(self):
        env = {}
        for k, v in self.env.items():
            env[k] = _copy_val(v)
        heap = {k: _copy_val(v) for k, v in self.heap.items()}
        return State(env, heap, list(self.pc))


def _copy_val(v):
    if isinstance(v, Model):
        return v.copy()
    if isinstance(v, list):
        return [_copy_val(x) for x in v]
    if isinstance(v, dict):
        return {k: _copy_val(x) for k, x in v.items()}
    return v


class Exit:
    def __init__(self, kind, pc, value, node, heap=None, env=None):
        self.kind, self.pc, self.value, self.node, self.heap, self.env = kind, list(pc), value, node, heap, env

    def __repr__(self):
        return '<%s %s when %s>' % (self.kind, show(term(self.value)), ' & '.join(('' if p else 'not ') + show(t) for t, p in self.pc))


class _Break(Exception):
    pass


# ---------------------------------------------------------------------------------------------

def cat(parts, ty=None):
    """Concatenate values (bytes / str / list-like); flattens, merges adjacent constants."""
    flat = []
    for p in parts:
        if isinstance(p, S) and isinstance(p.t, tuple) and p.t and p.t[0] == 'cat':
            for q in p.t[1]:
                flat.append(q)
        elif isinstance(p, tuple):
            # raw term (parts_of() returns raw terms)
            if p and p[0] == 'cat':
                flat.extend(p[1])
            else:
                flat.append(p)
        else:
            flat.append(term(p))
    out = []
    for p in flat:
        if isinstance(p, (bytes, str)) and len(p) == 0:
            continue
        if out and isinstance(p, bytes) and isinstance(out[-1], bytes):
            out[-1] = out[-1] + p
        elif out and isinstance(p, str) and isinstance(out[-1], str):
            out[-1] = out[-1] + p
        else:
            out.append(p)
    if not out:
        return b'' if ty != 'str' else ''
    if len(out) == 1:
        o = out[0]
        return o if not isinstance(o, tuple) else S(o, ty)
    return S(('cat', tuple(out)), ty)


def parts_of(v):
    t = term(v)
    if isinstance(t, tuple) and t and t[0] == 'cat':
        return list(t[1])
    if isinstance(t, (bytes, str)) and len(t) == 0:
        return []
    return [t]


def _split_common(a, b):
    """common prefix / suffix of two part lists (constants are split bytewise)."""
    pre = []
    a, b = list(a), list(b)
    while a and b:
        if a[0] == b[0]:
            pre.append(a.pop(0))
            b.pop(0)
        elif isinstance(a[0], bytes) and isinstance(b[0], bytes):
            n = 0
            while n < min(len(a[0]), len(b[0])) and a[0][n] == b[0][n]:
                n += 1
            if n == 0:
                break
            pre.append(a[0][:n])
            a[0], b[0] = a[0][n:], b[0][n:]
            if not a[0]:
                a.pop(0)
            if not b[0]:
                b.pop(0)
            if n and (a and b) and not (a[0] == b[0]):
                break
        else:
            break
    suf = []
    while a and b:
        if a[-1] == b[-1]:
            suf.insert(0, a.pop())
            b.pop()
        elif isinstance(a[-1], bytes) and isinstance(b[-1], bytes):
            n = 0
            while n < min(len(a[-1]), len(b[-1])) and a[-1][-1 - n] == b[-1][-1 - n]:
                n += 1
            if n == 0:
                break
            suf.insert(0, a[-1][len(a[-1]) - n:])
            a[-1], b[-1] = a[-1][:len(a[-1]) - n], b[-1][:len(b[-1]) - n]
            if not a[-1]:
                a.pop()
            if not b[-1]:
                b.pop()
            break
        else:
            break
    return pre, a, b, suf


def _vals_equal(a, b):
    if isinstance(a, Model) or isinstance(b, Model):
        return isinstance(a, Model) and isinstance(b, Model) and a.same(b)
    try:
        return type(a) == type(b) and term(a) == term(b)
    except Exception:
        return False


def merge_values(test, a, b):
    """value of cond(test, a, b)"""
    if _vals_equal(a, b):
        return a
    if isinstance(a, Model) and isinstance(b, Model):
        m = a.merge(test, b)
        if m is not NotImplemented:
            return m
        raise AnalysisError('cannot merge object models under %s' % show(test))
    ty = None
    for v in (a, b):
        if isinstance(v, S) and v.ty:
            ty = v.ty
        elif isinstance(v, bytes):
            ty = ty or 'bytes'
    byteslike = lambda v: isinstance(v, bytes) or (isinstance(v, S) and (v.ty == 'bytes' or (isinstance(v.t, tuple) and v.t[0] == 'cat')))
    if byteslike(a) and byteslike(b):
        pre, ra, rb, suf = _split_common(parts_of(a), parts_of(b))
        if pre or suf:
            mid = S(('cond', test, term(cat(ra, 'bytes')), term(cat(rb, 'bytes'))), 'bytes')
            return cat(pre + [mid] + suf, 'bytes')
    if isinstance(a, list) and isinstance(b, list) and len(a) == len(b):
        return [merge_values(test, x, y) for x, y in zip(a, b)]
    if isinstance(a, dict) and isinstance(b, dict):
        out = {}
        for k in list(a.keys()) + [k for k in b.keys() if k not in a]:
            if k in a and k in b:
                out[k] = merge_values(test, a[k], b[k])
            elif k in a:
                out[k] = merge_values(test, a[k], S(('undefined', str(k))))
            else:
                out[k] = merge_values(test, S(('undefined', str(k))), b[k])
        return out
    return S(('cond', test, term(a), term(b)), ty)


# ---------------------------------------------------------------------------------------------

class Interp:
    """
    repo      : core.Repo
    modname   : module whose globals are visible
    hooks     : {callee name: fn(interp, args, kwargs, st, node) -> value | NotImplemented}
    inline    : set of function quals ('encoding:varstr') / bare names that are inlined when called
    decide    : fn(term) -> True/False/None  (client specialisation of symbolic tests)
    self_cls  : qual of the class 'self' belongs to (for self.m() inlining)
    """

    def __init__(self, repo, modname, hooks=None, inline=None, decide=None, self_cls=None, max_depth=4,
                 attr_hook=None, opaque_calls_ok=True):
        self.repo = repo
        self.modname = modname
        self.consts = repo.consts(modname)
        self.hooks = hooks or {}
        self.inline = set(inline or ())
        self.decide = decide
        self.self_cls = self_cls
        self.max_depth = max_depth
        self.attr_hook = attr_hook
        self.exits = []
        self.depth = 0
        self.opaque_calls = []
        self.notes = []
        self.loop_stack = []
        self.frames = []       # per-call exit lists
        # optional observers (taint / sink rules): called with the live state so that the path condition is visible
        self.assume_full_reads = False  # a stream.read(n) with constant n > 0 returns n bytes (well-formed input)
        self.inline_setters = False   # inline property setters of self_cls on `self.<prop> = v`
        self.index_errors = False     # an out-of-range constant index / pop on an interpreter list ends the path with a raise IndexError exit
        self.obs_store = None  # fn(target_term, value, st, node)      attribute / subscript stores
        self.obs_exit = None   # fn(kind, value, st, node)              return / raise
        self.obs_call = None   # fn(name, base_term|None, args, kwargs, st, node)   every call evaluated

    # ---- entry --------------------------------------------------------------------------
    def run_function(self, fn, args, st=None, modname=None):
        """Evaluate FunctionDef ``fn`` with ``args`` (dict name -> value; missing parameters take their
        folded default or become symbolic vars). Returns the list of Exit objects in program order."""
        st = st or State()
        saved_mod, saved_consts = self.modname, self.consts
        if modname and modname != self.modname:
            self.modname, self.consts = modname, self.repo.consts(modname)
        try:
            a = fn.args
            names = [x.arg for x in a.posonlyargs + a.args]
            defaults = [None] * (len(names) - len(a.defaults)) + list(a.defaults)
            for n, d in list(zip(names, defaults)) + [(x.arg, d) for x, d in zip(a.kwonlyargs, a.kw_defaults)]:
                if n in args:
                    st.env[n] = args[n]
                elif d is not None:
                    try:
                        st.env[n] = fold(d, self.consts)
                    except NotConst:
                        st.env[n] = S(('var', n))
                else:
                    st.env[n] = S(('var', n))
            if a.vararg:
                st.env[a.vararg.arg] = args.get(a.vararg.arg, [])
            if a.kwarg:
                st.env[a.kwarg.arg] = args.get(a.kwarg.arg, {})
            exits = []
            self.frames.append(exits)
            try:
                end = self.exec_block(fn.body, st)
            finally:
                self.frames.pop()
            if end is not None:
                exits.append(Exit('return', end.pc, None, fn, end.heap, end.env))
            return exits
        finally:
            self.modname, self.consts = saved_mod, saved_consts

    def result_value(self, exits, include_raises=False, base_pc_len=0):
        """Fold the ordered exit list into one value: cond(pc1, v1, cond(pc2, v2, ... vlast))."""
        rel = [e for e in exits if e.kind == 'return' or include_raises]
        if not rel:
            return None
        def val(e):
            return e.value if e.kind == 'return' else S(('raise', term(e.value)))
        res = val(rel[-1])
        for e in reversed(rel[:-1]):
            conj = e.pc[base_pc_len:]
            if not conj:
                res = val(e)
                continue
            test = pc_term(conj)
            res = merge_values(test, val(e), res)
        return res

    # ---- statements -----------------------------------------------------------------------
    def exec_block(self, stmts, st):
        for s in stmts:
            try:
                st = self.exec_stmt(s, st)
            except _AlwaysRaises:
                return None
            if st is None:
                return None
        return st

    def _exit(self, kind, st, value, node):
        if self.obs_exit is not None and self.depth == 0:
            self.obs_exit(kind, value, st, node)
        self.frames[-1].append(Exit(kind, st.pc, value, node, st.heap, st.env))

    def exec_stmt(self, s, st):
        if isinstance(s, ast.Expr):
            if isinstance(s.value, ast.Constant):
                return st
            self.eval(s.value, st)
            return st
        if isinstance(s, ast.Assign):
            v = self.eval(s.value, st)
            for t in s.targets:
                self.assign(t, v, st)
            return st
        if isinstance(s, ast.AnnAssign):
            if s.value is not None:
                self.assign(s.target, self.eval(s.value, st), st)
            return st
        if isinstance(s, ast.AugAssign):
            cur = self.eval(_as_load(s.target), st)
            rhs = self.eval(s.value, st)
            self.assign(s.target, self.binop(s.op, cur, rhs), st)
            return st
        if isinstance(s, ast.Return):
            v = self.eval(s.value, st) if s.value is not None else None
            self._exit('return', st, v, s)
            return None
        if isinstance(s, ast.Raise):
            v = self.eval(s.exc, st) if s.exc is not None else S(('reraise',))
            self._exit('raise', st, v, s)
            return None
        if isinstance(s, ast.Assert):
            t = self.truth(self.eval(s.test, st), st)
            if t is True:
                return st
            if t is False:
                self._exit('raise', st, S(('call', 'AssertionError', (), ())), s)
                return None
            st_f = st.copy()
            st_f.pc.append((t, False))
            self._exit('raise', st_f, S(('call', 'AssertionError', (), ())), s)
            st.pc.append((t, True))
            return st
        if isinstance(s, ast.If):
            return self.exec_if(s, st)
        if isinstance(s, (ast.For,)):
            return self.exec_for(s, st)
        if isinstance(s, ast.While):
            return self.exec_while(s, st)
        if isinstance(s, ast.Pass):
            return st
        if isinstance(s, ast.Break):
            if self.loop_stack:
                self.loop_stack[-1]['break'].append(st)
                return None
            raise AnalysisError('break outside loop')
        if isinstance(s, ast.Continue):
            if self.loop_stack:
                self.loop_stack[-1]['continue'].append(st)
                return None
            raise AnalysisError('continue outside loop')
        if isinstance(s, ast.Try):
            return self.exec_try(s, st)
        if isinstance(s, ast.With):
            for it in s.items:
                v = self.eval(it.context_expr, st)
                if it.optional_vars is not None:
                    self.assign(it.optional_vars, v, st)
            return self.exec_block(s.body, st)
        if isinstance(s, ast.FunctionDef):
            # a nested helper that reads nothing but its own parameters, module names and builtins can be inlined at its call sites
            own = set(x.arg for x in s.args.posonlyargs + s.args.args + s.args.kwonlyargs)
            own |= set(n.id for n in ast.walk(s) if isinstance(n, ast.Name) and isinstance(n.ctx, ast.Store))
            free = set(n.id for n in ast.walk(s) if isinstance(n, ast.Name) and isinstance(n.ctx, ast.Load)) - own
            if not (free & set(st.env)) and not s.decorator_list:
                st.env[s.name] = LocalFn(s)
            return st
        if isinstance(s, (ast.ClassDef, ast.Import, ast.ImportFrom, ast.Global, ast.Nonlocal)):
            return st
        if isinstance(s, ast.Delete):
            for t in s.targets:
                if isinstance(t, ast.Name):
                    st.env.pop(t.id, None)
            return st
        raise AnalysisError('statement kind %s not modelled (line %s)' % (type(s).__name__, getattr(s, 'lineno', '?')))

    def exec_if(self, s, st):
        tv = self.eval(s.test, st)
        t = self.truth(tv, st)
        if t is True:
            return self.exec_block(s.body, st)
        if t is False:
            return self.exec_block(s.orelse, st) if s.orelse else st
        st1 = st.copy()
        st1.pc.append((t, True))
        st2 = st.copy()
        st2.pc.append((t, False))
        r1 = self.exec_block(s.body, st1)
        r2 = self.exec_block(s.orelse, st2) if s.orelse else st2
        return self.merge_states(t, r1, r2, len(st.pc))

    def merge_states(self, test, r1, r2, base_len):
        if r1 is None and r2 is None:
            return None
        if r1 is None:
            return r2
        if r2 is None:
            return r1
        out = State(pc=r1.pc[:base_len])
        ex1, ex2 = r1.pc[base_len:], r2.pc[base_len:]
        if (len(ex1) > 1 or len(ex2) > 1) and ex1 and ex2:
            # keep what is known about the merged paths as a disjunction (sub-branches that ended in raise/return)
            out.pc.append((('bool', 'or', (pc_term(ex1), pc_term(ex2))), True))
        for k in list(r1.env.keys()) + [k for k in r2.env.keys() if k not in r1.env]:
            if k in r1.env and k in r2.env:
                out.env[k] = merge_values(test, r1.env[k], r2.env[k])
            else:
                have = r1.env[k] if k in r1.env else r2.env[k]
                undef = S(('undefined', k))
                out.env[k] = merge_values(test, have, undef) if k in r1.env else merge_values(test, undef, have)
        for k in list(r1.heap.keys()) + [k for k in r2.heap.keys() if k not in r1.heap]:
            a = r1.heap.get(k, S(k))
            b = r2.heap.get(k, S(k))
            out.heap[k] = merge_values(test, a, b)
        return out

    def exec_for(self, s, st):
        it = self.eval(s.iter, st)
        if isinstance(it, dict):
            it = list(it.keys())
        if isinstance(it, (list, tuple, range)) or (isinstance(it, (bytes, str)) and True):
            items = list(it)
            if len(items) > MAX_UNROLL:
                raise AnalysisError('loop too long to unroll (%d)' % len(items))
            cur = st
            broke = []
            for x in items:
                frame = {'break': [], 'continue': []}
                self.loop_stack.append(frame)
                self.assign(s.target, x, cur)
                r = self.exec_block(s.body, cur)
                self.loop_stack.pop()
                live = [r] if r is not None else []
                live += frame['continue']
                broke += frame['break']
                if not live:
                    cur = None
                    break
                cur = self._merge_many(live)
            ends = ([cur] if cur is not None else [])
            if cur is not None and s.orelse:
                e = self.exec_block(s.orelse, cur)
                ends = [e] if e is not None else []
            ends += broke
            if not ends:
                return None
            return self._merge_many(ends)
        # symbolic collection: summarise one iteration
        coll = term(it)
        vname = unparse(s.target)
        pre = st.copy()
        body_st = st.copy()
        elem = S(('elem', coll, vname))
        self.assign(s.target, elem, body_st)
        frame = {'break': [], 'continue': [], 'symbolic': coll}
        self.loop_stack.append(frame)
        n_exits = len(self.frames[-1])
        r = self.exec_block(s.body, body_st)
        self.loop_stack.pop()
        for e in self.frames[-1][n_exits:]:
            e.pc.insert(len(st.pc), (('in-loop', coll, vname), True))
        live = ([r] if r is not None else []) + frame['continue'] + frame['break']
        if frame['break']:
            self.notes.append('symbolic loop over %s may break early' % show(coll))
        if not live:
            # body always exits: after the loop only the "empty collection" case continues
            st.pc.append((('empty', coll), True))
            return self.exec_block(s.orelse, st) if s.orelse else st
        after = self._merge_many(live)
        out = State(pc=list(st.pc))
        for k, nv in after.env.items():
            ov = pre.env.get(k, None)
            out.env[k] = self._loop_summary(coll, vname, k, ov, nv, k in pre.env)
        for k, nv in after.heap.items():
            ov = pre.heap.get(k, S(k))
            out.heap[k] = self._loop_summary(coll, vname, show(k), ov, nv, True)
        if s.orelse:
            return self.exec_block(s.orelse, out)
        return out

    def _loop_summary(self, coll, vname, name, ov, nv, had):
        if had and _vals_equal(ov, nv):
            return ov
        if isinstance(nv, Model):
            raise AnalysisError('object model mutated inside a symbolic loop')
        if had and isinstance(ov, dict) and isinstance(nv, dict):
            out = {}
            for k, v in nv.items():
                out[k] = self._loop_summary(coll, vname, '%s[%r]' % (name, k), ov.get(k), v, k in ov)
            return out
        if had and isinstance(ov, list) and isinstance(nv, list) and len(nv) >= len(ov) and all(_vals_equal(a, b) for a, b in zip(ov, nv)):
            # list grown by appends inside the loop: ov + [repeat(delta)]
            delta = [term(x) for x in nv[len(ov):]]
            return list(ov) + [S(('repeat', coll, vname, ('list',) + tuple(delta)))]
        if had:
            po, pn = parts_of(ov) if _is_seq(ov) else None, parts_of(nv) if _is_seq(nv) else None
            if po is not None and pn is not None:
                pre, ra, rb, suf = _split_common(po, pn)
                if not ra and not suf:
                    # nv = ov . delta  -> ov . Repeat(coll, delta)
                    return cat(po + [('repeat', coll, vname, term(cat(rb)))], 'bytes')
        return S(('after-loop', coll, vname, name, term(nv)))

    def _merge_many(self, states):
        cur = states[0]
        for other in states[1:]:
            # distinguishing condition: first differing pc entry
            test = None
            for (a, b) in zip(cur.pc, other.pc):
                if a != b:
                    test = a[0] if a[1] else ('not', a[0])
                    break
            if test is None:
                longer = cur.pc if len(cur.pc) > len(other.pc) else other.pc
                shorter = min(len(cur.pc), len(other.pc))
                if len(longer) > shorter:
                    e = longer[shorter]
                    test = e[0] if (e[1] and longer is cur.pc) or (not e[1] and longer is other.pc) else ('not', e[0])
                else:
                    test = ('unknown-path',)
            base = 0
            for (a, b) in zip(cur.pc, other.pc):
                if a == b:
                    base += 1
                else:
                    break
            cur = self.merge_states(test, cur, other, base)
        return cur

    def exec_while(self, s, st):
        count = 0
        broke = []
        cur = st
        while True:
            tv = self.eval(s.test, cur)
            t = self.truth(tv, cur)
            if t is False:
                break
            if t is True:
                count += 1
                if count > MAX_UNROLL:
                    raise AnalysisError('while loop does not terminate under abstract evaluation')
                frame = {'break': [], 'continue': []}
                self.loop_stack.append(frame)
                r = self.exec_block(s.body, cur)
                self.loop_stack.pop()
                broke += frame['break']
                live = ([r] if r is not None else []) + frame['continue']
                if not live:
                    cur = None
                    break
                cur = self._merge_many(live)
                continue
            # symbolic test: summarise one iteration like a symbolic for loop
            coll = ('while', t)
            pre = cur.copy()
            body_st = cur.copy()
            body_st.pc.append((t, True))
            frame = {'break': [], 'continue': [], 'symbolic': coll}
            self.loop_stack.append(frame)
            n_exits = len(self.frames[-1])
            r = self.exec_block(s.body, body_st)
            self.loop_stack.pop()
            for e in self.frames[-1][n_exits:]:
                e.pc.insert(len(cur.pc), (('in-loop', coll, ''), True))
            live = ([r] if r is not None else []) + frame['continue'] + frame['break']
            out = State(pc=list(cur.pc))
            if live:
                after = self._merge_many(live)
                for k, nv in after.env.items():
                    if isinstance(nv, Model):
                        if not (k in pre.env and isinstance(pre.env[k], Model) and nv.same(pre.env[k])):
                            raise AnalysisError('object model mutated inside a symbolic while loop')
                        out.env[k] = nv
                        continue
                    out.env[k] = self._loop_summary(coll, '', k, pre.env.get(k), nv, k in pre.env)
                for k, nv in after.heap.items():
                    out.heap[k] = self._loop_summary(coll, '', show(k), pre.heap.get(k, S(k)), nv, True)
            else:
                out = pre
                out.pc.append((t, False))
            cur = out
            break
        ends = [cur] if cur is not None else []
        if cur is not None and s.orelse:
            e = self.exec_block(s.orelse, cur)
            ends = [e] if e is not None else []
        ends += broke
        if not ends:
            return None
        return self._merge_many(ends)

    def exec_try(self, s, st):
        pre = st.copy()
        n_exits = len(self.frames[-1])
        try:
            r = self.exec_block(s.body, st)
        except _ConcreteRaise as ce:
            # the body raises for certain: exactly the first handler that names this exception (or a base class of it) runs
            bases = {'UnicodeDecodeError': ('UnicodeDecodeError', 'UnicodeError', 'ValueError', 'Exception', 'BaseException'),
                     'ValueError': ('ValueError', 'Exception', 'BaseException'), 'TypeError': ('TypeError', 'Exception', 'BaseException'),
                     'KeyError': ('KeyError', 'LookupError', 'Exception', 'BaseException'), 'IndexError': ('IndexError', 'LookupError', 'Exception', 'BaseException'),
                     'AttributeError': ('AttributeError', 'Exception', 'BaseException'), 'OverflowError': ('OverflowError', 'ArithmeticError', 'Exception', 'BaseException')}
            chain = bases.get(ce.exc)
            if chain is None:
                raise
            for h in s.handlers:
                names = [unparse(x) for x in (h.type.elts if isinstance(h.type, ast.Tuple) else [h.type])] if h.type is not None else ['BaseException']
                if any(nm.split('.')[-1] in chain for nm in names):
                    hst = pre.copy()
                    if h.name:
                        hst.env[h.name] = S(('exception', ce.exc))
                    out = self.exec_block(h.body, hst)
                    if out is not None and s.finalbody:
                        out = self.exec_block(s.finalbody, out)
                    return out
            raise
        # raises recorded inside the body may be caught: keep them but mark
        caught_any = False
        for e in self.frames[-1][n_exits:]:
            if e.kind == 'raise' and s.handlers:
                e.kind = 'raise-maybe-caught'
                caught_any = True
        if r is not None and s.orelse:
            r = self.exec_block(s.orelse, r)
        ends = [r] if r is not None else []
        # a body of plain assignments that were evaluated on constants to constants has run without an exception: no handler is entered
        trivially_done = (r is not None and not caught_any and all(
            isinstance(x, ast.Assign) and all(isinstance(t, ast.Name) for t in x.targets) and
            all(isinstance(n, (ast.Name, ast.Constant, ast.Call, ast.Attribute, ast.Load, ast.BinOp, ast.operator)) for n in ast.walk(x.value)) and
            all(is_conc(pre.env.get(n.id)) for n in ast.walk(x.value) if isinstance(n, ast.Name) and n.id in pre.env) and
            all(n.id in pre.env for n in ast.walk(x.value) if isinstance(n, ast.Name) and isinstance(n.ctx, ast.Load) and not isinstance(getattr(n, '_p', None), ast.Call)) and
            all(is_conc(r.env.get(t.id)) for t in x.targets) for x in s.body))
        for h in ([] if trivially_done else s.handlers):
            hst = pre.copy()
            tname = unparse(h.type) if h.type is not None else 'BaseException'
            hst.pc.append((('exc', tname, getattr(h, 'lineno', 0)), True))
            if h.name:
                hst.env[h.name] = S(('exception', tname))
            hr = self.exec_block(h.body, hst)
            if hr is not None:
                ends.append(hr)
        if not ends:
            return None
        out = self._merge_many(ends)
        if s.finalbody:
            out = self.exec_block(s.finalbody, out)
        return out

    # ---- assignment -----------------------------------------------------------------------
    def assign(self, target, v, st):
        if isinstance(target, ast.Name):
            st.env[target.id] = v
            return
        if isinstance(target, (ast.Tuple, ast.List)):
            if isinstance(v, (list, tuple)) and len(v) == len(target.elts):
                for t, x in zip(target.elts, v):
                    self.assign(t, x, st)
            else:
                for i, t in enumerate(target.elts):
                    self.assign(t, S(('index', term(v), i)), st)
            return
        if isinstance(target, ast.Attribute):
            base = self.eval(target.value, st)
            if isinstance(base, Model):
                r = base.set_attr(self, target.attr, v, st)
                if r is not NotImplemented:
                    return
            if self.obs_store is not None:
                self.obs_store(('attr', term(base), target.attr), v, st, target)
            if self.self_cls and self.inline_setters and isinstance(base, S) and base.t == ('var', 'self') and self.depth < self.max_depth:
                q = self.repo.resolve_method(self.self_cls, target.attr + '.setter')
                if q:
                    try:
                        self.inline_call(self.repo.func(q), q.partition(':')[0], [v], {}, st, self_val=base)
                    except _AlwaysRaises:
                        raise
                    return
            st.heap[('attr', term(base), target.attr)] = v
            return
        if isinstance(target, ast.Subscript):
            base = self.eval(target.value, st)
            if isinstance(target.slice, ast.Slice):
                idx = ('slice', self._opt(target.slice.lower, st), self._opt(target.slice.upper, st), self._opt(target.slice.step, st))
            else:
                idx = self.eval(target.slice, st)
            if isinstance(base, Model):
                r = base.set_item(self, idx, v, st)
                if r is not NotImplemented:
                    return
            if isinstance(base, (list, dict)) and is_conc(idx) and not isinstance(idx, tuple):
                try:
                    base[idx] = v
                    return
                except Exception:
                    pass
            st.heap[('index', term(base), term(idx))] = v
            return
        if isinstance(target, ast.Starred):
            raise AnalysisError('starred assignment not modelled')
        raise AnalysisError('assignment target %s not modelled' % type(target).__name__)

    def _opt(self, node, st):
        return None if node is None else self.eval(node, st)

    # ---- expressions ----------------------------------------------------------------------
    def truth(self, v, st):
        """True / False for concrete, else the symbolic test term (possibly decided by the client)."""
        if isinstance(v, Model):
            r = v.truth(self, st)
            if r is NotImplemented:
                raise AnalysisError('truth of object model not modelled')
            return self.truth(r, st) if not isinstance(r, bool) else r
        if not isinstance(v, S):
            if isinstance(v, (list, tuple, dict)):
                return len(v) > 0
            return bool(v)
        t = v.t
        if isinstance(t, tuple) and t and t[0] == 'rev':
            return self.truth(S(t[1]), st)
        if isinstance(t, tuple) and t and t[0] == 'read' and isinstance(t[2], int) and t[2] > 0 and self.assume_full_reads:
            return True
        # path-condition lookup
        for (pt, pol) in st.pc:
            if pt == t:
                return pol
            if isinstance(t, tuple) and t[0] == 'not' and pt == t[1]:
                return not pol
        if self.decide is not None:
            d = self.decide(t)
            if d is True or d is False:
                return d
        if isinstance(t, tuple) and t and t[0] == 'not':
            inner = self.truth(S(t[1]), st)
            if inner is True or inner is False:
                return not inner
        if isinstance(t, tuple) and t and t[0] == 'bool':
            # a conjunction with a constant falsy member is falsy, a disjunction with a constant truthy member is truthy
            for x in t[2]:
                if not isinstance(x, tuple):
                    if t[1] == 'and' and not x:
                        return False
                    if t[1] == 'or' and x:
                        return True
        return t

    def eval(self, node, st):
        m = getattr(self, 'e_' + type(node).__name__, None)
        if m is None:
            raise AnalysisError('expression kind %s not modelled (line %s)' % (type(node).__name__, getattr(node, 'lineno', '?')))
        return m(node, st)

    def e_Constant(self, node, st):
        return node.value

    def e_Name(self, node, st):
        n = node.id
        if n in st.env:
            return st.env[n]
        if n in self.consts:
            return self.consts[n]
        if n in ('True', 'False', 'None'):
            return {'True': True, 'False': False, 'None': None}[n]
        return S(('global', n))

    def e_Attribute(self, node, st):
        base = self.eval(node.value, st)
        if isinstance(base, Model):
            r = base.get_attr(self, node.attr, st)
            if r is not NotImplemented:
                return r
        if isinstance(base, OpNamespace):
            if hasattr(base, node.attr):
                return getattr(base, node.attr)
            raise AnalysisError('unknown opcode attribute op.%s' % node.attr)
        key = ('attr', term(base), node.attr)
        if key in st.heap:
            return st.heap[key]
        if self.self_cls and self.inline_setters and isinstance(base, S) and base.t == ('var', 'self') and self.depth < self.max_depth:
            q = self.repo.resolve_method(self.self_cls, node.attr)
            if q:
                fn = self.repo.func(q)
                if any(isinstance(d, ast.Name) and d.id == 'property' for d in fn.decorator_list):
                    return self.inline_call(fn, q.partition(':')[0], [], {}, st, self_val=base)
        if self.attr_hook is not None:
            r = self.attr_hook(self, base, node.attr, st)
            if r is not NotImplemented:
                return r
        return S(key)

    def e_Subscript(self, node, st):
        base = self.eval(node.value, st)
        if isinstance(node.slice, ast.Slice):
            lo, hi, step = self._opt(node.slice.lower, st), self._opt(node.slice.upper, st), self._opt(node.slice.step, st)
            if isinstance(base, Model):
                r = base.get_item(self, ('slice', lo, hi, step), st)
                if r is not NotImplemented:
                    return r
            if is_conc(base) and is_conc(lo) and is_conc(hi) and is_conc(step) and isinstance(base, (bytes, str, list, tuple)):
                return base[lo:hi:step]
            if lo is None and hi is None and step == -1:
                bt = term(base)
                if isinstance(bt, tuple) and bt[0] == 'rev':
                    return S(bt[1], 'bytes')
                if isinstance(bt, tuple) and bt[0] == 'int2bytes':
                    return S(('int2bytes', bt[1], bt[2], 'little' if bt[3] == 'big' else 'big'), 'bytes')
                return S(('rev', bt), 'bytes')
            if isinstance(base, (list, tuple)) and is_conc(lo) and is_conc(hi) and is_conc(step):
                return base[lo:hi:step]
            return S(('slice', term(base), term(lo), term(hi), term(step)), base.ty if isinstance(base, S) else None)
        idx = self.eval(node.slice, st)
        if isinstance(base, Model):
            r = base.get_item(self, idx, st)
            if r is not NotImplemented:
                return r
        if isinstance(base, (list, tuple, bytes, str, dict, range)) and is_conc(idx):
            try:
                return base[idx]
            except Exception as exc:
                if self.index_errors and isinstance(exc, IndexError) and isinstance(base, list):
                    self._exit('raise', st, S(('call', 'IndexError', (), ())), node)
                    raise _AlwaysRaises()
                raise AnalysisError('constant subscript fails at line %s' % getattr(node, 'lineno', '?'))
        key = ('index', term(base), term(idx))
        if key in st.heap:
            return st.heap[key]
        return S(key)

    def e_BinOp(self, node, st):
        return self.binop(node.op, self.eval(node.left, st), self.eval(node.right, st))

    def binop(self, op, a, b):
        if is_conc(a) and is_conc(b) and not isinstance(a, (list, dict)) and not isinstance(b, (list, dict)):
            from .core import _BINOPS
            try:
                return _BINOPS[type(op)](a, b)
            except Exception as e:
                if isinstance(op, ast.Mod) and isinstance(a, str):
                    return S(('fmt', a, term(b)), 'str')
                raise AnalysisError('constant operation fails: %r' % e)
        if isinstance(op, ast.Add):
            if isinstance(a, list) and isinstance(b, list):
                return a + b
            if _is_seq(a) or _is_seq(b):
                ty = 'bytes'
                if isinstance(a, str) or isinstance(b, str) or (isinstance(a, S) and a.ty == 'str') or (isinstance(b, S) and b.ty == 'str'):
                    ty = 'str'
                return cat([a, b], ty)
        if isinstance(op, ast.Mult) and isinstance(a, list) and isinstance(b, int):
            return a * b
        if isinstance(op, ast.Mod) and (isinstance(a, str) or (isinstance(a, S) and a.ty == 'str')):
            return S(('fmt', term(a), term(b)), 'str')
        ty = 'int' if (_is_int(a) or _is_int(b)) and not isinstance(op, ast.Div) else None
        return S(('binop', _opname(op), term(a), term(b)), ty)

    def e_UnaryOp(self, node, st):
        v = self.eval(node.operand, st)
        if isinstance(node.op, ast.Not):
            t = self.truth(v, st)
            if t is True or t is False:
                return not t
            if isinstance(t, tuple) and t and t[0] == 'not':
                return S(t[1], 'bool')
            return S(('not', t), 'bool')
        if is_conc(v):
            return fold(ast.UnaryOp(op=node.op, operand=ast.Constant(value=v)))
        return S(('unop', type(node.op).__name__, term(v)), 'int')

    def _is_repo_class(self, name):
        try:
            r = self.repo.resolve_name(self.modname, name)
            return bool(r) and r[1] in self.repo.mod(r[0]).classes
        except Exception:
            return False

    def e_BoolOp(self, node, st):
        is_and = isinstance(node.op, ast.And)
        acc = []
        tacc = []
        for vn in node.values:
            if tacc:
                # short circuit: this operand only runs when the earlier ones did not decide; keep its side effects conditional
                guard = tacc[0] if len(tacc) == 1 else ('bool', 'and' if is_and else 'or', tuple(tacc))
                s1 = st.copy()
                s1.pc.append((guard, is_and))
                v = self.eval(vn, s1)
                t = self.truth(v, s1)
                m = self.merge_states(guard, s1, st, len(st.pc)) if is_and else self.merge_states(guard, st, s1, len(st.pc))
                st.env, st.heap = m.env, m.heap
            else:
                v = self.eval(vn, st)
                t = self.truth(v, st)
            if t is True:
                if not is_and:
                    return v if not acc else S(('bool', 'or', tuple(acc + [term(v)])), None)
                last = v
                continue
            if t is False:
                if is_and:
                    return v if not acc else S(('bool', 'and', tuple(acc + [False])), 'bool')
                last = v
                continue
            acc.append(term(v))
            tacc.append(t)
            last = v
        if not acc:
            return last
        if len(acc) == 1 and (is_conc(last) is False) and term(last) == acc[0]:
            return last
        if len(acc) == 1 and is_conc(last):
            # e.g. "x and True": value is x when falsy else last; keep as bool term over x
            return S(('bool', 'and' if is_and else 'or', tuple(acc + [term(last)])), None)
        return S(('bool', 'and' if is_and else 'or', tuple(acc)), 'bool')

    def e_Compare(self, node, st):
        left = self.eval(node.left, st)
        res = []
        for op, cn in zip(node.ops, node.comparators):
            right = self.eval(cn, st)
            r = self.compare(op, left, right, st)
            if r is False:
                return False
            if r is not True:
                res.append(r)
            left = right
        if not res:
            return True
        if len(res) == 1:
            return S(res[0], 'bool')
        return S(('bool', 'and', tuple(res)), 'bool')

    def compare(self, op, a, b, st=None):
        from .core import _CMPOPS
        if isinstance(a, Model) or isinstance(b, Model):
            raise AnalysisError('comparison of object model not modelled')
        if is_conc(a) and is_conc(b):
            try:
                return bool(_CMPOPS[type(op)](a, b))
            except Exception as e:
                raise AnalysisError('constant comparison fails: %r' % e)
        name = _cmpname(op)
        if name in ('is', 'is not'):
            # a symbolic value compared with None: unknown unless typed
            if (a is None and isinstance(b, S) and b.ty in ('bytes', 'int', 'str', 'bool')) or \
               (b is None and isinstance(a, S) and a.ty in ('bytes', 'int', 'str', 'bool')):
                return name == 'is not'
        if name in ('in', 'not in') and isinstance(b, (list, tuple, dict, frozenset)) and len(b) == 0:
            return name == 'not in'
        if name in ('in', 'not in') and isinstance(b, (list, tuple)) and not is_conc(b) and isinstance(a, S) and any(isinstance(x, S) and x.t == a.t for x in b):
            # the very same object is an element of the sequence (identity implies membership)
            return name == 'in'
        if name in ('in', 'not in') and isinstance(b, (list, tuple, dict, frozenset, range)) and is_conc(b) and isinstance(a, S):
            return ('cmp', name, a.t, ('tuple',) + (tuple(b) if not isinstance(b, dict) else tuple(b.keys())))
        return ('cmp', name, term(a), term(b))

    def e_IfExp(self, node, st):
        t = self.truth(self.eval(node.test, st), st)
        if t is True:
            return self.eval(node.body, st)
        if t is False:
            return self.eval(node.orelse, st)
        s1 = st.copy(); s1.pc.append((t, True))
        s2 = st.copy(); s2.pc.append((t, False))
        return merge_values(t, self.eval(node.body, s1), self.eval(node.orelse, s2))

    def e_Tuple(self, node, st):
        return tuple(self.eval(e, st) for e in node.elts)

    def e_List(self, node, st):
        out = []
        for e in node.elts:
            if isinstance(e, ast.Starred):
                v = self.eval(e.value, st)
                if isinstance(v, (list, tuple)):
                    out += list(v)
                else:
                    out.append(S(('star', term(v))))
            else:
                out.append(self.eval(e, st))
        return out

    def e_Set(self, node, st):
        return [self.eval(e, st) for e in node.elts]

    def e_Dict(self, node, st):
        d = {}
        for k, v in zip(node.keys, node.values):
            if k is None:
                sub = self.eval(v, st)
                if isinstance(sub, dict):
                    d.update(sub)
                else:
                    d[('**', id(v))] = sub
                continue
            kk = self.eval(k, st)
            if not is_conc(kk):
                kk = ('symkey', term(kk))
            try:
                d[kk] = self.eval(v, st)
            except TypeError:
                raise AnalysisError('unhashable dict key')
        return d

    def e_JoinedStr(self, node, st):
        parts = []
        for v in node.values:
            if isinstance(v, ast.Constant):
                parts.append(v.value)
            else:
                parts.append(S(('str', term(self.eval(v.value, st))), 'str'))
        return cat(parts, 'str')

    def e_FormattedValue(self, node, st):
        return S(('str', term(self.eval(node.value, st))), 'str')

    def e_Lambda(self, node, st):
        return S(('lambda', unparse(node)))

    def e_Starred(self, node, st):
        return S(('star', term(self.eval(node.value, st))))

    def e_NamedExpr(self, node, st):
        v = self.eval(node.value, st)
        self.assign(node.target, v, st)
        return v

    def _comp(self, node, st, elt_fn):
        if len(node.generators) != 1:
            raise AnalysisError('nested comprehension not modelled')
        g = node.generators[0]
        it = self.eval(g.iter, st)
        if isinstance(it, dict):
            it = list(it.keys())
        if isinstance(it, (list, tuple, range, bytes, str)):
            out = []
            for x in it:
                sub = st.copy()
                self.assign(g.target, x, sub)
                ok = True
                for c in g.ifs:
                    t = self.truth(self.eval(c, sub), sub)
                    if t is False:
                        ok = False
                        break
                    if t is not True:
                        ok = None
                if ok is True:
                    out.append(elt_fn(sub))
                elif ok is None:
                    out.append(S(('maybe', term(elt_fn(sub)))))
            return out
        coll = term(it)
        vname = unparse(g.target)
        sub = st.copy()
        self.assign(g.target, S(('elem', coll, vname)), sub)
        body = term(elt_fn(sub))
        conds = tuple(term(self.eval(c, sub)) for c in g.ifs)
        if conds:
            return S(('repeat-if', coll, vname, body, conds), 'list')
        return S(('repeat', coll, vname, body), 'list')

    def e_ListComp(self, node, st):
        return self._comp(node, st, lambda sub: self.eval(node.elt, sub))

    def e_GeneratorExp(self, node, st):
        return self._comp(node, st, lambda sub: self.eval(node.elt, sub))

    def e_SetComp(self, node, st):
        return self._comp(node, st, lambda sub: self.eval(node.elt, sub))

    def e_DictComp(self, node, st):
        r = self._comp(node, st, lambda sub: (self.eval(node.key, sub), self.eval(node.value, sub)))
        if isinstance(r, list) and all(isinstance(x, tuple) and is_conc(x[0]) for x in r):
            try:
                return dict(r)
            except TypeError:
                pass
        return r if isinstance(r, S) else S(('dictcomp', term(r)))

    # ---- calls ------------------------------------------------------------------------------
    def e_Call(self, node, st):
        f = node.func
        args = []
        for a in node.args:
            if isinstance(a, ast.Starred):
                v = self.eval(a.value, st)
                if isinstance(v, (list, tuple)):
                    args += list(v)
                else:
                    args.append(S(('star', term(v))))
            else:
                args.append(self.eval(a, st))
        kwargs = {}
        for k in node.keywords:
            if k.arg is None:
                v = self.eval(k.value, st)
                if isinstance(v, dict) and all(isinstance(x, str) for x in v):
                    kwargs.update(v)
                else:
                    kwargs['**'] = v
            else:
                kwargs[k.arg] = self.eval(k.value, st)
        if self.obs_call is not None:
            if isinstance(f, ast.Name):
                self.obs_call(f.id, None, args, kwargs, st, node)
            elif isinstance(f, ast.Attribute):
                self.obs_call(f.attr, unparse(f.value), args, kwargs, st, node)
        if isinstance(f, ast.Name):
            return self.call_name(f.id, args, kwargs, st, node)
        if isinstance(f, ast.Attribute):
            # bytes.fromhex / int.from_bytes / module functions
            if isinstance(f.value, ast.Name) and f.value.id not in st.env:
                mod = f.value.id
                full = mod + '.' + f.attr
                if full in self.hooks:
                    r = self.hooks[full](self, args, kwargs, st, node)
                    if r is not NotImplemented:
                        return r
                r = self.call_static(mod, f.attr, args, kwargs, st, node)
                if r is not NotImplemented:
                    return r
            base = self.eval(f.value, st)
            return self.call_method(base, f.attr, args, kwargs, st, node)
        callee = self.eval(f, st)
        return S(('call', show(term(callee)), tuple(term(a) for a in args), _kw(kwargs)))

    def call_static(self, mod, name, args, kwargs, st, node):
        if mod == 'bytes' and name == 'fromhex' and len(args) == 1:
            if is_conc(args[0]):
                try:
                    return bytes.fromhex(args[0])
                except Exception:
                    raise _ConcreteRaise('ValueError', 'bytes.fromhex of a bad constant')
            t = term(args[0])
            if isinstance(t, tuple) and t[0] == 'hex':
                return S(t[1], 'bytes')
            return S(('fromhex', t), 'bytes')
        if mod == 'int' and name == 'from_bytes':
            order = args[1] if len(args) > 1 else kwargs.get('byteorder', 'big')
            if is_conc(args[0]) and is_conc(order):
                try:
                    return int.from_bytes(args[0], order)
                except Exception as e:
                    raise AnalysisError('int.from_bytes on constants fails: %r' % e)
            return S(('bytes2int', term(args[0]), term(order)), 'int')
        if mod == 'int' and name == 'to_bytes' and len(args) >= 2:
            order = args[2] if len(args) > 2 else kwargs.get('byteorder', 'big')
            return S(('int2bytes', term(args[0]), term(args[1]), term(order)), 'bytes')
        if mod == 'dict' and name == 'fromkeys' and 1 <= len(args) <= 2 and isinstance(args[0], (list, tuple)) and is_conc(args[0]):
            try:
                return dict.fromkeys(args[0], args[1] if len(args) > 1 else None)
            except TypeError:
                raise AnalysisError('dict.fromkeys of unhashable constants')
        if mod == 'math' and name in ('log10', 'log', 'log2', 'floor', 'ceil', 'trunc', 'sqrt', 'pow', 'fabs') and args and not kwargs and \
                all(isinstance(a, (int, float)) and not isinstance(a, bool) for a in args):
            import math as _math
            try:
                return getattr(_math, name)(*args)
            except (ValueError, OverflowError, ZeroDivisionError) as e:
                raise AnalysisError('math.%s%r fails: %s' % (name, tuple(args), e))
        if mod == 'collections' and name == 'OrderedDict' and not args:
            return dict(kwargs)
        if mod == 'hashlib' and name in ('sha256', 'sha1', 'sha512', 'new', 'ripemd160'):
            return S(('call', 'hashlib.' + name, tuple(term(a) for a in args), _kw(kwargs)))
        return NotImplemented

    def call_name(self, name, args, kwargs, st, node):
        if name in self.hooks:
            r = self.hooks[name](self, args, kwargs, st, node)
            if r is not NotImplemented:
                return r
        b = self.builtin(name, args, kwargs, st)
        if b is not NotImplemented:
            return b
        if isinstance(st.env.get(name), LocalFn):
            return self.inline_call(st.env[name].node, self.modname, args, kwargs, st)
        if name in st.env:
            return S(('call', show(term(st.env[name])), tuple(term(a) for a in args), _kw(kwargs)))
        r = self.repo.resolve_name(self.modname, name)
        if r is not None:
            qual = '%s:%s' % r
            m = self.repo.mod(r[0])
            if r[1] in m.functions and (qual in self.inline or name in self.inline) and self.depth < self.max_depth:
                return self.inline_call(m.functions[r[1]], r[0], args, kwargs, st)
        self.opaque_calls.append(name)
        return S(('call', name, tuple(term(a) for a in args), _kw(kwargs)))

    def inline_call(self, fn, modname, args, kwargs, st, self_val=None):
        a = fn.args
        names = [x.arg for x in a.posonlyargs + a.args]
        bound = {}
        pos = list(args)
        if self_val is not None:
            pos = [self_val] + pos
        for n, v in zip(names, pos):
            bound[n] = v
        for k, v in kwargs.items():
            bound[k] = v
        self.depth += 1
        sub = State(env={}, heap=st.heap, pc=list(st.pc))
        base_len = len(st.pc)
        try:
            exits = self.run_function(fn, bound, sub, modname)
        finally:
            self.depth -= 1
        rets = [e for e in exits if e.kind == 'return']
        for e in exits:
            if e.kind != 'return':
                self.frames[-1].append(e)
        if not rets:
            raise _AlwaysRaises()
        # heap effects of the inlined call: take the merged heap of the returning exits
        if len(rets) == 1:
            st.heap.update(rets[0].heap or {})
            for c in rets[0].pc[base_len:]:
                st.pc.append(c)
        else:
            merged = None
            for e in rets:
                hs = State(env={}, heap=dict(e.heap or {}), pc=list(e.pc))
                merged = hs if merged is None else self._merge_many([merged, hs])
            st.heap.update(merged.heap)
        return self.result_value(rets, base_pc_len=base_len)

    def _sort_order(self, seq, key, reverse, st):
        """indices of ``seq`` in sorted order for key=<lambda term> (None: the keys are not all constants)"""
        if not (isinstance(key, S) and isinstance(key.t, tuple) and key.t[0] == 'lambda'):
            return None
        lam = ast.parse(key.t[1], mode='eval').body
        if len(lam.args.args) != 1 or lam.args.defaults:
            return None
        keys = []
        for el in seq:
            env = dict(st.env)
            env[lam.args.args[0].arg] = el
            k = self.eval(lam.body, State(env, st.heap, list(st.pc)))
            if not is_conc(k):
                return None
            keys.append(k)
        try:
            return sorted(range(len(keys)), key=lambda i: keys[i], reverse=reverse)
        except TypeError as e:
            raise AnalysisError('sort keys not comparable: %r' % e)

    def call_method(self, base, name, args, kwargs, st, node):
        if isinstance(base, Model):
            r = base.call_method(self, name, args, kwargs, st, node)
            if r is not NotImplemented:
                return r
            mcls = getattr(base, 'cls', None)
            if mcls and self.depth < self.max_depth:
                q = self.repo.resolve_method(mcls, name)
                if q:
                    fn = self.repo.func(q)
                    if any(isinstance(d, ast.Name) and d.id == 'staticmethod' for d in fn.decorator_list):
                        return self.inline_call(fn, q.partition(':')[0], args, kwargs, st)
                    return self.inline_call(fn, q.partition(':')[0], args, kwargs, st, self_val=base)
        hk = '.' + name
        if hk in self.hooks:
            r = self.hooks[hk](self, base, args, kwargs, st, node)
            if r is not NotImplemented:
                return r
        if is_conc(base) and all(is_conc(a) for a in args) and not kwargs and isinstance(base, (bytes, str, int, list, dict, tuple)):
            if name in ('hex', 'to_bytes', 'lower', 'upper', 'encode', 'decode', 'join', 'startswith', 'endswith', 'split',
                        'strip', 'index', 'count', 'get', 'keys', 'values', 'items', 'bit_length', 'rjust', 'ljust', 'zfill',
                        'replace', 'find', 'isdigit', 'copy', 'rfind', 'rindex', 'lstrip', 'rstrip', 'isalpha', 'isalnum', 'islower', 'isupper',
                        'rsplit', 'partition', 'rpartition', 'splitlines', 'swapcase', 'isascii', 'isspace', 'title', 'capitalize', 'casefold'):
                try:
                    r = getattr(base, name)(*args)
                    if name in ('keys', 'values', 'items'):
                        r = list(r)
                    return r
                except Exception as e:
                    raise _ConcreteRaise(type(e).__name__, 'constant method call fails: %r' % e)
        if isinstance(base, list):
            if name == 'append' and len(args) == 1:
                base.append(args[0])
                return None
            if name == 'extend' and len(args) == 1 and isinstance(args[0], (list, tuple)):
                base.extend(args[0])
                return None
            if name == 'insert' and len(args) == 2 and is_conc(args[0]):
                base.insert(args[0], args[1])
                return None
            if name == 'pop' and all(is_conc(a) for a in args) and (base or self.index_errors):
                try:
                    return base.pop(*args)
                except Exception as exc:
                    if self.index_errors and isinstance(exc, IndexError):
                        self._exit('raise', st, S(('call', 'IndexError', (), ())), node)
                        raise _AlwaysRaises()
                    raise AnalysisError('pop from list fails')
            if name == 'sort' and not args and set(kwargs) <= {'key', 'reverse'} and isinstance(kwargs.get('reverse', False), bool):
                if 'key' in kwargs:
                    order = self._sort_order(base, kwargs['key'], kwargs.get('reverse', False), st)
                elif all(is_conc(x) for x in base):
                    try:
                        order = sorted(range(len(base)), key=lambda i: base[i], reverse=kwargs.get('reverse', False))
                    except TypeError as e:
                        raise AnalysisError('list elements not comparable: %r' % e)
                else:
                    order = None
                if order is None:
                    raise AnalysisError('list.sort() with keys that are not constants')
                base[:] = [base[i] for i in order]
                return None
            if name == 'index' and len(args) == 1:
                for i, x in enumerate(base):
                    if _vals_equal(x, args[0]):
                        return i
        if isinstance(base, dict):
            if name == 'get' and args and is_conc(args[0]):
                return base.get(args[0], args[1] if len(args) > 1 else None)
            if name == 'update' and len(args) == 1 and isinstance(args[0], dict):
                base.update(args[0])
                return None
            if name in ('keys', 'values', 'items') and not args:
                return list(getattr(base, name)())
        if name == 'to_bytes':
            width = args[0] if args else kwargs.get('length')
            order = args[1] if len(args) > 1 else kwargs.get('byteorder', 'big')
            if getattr(self, 'concrete_bytes', False) and isinstance(base, int) and not isinstance(base, bool) and isinstance(width, int) and isinstance(order, str):
                try:
                    return base.to_bytes(width, order)
                except (OverflowError, ValueError) as e:
                    raise AnalysisError('constant to_bytes fails: %s' % e)
            return S(('int2bytes', term(base), term(width), term(order)), 'bytes')
        if name == 'hex' and not args:
            return S(('hex', term(base)), 'str')
        if name == 'join' and len(args) == 1 and isinstance(base, (bytes, str)) and len(base) == 0:
            a = args[0]
            if isinstance(a, list):
                return cat(a, 'bytes' if isinstance(base, bytes) else 'str')
            t = term(a)
            if isinstance(t, tuple) and t[0] == 'repeat':
                return S(t, 'bytes' if isinstance(base, bytes) else 'str')
        if self.self_cls and isinstance(base, S) and base.t == ('var', 'self'):
            q = self.repo.resolve_method(self.self_cls, name)
            if q and (q in self.inline or ('self.' + name) in self.inline) and self.depth < self.max_depth:
                fn = self.repo.func(q)
                if any(isinstance(d, ast.Name) and d.id in ('staticmethod',) for d in fn.decorator_list):
                    return self.inline_call(fn, q.partition(':')[0], args, kwargs, st)
                return self.inline_call(fn, q.partition(':')[0], args, kwargs, st, self_val=base)
        self.opaque_calls.append('.' + name)
        return S(('mcall', term(base), name, tuple(term(a) for a in args), _kw(kwargs)))

    def builtin(self, name, args, kwargs, st):
        if name == 'len' and len(args) == 1:
            a = args[0]
            if isinstance(a, Model):
                r = a.length(self, st)
                if r is not NotImplemented:
                    return r
            if isinstance(a, (bytes, str, list, tuple, dict, range, frozenset)):
                if isinstance(a, (list, tuple)) and any(isinstance(x, S) and isinstance(x.t, tuple) and x.t[0] in ('star', 'maybe') for x in a):
                    return S(('len', term(a)), 'int')
                return len(a)
            t = term(a)
            if isinstance(t, tuple) and t[0] == 'int2bytes' and isinstance(t[2], int):
                return t[2]
            return S(('len', t), 'int')
        if name == 'int' and 1 <= len(args) <= 2:
            if all(is_conc(a) for a in args):
                try:
                    return int(*args)
                except Exception as e:
                    raise AnalysisError('int() of constant fails: %r' % e)
            if len(args) == 1:
                if isinstance(args[0], S) and args[0].ty == 'int':
                    return args[0]
                return S(('int', term(args[0])), 'int')
            return S(('int', term(args[0]), term(args[1])), 'int')
        if name == 'bytearray' and len(args) == 1 and getattr(self, 'concrete_bytes', False) and isinstance(args[0], (bytes, list)) and is_conc(args[0]):
            return list(args[0])        # a mutable sequence of byte values
        if name == 'bytes' and len(args) == 1:
            a = args[0]
            if isinstance(a, bytes):
                return a
            if isinstance(a, S) and (a.ty == 'bytes' or (isinstance(a.t, tuple) and a.t[0] in ('cat', 'call', 'cond', 'elem'))):
                return S(a.t, 'bytes')
            if isinstance(a, list) and is_conc(a):
                try:
                    return bytes(a)
                except Exception:
                    pass
            return S(('bytes', term(a)), 'bytes')
        if name == 'bytes' and len(args) == 2:
            return S(('encode', term(args[0]), term(args[1])), 'bytes')
        if name == 'str' and len(args) == 1:
            if is_conc(args[0]):
                return str(args[0])
            return S(('str', term(args[0])), 'str')
        if name == 'bool' and len(args) == 1:
            t = self.truth(args[0], st)
            if t is True or t is False:
                return t
            return S(t, 'bool')
        if name == 'isinstance' and len(args) == 2 and is_conc(args[0]) and not isinstance(args[0], (list, dict)) or \
                (name == 'isinstance' and len(args) == 2 and isinstance(args[0], (list, dict))):
            tymap = {'int': int, 'list': list, 'str': str, 'bytes': bytes, 'bool': bool, 'tuple': tuple, 'dict': dict, 'float': float, 'TYPE_TEXT': str}
            spec = args[1]
            names = None
            if isinstance(spec, S) and isinstance(spec.t, tuple) and spec.t[0] == 'global' and spec.t[1] in tymap:
                names = [spec.t[1]]
            elif isinstance(spec, tuple) and all(isinstance(x, S) and isinstance(x.t, tuple) and x.t[0] == 'global' and x.t[1] in tymap for x in spec):
                names = [x.t[1] for x in spec]
            if names is not None:
                return isinstance(args[0], tuple(tymap[n] for n in names))
            # numbers.Number / numbers.Integral: the abstract numeric classes of the standard library
            if isinstance(spec, S) and isinstance(spec.t, tuple) and spec.t[0] == 'attr' and spec.t[1] == ('global', 'numbers') and spec.t[2] in ('Number', 'Integral', 'Real') \
                    and not isinstance(args[0], (list, dict)):
                import numbers as _numbers
                return isinstance(args[0], getattr(_numbers, spec.t[2]))
            # a builtin constant is never an instance of a class defined in the package
            specs = list(spec) if isinstance(spec, tuple) else [spec]
            if not isinstance(args[0], (list, dict)) and specs and all(
                    isinstance(x, S) and isinstance(x.t, tuple) and x.t[0] == 'global' and self._is_repo_class(x.t[1]) for x in specs):
                return False
        if name == 'isinstance' and len(args) == 2:
            a = args[0]
            if is_conc(a) and isinstance(args[1], S):
                tn = show(args[1].t)
                m = {'bytes': bytes, 'int': int, 'str': str, 'list': list, 'tuple': tuple, 'dict': dict, 'bool': bool}
                names = [x.strip() for x in tn.strip('[]()').split(',')]
                if all(('global' in repr(args[1].t)) for _ in [0]):
                    pass
            return S(('isinstance', term(a), term(args[1])), 'bool')
        if name in ('set', 'frozenset') and len(args) == 1 and not kwargs and isinstance(args[0], (list, tuple, frozenset)) and is_conc(args[0]):
            try:
                return frozenset(args[0])
            except TypeError:
                pass
        if name in ('list', 'tuple') and len(args) == 1:
            a = args[0]
            if isinstance(a, frozenset):
                return sorted(a, key=repr) if name == 'list' else tuple(sorted(a, key=repr))
            if isinstance(a, (list, tuple, range, bytes, str)):
                return list(a) if name == 'list' else tuple(a)
            if isinstance(a, dict):
                return list(a.keys())
            return S(term(a), 'list') if isinstance(a, S) else NotImplemented
        if name == 'dict' and not args:
            return dict(kwargs)
        if name == 'list' and not args:
            return []
        if name == 'range' and all(is_conc(a) for a in args) and args:
            r = range(*args)
            if len(r) > 100000:
                raise AnalysisError('range too large')
            return r
        if name in ('all', 'any') and len(args) == 1 and isinstance(args[0], list) and not is_conc(args[0]):
            ts = []
            for x in args[0]:
                t = self.truth(x, st)
                if t is True:
                    if name == 'any':
                        return True
                    continue
                if t is False:
                    if name == 'all':
                        return False
                    continue
                ts.append(t)
            if not ts:
                return name == 'all'
            return S(('bool', 'and' if name == 'all' else 'or', tuple(ts)), 'bool')
        if name in ('sorted', 'min', 'max') and len(args) == 1 and isinstance(args[0], (list, tuple)) and kwargs and set(kwargs) <= {'key', 'reverse'} \
                and isinstance(kwargs.get('key'), S) and isinstance(kwargs.get('reverse', False), bool):
            # key=lambda over a sequence of known length: evaluate the key expression per element
            order = self._sort_order(args[0], kwargs['key'], kwargs.get('reverse', False), st)
            if order is not None:
                if name == 'sorted':
                    return [args[0][i] for i in order]
                if args[0]:
                    return args[0][order[0]] if (name == 'min') != kwargs.get('reverse', False) else args[0][order[-1]]
        if name in ('Fraction', 'Decimal') and args and all(is_conc(a) and isinstance(a, (int, float, str)) or type(a).__name__ in ('Fraction', 'Decimal') for a in args) and not kwargs \
                and self.repo.resolve_name(self.modname, name) is None:
            # exact rational / decimal numbers of the standard library, folded on constants
            import fractions
            import decimal
            try:
                return fractions.Fraction(*args) if name == 'Fraction' else decimal.Decimal(*args)
            except Exception as e:
                raise AnalysisError('%s on constants fails: %r' % (name, e))
        if name == 'iter' and len(args) == 1 and not kwargs and isinstance(args[0], (list, tuple)):
            return list(args[0])                 # a fresh iterator over a concrete sequence: only its first element is ever taken (next)
        if name == 'next' and len(args) in (1, 2) and not kwargs and isinstance(args[0], (list, tuple)):
            if args[0]:
                return args[0][0]
            if len(args) == 2:
                return args[1]
            raise AnalysisError('next() on an empty constant sequence without default')
        if name == 'repr' and len(args) == 1 and not kwargs and isinstance(args[0], (int, float, str, bytes, bool)) :
            return repr(args[0])
        if name in ('min', 'max', 'abs', 'sum', 'sorted', 'ord', 'chr', 'pow', 'divmod', 'round', 'float', 'any', 'all', 'reversed', 'hex', 'bin', 'enumerate', 'zip') and all(is_conc(a) for a in args) and not kwargs and args:
            import builtins
            try:
                r = getattr(builtins, name)(*args)
                if name in ('reversed', 'enumerate', 'zip'):
                    r = list(r)
                return r
            except Exception as e:
                raise AnalysisError('builtin %s on constants fails: %r' % (name, e))
        if name in ('min', 'max', 'abs', 'sum', 'sorted', 'ord', 'chr', 'pow', 'round', 'float', 'any', 'all', 'reversed', 'hex', 'enumerate', 'zip', 'type', 'id', 'print', 'getattr', 'hasattr', 'iter', 'next', 'set', 'frozenset', 'isinstance', 'callable', 'repr', 'divmod', 'bytearray', 'range', 'map', 'filter', 'super', 'open', 'vars', 'setattr'):
            ty = 'int' if name in ('ord', 'abs', 'min', 'max', 'sum', 'pow') else None
            return S(('call', name, tuple(term(a) for a in args), _kw(kwargs)), ty)
        return NotImplemented


class _AlwaysRaises(AnalysisError):
    pass


class _ConcreteRaise(AnalysisError):
    """an operation on constants that deterministically raises the Python exception ``exc`` (bytes.fromhex('zz') -> ValueError)"""
    def __init__(self, exc, msg):
        AnalysisError.__init__(self, msg)
        self.exc = exc


def pc_term(conj):
    ts = [t if pol else ('not', t) for (t, pol) in conj]
    if len(ts) == 1:
        return ts[0]
    return ('bool', 'and', tuple(ts))


def _kw(kwargs):
    return tuple(sorted((k, term(v)) for k, v in kwargs.items()))


def _is_seq(v):
    if isinstance(v, (bytes, str)):
        return True
    if isinstance(v, S):
        if v.ty in ('bytes', 'str'):
            return True
        if isinstance(v.t, tuple) and v.t and v.t[0] in ('cat', 'rev', 'int2bytes', 'repeat', 'hash', 'varint', 'varstr', 'fromhex', 'hex'):
            return True
    return False


def _is_int(v):
    return (isinstance(v, int) and not isinstance(v, bool)) or (isinstance(v, S) and v.ty == 'int')


def _opname(op):
    return {ast.Add: '+', ast.Sub: '-', ast.Mult: '*', ast.Div: '/', ast.FloorDiv: '//', ast.Mod: '%', ast.Pow: '**',
            ast.LShift: '<<', ast.RShift: '>>', ast.BitOr: '|', ast.BitAnd: '&', ast.BitXor: '^', ast.MatMult: '@'}[type(op)]


def _cmpname(op):
    return {ast.Eq: '==', ast.NotEq: '!=', ast.Lt: '<', ast.LtE: '<=', ast.Gt: '>', ast.GtE: '>=', ast.In: 'in',
            ast.NotIn: 'not in', ast.Is: 'is', ast.IsNot: 'is not'}[type(op)]


def _as_load(target):
    import copy as _c
    t = _c.copy(target)
    if hasattr(t, 'ctx'):
        t.ctx = ast.Load()
    return t


# ---------------------------------------------------------------------------------------------
# term utilities used by checkers
# ---------------------------------------------------------------------------------------------

def subterms(t):
    if isinstance(t, tuple) and not t:
        return
    yield t
    if isinstance(t, tuple):
        for x in t:
            if isinstance(x, tuple):
                for y in subterms(x):
                    yield y


def has_subterm(t, pred):
    return any(pred(x) for x in subterms(t))


def rewrite(t, fn):
    """bottom-up rewrite of a term"""
    if isinstance(t, tuple):
        t = tuple(rewrite(x, fn) for x in t)
    for _ in range(8):
        r = fn(t)
        if r is None or r == t:
            break
        t = r
    return t


def flatten_cat(t):
    if isinstance(t, tuple) and t and t[0] == 'cat':
        out = []
        for p in t[1]:
            out += flatten_cat(p)
        return out
    if isinstance(t, (bytes, str)) and len(t) == 0:
        return []
    return [t]
