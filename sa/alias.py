"""
ALIAS: in-place mutation of a module-level (or class-level) mutable constant through a local alias.

    SKIP = {'wallet', 'private', 'wif'}          # module level
    def f(include_private):
        skip = SKIP                               # alias, not a copy
        if include_private:
            skip -= {'private', 'wif'}            # mutates SKIP for the rest of the process

`x = CONST` followed by an in-place operation on x (augmented assignment on a set / list / dict, a mutating method, item assignment or
deletion) changes the constant for every later call. Reported per function; `x = set(CONST)`, `list(CONST)`, `CONST.copy()`,
`dict(CONST)` and slices are copies and are not reported.
"""
import ast

MUTATORS = {'add', 'remove', 'discard', 'pop', 'clear', 'update', 'append', 'extend', 'insert', 'sort', 'reverse', 'setdefault', 'popitem',
            'difference_update', 'intersection_update', 'symmetric_difference_update'}


def mutable_constants(tree):
    """module-level names bound to a set / list / dict display (or set()/list()/dict() call)"""
    out = {}
    for s in tree.body:
        if isinstance(s, ast.Assign) and len(s.targets) == 1 and isinstance(s.targets[0], ast.Name):
            v = s.value
            if isinstance(v, (ast.Set, ast.List, ast.Dict, ast.SetComp, ast.ListComp, ast.DictComp)) or \
                    (isinstance(v, ast.Call) and isinstance(v.func, ast.Name) and v.func.id in ('set', 'list', 'dict', 'OrderedDict', 'defaultdict')):
                out[s.targets[0].id] = s
    return out


def scan_function(fn, consts, imported=()):
    """[(alias name, constant name, mutation node, description)]"""
    names = set(consts) | set(imported)
    aliases = {}
    rebound = set()
    for s in ast.walk(fn):
        if isinstance(s, ast.Assign) and len(s.targets) == 1 and isinstance(s.targets[0], ast.Name):
            if isinstance(s.value, ast.Name) and s.value.id in names:
                aliases.setdefault(s.targets[0].id, s.value.id)
    # the constant itself is an "alias" of itself when the function declares it global or only reads it
    local_store = set(t.id for s in ast.walk(fn) if isinstance(s, (ast.Assign, ast.AugAssign, ast.For)) for t in ast.walk(s.targets[0] if isinstance(s, ast.Assign) else s.target)
                      if isinstance(t, ast.Name) and isinstance(t.ctx, ast.Store))
    out = []
    for s in ast.walk(fn):
        if isinstance(s, ast.AugAssign) and isinstance(s.target, ast.Name) and s.target.id in aliases and isinstance(s.op, (ast.Sub, ast.Add, ast.BitOr, ast.BitAnd, ast.BitXor)):
            out.append((s.target.id, aliases[s.target.id], s, 'augmented assignment `%s`' % ast.unparse(s)[:60]))
        if isinstance(s, ast.Call) and isinstance(s.func, ast.Attribute) and s.func.attr in MUTATORS and isinstance(s.func.value, ast.Name):
            nm = s.func.value.id
            if nm in aliases:
                out.append((nm, aliases[nm], s, 'call `%s`' % ast.unparse(s)[:60]))
            elif nm in names and nm not in local_store:
                out.append((nm, nm, s, 'call `%s`' % ast.unparse(s)[:60]))
        if isinstance(s, (ast.Assign, ast.Delete)):
            for t in (s.targets if hasattr(s, 'targets') else []):
                if isinstance(t, ast.Subscript) and isinstance(t.value, ast.Name) and t.value.id in aliases:
                    out.append((t.value.id, aliases[t.value.id], s, 'item assignment `%s`' % ast.unparse(s)[:60]))
    return out
