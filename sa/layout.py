"""
LAYOUT: hooks that summarise the repository's byte-level primitives as layout terms, a stream model for
parser code (read-sequence extraction) and normalisation of layout terms.

Layout terms (on top of sym's generic terms):
  ('varint', x)            CompactSize of integer x           (callee int_to_varbyteint)
  ('varstr', x)            CompactSize(len x) . x             (callee varstr)
  ('hash', kind, x)        kind in dsha256 / sha256 / hash160 / ripemd160 / sha1
  ('int2bytes', x, w, o)   fixed-width integer
  ('rev', x)               byte reversal
  ('read', pos, n)         n bytes read from the stream at symbolic position pos
"""
from .core import AnalysisError
from .sym import S, Model, term, cat, rewrite, is_conc, show


def _h_varint(interp, args, kwargs, st, node):
    if len(args) != 1:
        return NotImplemented
    return S(('varint', term(args[0])), 'bytes')


def _h_varstr(interp, args, kwargs, st, node):
    if len(args) != 1:
        return NotImplemented
    return S(('varstr', term(args[0])), 'bytes')


def _h_hash(kind):
    def h(interp, args, kwargs, st, node):
        if not args:
            return NotImplemented
        as_hex = kwargs.get('as_hex', args[1] if len(args) > 1 else False)
        t = ('hash', kind, term(args[0]))
        if as_hex is True:
            return S(('hex', t), 'str')
        if as_hex is False:
            return S(t, 'bytes')
        return S(('cond', term(as_hex), ('hex', t), t))
    return h


def _h_to_bytes(interp, args, kwargs, st, node):
    # to_bytes(x) converts hex strings to bytes and leaves bytes alone: representation change only
    if not args:
        return NotImplemented
    a = args[0]
    if isinstance(a, bytes):
        return a
    if isinstance(a, str):
        if a == '':
            return b''
        try:
            return bytes.fromhex(a)
        except ValueError:
            return a.encode('utf8')
    if isinstance(a, S) and a.ty == 'bytes':
        return a
    return S(('to_bytes', term(a)), 'bytes')


def _h_read_varint(interp, args, kwargs, st, node):
    # read_varbyteint(stream): CompactSize read (C18.readers checks the reader itself)
    if len(args) == 1 and isinstance(args[0], Stream):
        stream = args[0]
        p = stream.pos(st)
        st.heap[stream.key] = S(('after-varint', term(p)), 'int')
        stream.log.append((stream._ctx(interp), 'varint', None))
        return S(('read-varint', term(p)), 'int')
    return NotImplemented


def _h_read_varint_return(interp, args, kwargs, st, node):
    if len(args) == 1 and isinstance(args[0], Stream):
        stream = args[0]
        p = stream.pos(st)
        st.heap[stream.key] = S(('after-varint', term(p)), 'int')
        stream.log.append((stream._ctx(interp), 'varint', None))
        r = S(('read-varint', term(p)), 'int')
        raw = S(('raw-varint', term(p)), 'bytes')
        return (r, raw)
    return NotImplemented


LAYOUT_HOOKS = {
    'read_varbyteint': _h_read_varint,
    'read_varbyteint_return': _h_read_varint_return,
    'int_to_varbyteint': _h_varint,
    'varstr': _h_varstr,
    'double_sha256': _h_hash('dsha256'),
    'hash160': _h_hash('hash160'),
    'to_bytes': _h_to_bytes,
}


class Stream(Model):
    """Model of a BytesIO: position lives in the state heap so that branches merge."""

    def __init__(self, name='stream'):
        self.name = name
        self.key = ('stream-pos', name)
        self.log = []        # program-order log of accesses: (loop context, kind, size term)  (shared by all copies)

    def _ctx(self, interp):
        return tuple(show(f.get('symbolic'))[:200] if f.get('symbolic') is not None else 'concrete' for f in interp.loop_stack)

    def term(self):
        return ('stream', self.name)

    def same(self, other):
        return isinstance(other, Stream) and other.name == self.name

    def merge(self, test, other):
        return self if self.same(other) else NotImplemented

    def pos(self, st):
        return st.heap.get(self.key, S(('var', self.name + '.pos0'), 'int'))

    def truth(self, interp, st):
        return True

    def call_method(self, interp, name, args, kwargs, st, node):
        if name == 'tell' and not args:
            return self.pos(st)
        if name == 'read':
            p = self.pos(st)
            if not args:
                st.heap[self.key] = S(('end', self.name), 'int')
                return S(('read-rest', term(p)), 'bytes')
            n = args[0]
            st.heap[self.key] = interp.binop(_ADD, p, n)
            self.log.append((self._ctx(interp), 'read', term(n)))
            return S(('read', term(p), term(n)), 'bytes')
        if name == 'seek' and len(args) >= 1:
            self.log.append((self._ctx(interp), 'seek', tuple(term(a) for a in args)))
            if len(args) == 2 and args[1] == 1:
                st.heap[self.key] = interp.binop(_ADD, self.pos(st), args[0])
            else:
                st.heap[self.key] = args[0]
            return None
        if name in ('getvalue', 'getbuffer'):
            return S(('stream-all', self.name), 'bytes')
        return NotImplemented


import ast as _ast
_ADD = _ast.Add()


def fold_arith(t):
    """fold ('binop', op, int, int) nodes and re-associate (p + a) + b"""
    def f(x):
        if isinstance(x, tuple) and x and x[0] == 'binop':
            op, a, b = x[1], x[2], x[3]
            if isinstance(a, int) and isinstance(b, int) and not isinstance(a, bool) and not isinstance(b, bool):
                try:
                    return {'+': a + b, '-': a - b, '*': a * b, '//': a // b if b else None, '%': a % b if b else None,
                            '&': a & b, '|': a | b, '<<': a << b if b < 4096 else None, '>>': a >> b}.get(op)
                except Exception:
                    return None
            if op == '+' and isinstance(b, int) and isinstance(a, tuple) and a and a[0] == 'binop' and a[1] == '+' and isinstance(a[3], int):
                return ('binop', '+', a[2], a[3] + b)
            if op == '+' and isinstance(a, int) and not isinstance(b, int):
                return ('binop', '+', b, a)
        return None
    return rewrite(t, f)


def normalize(t):
    """normal form of layout terms: bytes2int(rev(x),'big') = bytes2int(x,'little'), rev(rev(x)) = x,
    rev(int2bytes(x,w,o)) = int2bytes(x,w,other o), arithmetic folded."""
    def f(x):
        if not isinstance(x, tuple) or not x:
            return None
        # (name, value) keyword pairs share the tuple representation: guard every rule by the arity of its operator
        arity = {'rev': 2, 'bytes2int': 3, 'slice': 5, 'index': 3, 'int2bytes': 4}
        if x[0] in arity and len(x) != arity[x[0]]:
            return None
        if x[0] == 'rev':
            y = x[1]
            if isinstance(y, tuple) and y and y[0] == 'rev':
                return y[1]
            if isinstance(y, tuple) and y and y[0] == 'int2bytes':
                return ('int2bytes', y[1], y[2], 'little' if y[3] == 'big' else 'big')
            if isinstance(y, bytes):
                return y[::-1]
        if x[0] == 'bytes2int':
            y = x[1]
            if isinstance(y, tuple) and y and y[0] == 'rev' and x[2] in ('big', 'little'):
                return ('bytes2int', y[1], 'little' if x[2] == 'big' else 'big')
        if x[0] == 'slice' and x[4] == -1 and x[2] is None and x[3] is None:
            return ('rev', x[1])
        if x[0] == 'index' and isinstance(x[2], int) and not isinstance(x[2], bool) and x[2] >= 0 and isinstance(x[1], tuple) and x[1] and \
                x[1][0] == 'slice' and x[1][4] is None and (x[1][2] is None or (isinstance(x[1][2], int) and x[1][2] >= 0)) and \
                (x[1][3] is None or (isinstance(x[1][3], int) and x[1][3] < 0)):
            # x[a:-k][i] = x[a+i] (for an index inside the slice)
            return ('index', x[1][1], (x[1][2] or 0) + x[2])
        if x[0] == 'slice' and x[2] == 0 and x[2] is not False:
            return ('slice', x[1], None, x[3], x[4])
        if x[0] == 'slice' and x[4] is None and isinstance(x[1], tuple) and x[1] and x[1][0] == 'slice' and x[1][4] is None:
            # slice of a slice with constant non-negative starts: x[a:b][c:d] = x[a+c : a+d] (b only matters if d is open/negative)
            a, b = x[1][2] or 0, x[1][3]
            c, d = x[2] or 0, x[3]
            if isinstance(a, int) and isinstance(c, int) and a >= 0 and c >= 0 and (b is None or isinstance(b, int)) and (d is None or isinstance(d, int)):
                lo = a + c
                if d is None:
                    hi = b
                elif d >= 0:
                    hi = a + d
                    if isinstance(b, int) and b >= 0:
                        hi = min(hi, b)
                else:
                    hi = d if b is None else (b + d if b < 0 else None)
                    if hi is None:
                        return None
                return ('slice', x[1][1], lo if lo else None, hi, None)
        return None
    return rewrite(fold_arith(t), f)


def plus_to_cat(t):
    """treat untyped '+' of non-integers as concatenation (bytes/str building code)"""
    def f(x):
        if isinstance(x, tuple) and x and x[0] == 'binop' and x[1] == '+' and not isinstance(x[2], (int, float)) and not isinstance(x[3], (int, float)):
            parts = []
            for y in (x[2], x[3]):
                if isinstance(y, tuple) and y and y[0] == 'cat':
                    parts += list(y[1])
                else:
                    parts.append(y)
            return ('cat', tuple(parts))
        return None
    return rewrite(t, f)


MODELLED = {'attr', 'index', 'var', 'elem', 'cat', 'int2bytes', 'rev', 'hash', 'varint', 'varstr', 'repeat', 'cond', 'len', 'cmp', 'bool', 'not',
            'slice', 'int', 'read', 'bytes2int', 'binop', 'in-loop', 'tuple', 'list'}


def opaque_subterms(t):
    """subterms outside the layout language (opaque calls etc.): a mismatch that involves them is UNDECIDED, not a violation"""
    from .sym import subterms
    out = []
    for s in subterms(t):
        if isinstance(s, tuple) and s and isinstance(s[0], str) and s[0] not in MODELLED:
            out.append(s)
    return out


def strip_int(t):
    """int(x) wrappers around attribute reads do not change the layout"""
    def f(x):
        if isinstance(x, tuple) and len(x) == 2 and x[0] == 'int':
            return x[1]
        return None
    return rewrite(t, f)


def rename_loopvars(t):
    """alpha-normalise loop variable names of repeat / elem terms"""
    def f(x):
        if isinstance(x, tuple) and x and x[0] == 'elem' and len(x) == 3:
            return ('elem', x[1], '_')
        if isinstance(x, tuple) and x and x[0] == 'repeat' and len(x) == 4:
            return ('repeat', x[1], '_', x[3])
        return None
    return rewrite(t, f)


def canon_layout(t):
    return rename_loopvars(strip_int(normalize(plus_to_cat(t))))


def diff_layout(got, exp):
    """align two layouts part by part; returns [(position, got_part|None, exp_part|None)] for the first mismatch region"""
    from .sym import flatten_cat
    g, e = flatten_cat(got), flatten_cat(exp)
    out = []
    i = 0
    while i < len(g) and i < len(e) and g[i] == e[i]:
        i += 1
    j = 0
    while j < len(g) - i and j < len(e) - i and g[len(g) - 1 - j] == e[len(e) - 1 - j]:
        j += 1
    gm, em = g[i:len(g) - j], e[i:len(e) - j]
    if not gm and not em:
        return []
    return [(i, gm, em)]
