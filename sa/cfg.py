"""
Statement-level control-flow graphs for the statement kinds the repository uses
(if/elif/else, while/for with else/break/continue, try/except/else/finally, with, return, raise,
assert, match is not used). Boolean tests are split into atoms with short-circuit edges so that
"guarded by" queries see each comparison separately.

Exits: RETURN (explicit return or falling off the end) and RAISE (uncaught raise / failed assert).
"""
import ast

from .core import AnalysisError, unparse


class Node:
    __slots__ = ('id', 'kind', 'ast', 'succ', 'pred', 'label')

    def __init__(self, nid, kind, node=None, label=''):
        self.id, self.kind, self.ast, self.label = nid, kind, node, label
        self.succ = []   # (node id, edge label) ; labels: None, 'T', 'F', 'exc', 'iter', 'done'
        self.pred = []

    def __repr__(self):
        src = ''
        if self.ast is not None:
            src = unparse(self.ast).split('\n')[0][:70]
        return '<%d %s L%s %s>' % (self.id, self.kind, getattr(self.ast, 'lineno', '-'), src)


class CFG:
    def __init__(self, fn):
        self.fn = fn
        self.nodes = []
        self.entry = None
        self.exit_return = self._new('exit_return')
        self.exit_raise = self._new('exit_raise')

    def _new(self, kind, node=None, label=''):
        n = Node(len(self.nodes), kind, node, label)
        self.nodes.append(n)
        return n.id

    def _edge(self, a, b, label=None):
        if (b, label) not in self.nodes[a].succ:
            self.nodes[a].succ.append((b, label))
            self.nodes[b].pred.append((a, label))

    def __getitem__(self, i):
        return self.nodes[i]

    # ---- queries -------------------------------------------------------------------------
    def find(self, pred):
        return [n.id for n in self.nodes if pred(n)]

    def stmts(self, pred):
        """ids of stmt/test nodes whose ast satisfies pred(ast_node)"""
        return [n.id for n in self.nodes if n.ast is not None and pred(n.ast)]

    def reach(self, starts, blocked_nodes=(), blocked_edges=(), skip_exc=False):
        """Forward reachability; returns dict node -> predecessor (for path reconstruction)."""
        blocked_nodes = set(blocked_nodes)
        blocked_edges = set(blocked_edges)
        seen = {}
        todo = []
        for s in starts:
            if s not in blocked_nodes:
                seen[s] = None
                todo.append(s)
        while todo:
            cur = todo.pop()
            for (nxt, lab) in self.nodes[cur].succ:
                if skip_exc and lab == 'exc':
                    continue
                if nxt in blocked_nodes or (cur, nxt, lab) in blocked_edges or nxt in seen:
                    continue
                seen[nxt] = cur
                todo.append(nxt)
        return seen

    def path(self, seen, target):
        out = []
        cur = target
        while cur is not None:
            out.append(cur)
            cur = seen[cur]
        return list(reversed(out))

    def path_avoiding(self, targets, via, start=None, blocked_edges=(), skip_exc=False):
        """A path from start (default entry) to any node in ``targets`` that avoids all nodes in ``via``
        (and the blocked edges); None if every such path passes through ``via``."""
        start = self.entry if start is None else start
        seen = self.reach([start], blocked_nodes=set(via) - {start}, blocked_edges=blocked_edges, skip_exc=skip_exc)
        for t in targets:
            if t in seen and t not in via:
                return self.path(seen, t)
        return None

    def describe_path(self, p):
        return ' -> '.join('L%s' % getattr(self.nodes[i].ast, 'lineno', self.nodes[i].kind) for i in p)

    def true_edge(self, nid):
        return [(nid, s, l) for (s, l) in self.nodes[nid].succ if l == 'T']

    def false_edge(self, nid):
        return [(nid, s, l) for (s, l) in self.nodes[nid].succ if l == 'F']

    def edges_of(self, nid, label):
        return [(nid, s, l) for (s, l) in self.nodes[nid].succ if l == label]


class _Ctx:
    def __init__(self, brk=None, cont=None, handlers=None, finals=None):
        self.brk, self.cont = brk, cont
        self.handlers = handlers or []   # innermost-first list of lists of handler entry ids


def build_cfg(fn, split_bool=True):
    g = CFG(fn)
    b = _Builder(g, split_bool)
    g.entry = b.block(fn.body, g.exit_return, _Ctx())
    return g


class _Builder:
    def __init__(self, g, split_bool):
        self.g = g
        self.split_bool = split_bool

    def raise_targets(self, ctx):
        # an explicit raise may be caught by the innermost try that has handlers; since we do not model
        # exception types it may also propagate further out
        tg = []
        for hs in ctx.handlers:
            tg += hs
        tg.append(self.g.exit_raise)
        return tg

    def block(self, stmts, nxt, ctx):
        cur = nxt
        for st in reversed(stmts):
            cur = self.stmt(st, cur, ctx)
        return cur

    def cond(self, expr, t, f, owner):
        """Build test nodes for expr branching to t / f; returns entry id."""
        g = self.g
        if self.split_bool and isinstance(expr, ast.BoolOp):
            vals = expr.values
            if isinstance(expr.op, ast.And):
                cur_t = t
                entry = None
                # evaluate right-to-left so each value's true edge leads to the next value
                nxt_entry = t
                for v in reversed(vals):
                    nxt_entry = self.cond(v, nxt_entry, f, owner)
                return nxt_entry
            else:
                nxt_entry = f
                for v in reversed(vals):
                    nxt_entry = self.cond(v, t, nxt_entry, owner)
                return nxt_entry
        if self.split_bool and isinstance(expr, ast.UnaryOp) and isinstance(expr.op, ast.Not):
            return self.cond(expr.operand, f, t, owner)
        n = g._new('test', expr)
        g.nodes[n].label = type(owner).__name__
        g._edge(n, t, 'T')
        g._edge(n, f, 'F')
        return n

    def exc_edges(self, nid, ctx):
        if ctx.handlers:
            for h in ctx.handlers[0]:
                self.g._edge(nid, h, 'exc')

    def stmt(self, st, nxt, ctx):
        g = self.g
        if isinstance(st, ast.If):
            t = self.block(st.body, nxt, ctx)
            f = self.block(st.orelse, nxt, ctx) if st.orelse else nxt
            e = self.cond(st.test, t, f, st)
            self._mark_exc_tests(e, ctx, st.test)
            return e
        if isinstance(st, ast.While):
            # head test node(s) need to exist before the body (back edge); create a join placeholder
            join = g._new('join', None)
            after = self.block(st.orelse, nxt, ctx) if st.orelse else nxt
            lctx = _Ctx(brk=nxt, cont=join, handlers=ctx.handlers)
            body = self.block(st.body, join, lctx)
            head = self.cond(st.test, body, after, st)
            g._edge(join, head)
            return join
        if isinstance(st, (ast.For, ast.AsyncFor)):
            head = g._new('for', st)
            after = self.block(st.orelse, nxt, ctx) if st.orelse else nxt
            lctx = _Ctx(brk=nxt, cont=head, handlers=ctx.handlers)
            body = self.block(st.body, head, lctx)
            g._edge(head, body, 'iter')
            g._edge(head, after, 'done')
            self.exc_edges(head, ctx)
            return head
        if isinstance(st, ast.Try):
            if st.finalbody:
                # finally: modelled by running the final body on the normal continuation only; the
                # repository's analysed modules do not use finally (checked by the caller when it matters)
                nxt = self.block(st.finalbody, nxt, ctx)
            hentries = []
            for h in st.handlers:
                hn = g._new('handler', h)
                hb = self.block(h.body, nxt, ctx)
                g._edge(hn, hb)
                hentries.append(hn)
            after_body = self.block(st.orelse, nxt, ctx) if st.orelse else nxt
            tctx = _Ctx(brk=ctx.brk, cont=ctx.cont, handlers=[hentries] + ctx.handlers)
            return self.block(st.body, after_body, tctx)
        if isinstance(st, (ast.With, ast.AsyncWith)):
            n = g._new('stmt', st)
            body = self.block(st.body, nxt, ctx)
            g._edge(n, body)
            self.exc_edges(n, ctx)
            return n
        if isinstance(st, ast.Return):
            n = g._new('return', st)
            g._edge(n, g.exit_return)
            self.exc_edges(n, ctx)
            return n
        if isinstance(st, ast.Raise):
            n = g._new('raise', st)
            for t in self.raise_targets(ctx):
                g._edge(n, t, 'exc' if t != g.exit_raise else None)
            return n
        if isinstance(st, ast.Assert):
            rn = g._new('raise', st)
            for t in self.raise_targets(ctx):
                g._edge(rn, t, 'exc' if t != g.exit_raise else None)
            e = self.cond(st.test, nxt, rn, st)
            return e
        if isinstance(st, ast.Break):
            n = g._new('stmt', st)
            if ctx.brk is None:
                raise AnalysisError('break outside loop')
            g._edge(n, ctx.brk)
            return n
        if isinstance(st, ast.Continue):
            n = g._new('stmt', st)
            if ctx.cont is None:
                raise AnalysisError('continue outside loop')
            g._edge(n, ctx.cont)
            return n
        if isinstance(st, (ast.FunctionDef, ast.AsyncFunctionDef, ast.ClassDef)):
            n = g._new('stmt', st)
            g._edge(n, nxt)
            return n
        if isinstance(st, ast.Match):
            raise AnalysisError('match statement not modelled')
        # simple statements
        n = g._new('stmt', st)
        g._edge(n, nxt)
        self.exc_edges(n, ctx)
        return n

    def _mark_exc_tests(self, entry, ctx, test):
        # tests inside a try body can raise too
        if not ctx.handlers:
            return
        for n in self.g.nodes:
            if n.kind == 'test' and n.ast is not None and _contains(test, n.ast):
                self.exc_edges(n.id, ctx)


def _contains(root, node):
    for n in ast.walk(root):
        if n is node:
            return True
    return False


# --------------------------------------------------------------------------------------------
# convenience predicates
# --------------------------------------------------------------------------------------------

def is_raise_node(n):
    return n.kind == 'raise'


def stmt_contains_call(node, name):
    for c in ast.walk(node):
        if isinstance(c, ast.Call):
            f = c.func
            if (isinstance(f, ast.Name) and f.id == name) or (isinstance(f, ast.Attribute) and f.attr == name):
                return True
    return False


def node_asts(n):
    """AST fragments 'owned' by a CFG node (for a For node only target/iter, for With only the items)."""
    a = n.ast
    if a is None:
        return []
    if n.kind == 'for':
        return [a.target, a.iter]
    if isinstance(a, (ast.With, ast.AsyncWith)):
        return [i.context_expr for i in a.items]
    if n.kind == 'handler':
        return [a.type] if a.type is not None else []
    if isinstance(a, ast.Assert) and n.kind == 'raise':
        return [a.msg] if a.msg is not None else []
    return [a]
