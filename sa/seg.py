"""
SEG: evaluation of byte-string terms over a *segment layout*: a byte string is a list of segments, each either concrete
bytes or a named symbolic field of known width.  Slices / indexes with constant bounds, len(), concatenation and
comparisons with constants are evaluated exactly; a comparison whose outcome depends on the content of a symbolic
field is reported as DEP (payload dependent) — the caller decides what that means for its rule.
"""
from .sym import show


class Dep:
    """outcome depends on the bytes of symbolic fields"""
    def __init__(self, fields):
        self.fields = tuple(sorted(set(fields)))

    def __repr__(self):
        return 'DEP(%s)' % ','.join(self.fields)


class SegUnknown(Exception):
    pass


def seg(*parts):
    """build a layout: bytes objects and (name, width) pairs"""
    out = []
    for p in parts:
        if isinstance(p, (bytes, bytearray)):
            if p:
                out.append(bytes(p))
        else:
            name, w = p
            if w:
                out.append(('f', name, 0, w))
    return out


def seg_len(v):
    return sum(len(p) if isinstance(p, bytes) else p[3] for p in v)


def seg_slice(v, lo, hi):
    n = seg_len(v)
    lo = 0 if lo is None else (max(n + lo, 0) if lo < 0 else min(lo, n))
    hi = n if hi is None else (max(n + hi, 0) if hi < 0 else min(hi, n))
    out = []
    pos = 0
    for p in v:
        w = len(p) if isinstance(p, bytes) else p[3]
        a, b = max(lo, pos), min(hi, pos + w)
        if a < b:
            if isinstance(p, bytes):
                out.append(p[a - pos:b - pos])
            else:
                out.append(('f', p[1], p[2] + a - pos, b - a))
        pos += w
    return _join(out)


def _join(v):
    out = []
    for p in v:
        if out and isinstance(p, bytes) and isinstance(out[-1], bytes):
            out[-1] = out[-1] + p
        elif out and not isinstance(p, bytes) and not isinstance(out[-1], bytes) and out[-1][1] == p[1] and out[-1][2] + out[-1][3] == p[2]:
            out[-1] = ('f', p[1], out[-1][2], out[-1][3] + p[3])
        else:
            out.append(p)
    return out


def seg_eq(a, b):
    """True / False / Dep"""
    if seg_len(a) != seg_len(b):
        return False
    if a == b:
        return True
    # align byte by byte
    deps = set()
    n = seg_len(a)
    for i in range(n):
        x, y = seg_slice(a, i, i + 1)[0], seg_slice(b, i, i + 1)[0]
        if isinstance(x, bytes) and isinstance(y, bytes):
            if x != y:
                return False
        elif x != y:
            deps |= {p[1] for p in (x, y) if not isinstance(p, bytes)}
    return Dep(deps) if deps else True


def is_seg(v):
    return isinstance(v, list) and all(isinstance(p, bytes) or (isinstance(p, tuple) and p and p[0] == 'f') for p in v)


def fmt(v):
    if not is_seg(v):
        return repr(v)
    return ' . '.join(p.hex() + "'h" if isinstance(p, bytes) else '%s[%d:%d]' % (p[1], p[2], p[2] + p[3]) for p in v) or "''"


def seg_eval(t, env):
    """evaluate a sym term; env maps terms to segment layouts / concrete values"""
    try:
        if t in env:
            return env[t]
    except TypeError:
        pass
    if isinstance(t, bytes):
        return seg(t)
    if isinstance(t, (int, bool, str)) or t is None:
        return t
    if not isinstance(t, tuple) or not t:
        raise SegUnknown(show(t)[:120])
    op = t[0]
    if op == 'slice' and len(t) == 5:
        base = seg_eval(t[1], env)
        if isinstance(base, Dep):
            return base
        lo, hi, step = (seg_eval(x, env) if x is not None else None for x in t[2:5])
        if not is_seg(base) or step is not None or not all(x is None or isinstance(x, int) for x in (lo, hi)):
            raise SegUnknown(show(t)[:120])
        return seg_slice(base, lo, hi)
    if op == 'index' and len(t) == 3:
        base = seg_eval(t[1], env)
        i = seg_eval(t[2], env)
        if is_seg(base) and isinstance(i, int):
            n = seg_len(base)
            i = i + n if i < 0 else i
            r = seg_slice(base, i, i + 1)
            if r and isinstance(r[0], bytes):
                return r[0][0]
            raise SegUnknown('index into symbolic field %s' % fmt(r))
        raise SegUnknown(show(t)[:120])
    if op == 'len':
        base = seg_eval(t[1], env)
        if is_seg(base):
            return seg_len(base)
        raise SegUnknown(show(t)[:120])
    if op == 'cat':
        out = []
        for p in t[1]:
            v = seg_eval(p, env)
            if not is_seg(v):
                raise SegUnknown(show(p)[:120])
            out += v
        return _join(out)
    if op == 'cmp':
        a, b = seg_eval(t[2], env), seg_eval(t[3], env)
        if isinstance(a, Dep) or isinstance(b, Dep):
            return a if isinstance(a, Dep) else b
        # text layouts (hex strings): string constants are their ASCII bytes
        if is_seg(a) and isinstance(b, str):
            b = seg(b.encode())
        if is_seg(b) and isinstance(a, str):
            a = seg(a.encode())
        if is_seg(a) and isinstance(b, list) and t[1] in ('in', 'not in') and all(isinstance(x, (str, bytes)) or is_seg(x) for x in b):
            rs = [seg_eq(a, x if is_seg(x) else seg(x.encode() if isinstance(x, str) else x)) for x in b]
            if any(r is True for r in rs):
                return t[1] == 'in'
            deps = [r for r in rs if isinstance(r, Dep)]
            if deps:
                return Dep([f for d in deps for f in d.fields])
            return t[1] != 'in'
        if is_seg(a) and is_seg(b) and t[1] in ('==', '!='):
            r = seg_eq(a, b)
            if isinstance(r, Dep):
                return r
            return r if t[1] == '==' else not r
        if not is_seg(a) and not is_seg(b) and not isinstance(a, Dep) and not isinstance(b, Dep):
            import operator
            ops = {'==': operator.eq, '!=': operator.ne, '<': operator.lt, '<=': operator.le, '>': operator.gt, '>=': operator.ge,
                   'in': lambda x, y: x in y, 'not in': lambda x, y: x not in y}
            if t[1] in ops:
                return bool(ops[t[1]](a, b))
        raise SegUnknown(show(t)[:120])
    if op == 'tuple' or op == 'list':
        return [seg_eval(x, env) for x in t[1:]]
    if op == 'not':
        v = seg_truth(seg_eval(t[1], env))
        return v if isinstance(v, Dep) else (not v)
    if op == 'bool':
        deps = []
        for x in t[2]:
            v = seg_truth(seg_eval(x, env))
            if isinstance(v, Dep):
                deps.append(v)
                continue
            if t[1] == 'and' and not v:
                return False
            if t[1] == 'or' and v:
                return True
        if deps:
            return Dep([f for d in deps for f in d.fields])
        return t[1] == 'and'
    if op == 'cond':
        c = seg_truth(seg_eval(t[1], env))
        if isinstance(c, Dep):
            return c
        return seg_eval(t[2] if c else t[3], env)
    if op == 'mcall' and t[2] in ('endswith', 'startswith') and len(t[3]) == 1:
        # a test of the first / last bytes of a layout: decided when those bytes are constants, dependent on the field otherwise
        base = seg_eval(t[1], env)
        pat = seg_eval(t[3][0], env)
        if isinstance(base, Dep):
            return base
        if is_seg(base) and is_seg(pat) and all(isinstance(x, bytes) for x in pat):
            pb = b''.join(pat)
            n, k = seg_len(base), len(pb)
            if k > n:
                return False
            part = seg_slice(base, n - k, n) if t[2] == 'endswith' else seg_slice(base, 0, k)
            r = seg_eq(part, seg(pb))
            return r
        raise SegUnknown(show(t)[:120])
    if op == 'mcall' and t[2] in ('lstrip', 'rstrip', 'strip') and len(t[3]) == 1:
        # stripping bytes off a layout: how many go depends on the CONTENT of the first / last symbolic field that is reached
        base = seg_eval(t[1], env)
        chars = seg_eval(t[3][0], env)
        if isinstance(base, Dep):
            return base
        if is_seg(base) and is_seg(chars) and len(chars) == 1 and isinstance(chars[0], bytes):
            cs = chars[0]
            parts = list(base)
            sides = (['l'] if t[2] in ('lstrip', 'strip') else []) + (['r'] if t[2] in ('rstrip', 'strip') else [])
            for side in sides:
                while parts:
                    p0 = parts[0] if side == 'l' else parts[-1]
                    if not isinstance(p0, bytes):
                        return Dep([p0[1] if isinstance(p0, tuple) and len(p0) > 1 else str(p0)])
                    stripped = p0.lstrip(cs) if side == 'l' else p0.rstrip(cs)
                    if stripped:
                        if side == 'l':
                            parts[0] = stripped
                        else:
                            parts[-1] = stripped
                        break
                    parts.pop(0 if side == 'l' else -1)
            return _join(parts)
        raise SegUnknown(show(t)[:120])
    if op == 'mcall' and t[2] in ('isdigit', 'isalpha', 'isalnum', 'islower', 'isupper', 'isascii', 'isspace') and not t[3]:
        # a character-class test of the whole layout: False as soon as one constant part fails it, otherwise decided by the symbolic fields
        base = seg_eval(t[1], env)
        if isinstance(base, Dep):
            return base
        if is_seg(base):
            if not base:
                return False
            consts = [p for p in base if isinstance(p, bytes)]
            fields = [p[1] for p in base if not isinstance(p, bytes)]
            if t[2] in ('islower', 'isupper'):
                if fields:
                    return Dep(fields)
                return getattr(b''.join(consts), t[2])()
            if any(not getattr(c.decode('latin-1'), t[2])() for c in consts):
                return False
            return Dep(fields) if fields else True
        raise SegUnknown(show(t)[:120])
    if op == 'call' and t[1] == 'ord' and len(t[2]) == 1:
        v = seg_eval(t[2][0], env)
        if is_seg(v) and seg_len(v) == 1:
            if isinstance(v[0], bytes):
                return v[0][0]
            return ('ord', v)
    raise SegUnknown(show(t)[:120])


def seg_truth(v):
    if isinstance(v, Dep):
        return v
    if is_seg(v):
        return seg_len(v) > 0
    if isinstance(v, tuple) and v and v[0] == 'ord':
        return Dep([p[1] for p in v[1] if not isinstance(p, bytes)])
    return bool(v)
