"""
ALIGN: makes the analysis independent of how local variables are named.

The rules are written against the local names of the reference tree (sa/ref_locals.json: for every module-level function and
method, its local variables in order of first binding).  When a function of the tree under analysis binds names that the
reference does not know while reference names are missing, the two ordered lists are aligned (difflib on the sequences: names
present in both are anchors, replaced runs of equal length are matched position by position) and the function's AST is rewritten
in memory to the reference names.  Pure renames therefore analyse exactly like the reference; a function whose locals cannot be
aligned is left as it is (the rules then answer for themselves, normally with exit 2).  Parameters, attributes, globals and
callee names are never touched.
"""
import ast
import difflib
import json
import os

REF_PATH = os.path.join(os.path.dirname(os.path.abspath(__file__)), 'ref_locals.json')


def ordered_locals(f):
    """locals of an outermost function (nested scopes included, as one naming domain) in order of first binding"""
    params, banned, occ = set(), set(), []
    for n in ast.walk(f):
        if isinstance(n, (ast.FunctionDef, ast.AsyncFunctionDef, ast.Lambda)):
            a = n.args
            params |= set(x.arg for x in a.posonlyargs + a.args + a.kwonlyargs)
            if a.vararg:
                params.add(a.vararg.arg)
            if a.kwarg:
                params.add(a.kwarg.arg)
            if not isinstance(n, ast.Lambda) and n is not f:
                banned.add(n.name)
        elif isinstance(n, ast.ClassDef):
            banned.add(n.name)
        elif isinstance(n, (ast.Global, ast.Nonlocal)):
            banned |= set(n.names)
        elif isinstance(n, (ast.Import, ast.ImportFrom)):
            banned |= set((al.asname or al.name).split('.')[0] for al in n.names)
        elif isinstance(n, ast.Name) and isinstance(n.ctx, (ast.Store, ast.Del)):
            occ.append((n.lineno, n.col_offset, n.id))
        elif isinstance(n, ast.ExceptHandler) and n.name:
            occ.append((n.lineno, n.col_offset, n.name))
    out = []
    for _, _, name in sorted(occ):
        if name not in params and name not in banned and name not in out:
            out.append(name)
    return out


def mapping(cur, ref):
    """{current name: reference name} for names that were renamed; {} when nothing can / needs to be aligned"""
    if cur == ref or set(cur) == set(ref):
        return {}
    m = {}
    sm = difflib.SequenceMatcher(a=ref, b=cur, autojunk=False)
    for tag, i1, i2, j1, j2 in sm.get_opcodes():
        if tag == 'replace' and (i2 - i1) == (j2 - j1):
            for r, c in zip(ref[i1:i2], cur[j1:j2]):
                if c not in ref and r not in cur:
                    m[c] = r
    return m


def rename(f, m):
    for n in ast.walk(f):
        if isinstance(n, ast.Name) and n.id in m:
            n.id = m[n.id]
        elif isinstance(n, ast.ExceptHandler) and n.name in m:
            n.name = m[n.name]


_REF = None


def load_ref():
    global _REF
    if _REF is None:
        try:
            _REF = json.load(open(REF_PATH))
        except Exception:
            _REF = {}
    return _REF


def align_module(minfo):
    """rewrite renamed locals of the module's functions to the reference names; returns [(qualname, mapping)]"""
    ref = load_ref()
    done = []
    for q, f in minfo.functions.items():
        key = '%s:%s' % (minfo.name, q)
        if key not in ref:
            continue
        m = mapping(ordered_locals(f), ref[key])
        if m:
            rename(f, m)
            done.append((key, m))
    return done
