#!/usr/bin/env python3
"""Regenerate /verif/MANIFEST.json from the property modules present under sa/props (development helper)."""
import importlib
import json
import os
import sys

ROOT = os.path.dirname(os.path.dirname(os.path.abspath(__file__)))
sys.path.insert(0, ROOT)

NOTES = {}          # property -> (level text, level note, technique) filled from the module docstrings below
NOT_APPLICABLE = {} # property -> reason (static analysis cannot decide any clause)

TECHNIQUE = {
    'C01': 'abstract evaluation of the sighash writers to byte-layout terms (SYM/LAYOUT) compared part by part with BIP143 / legacy SignatureHash; CFG dispatch rules',
    'C02': 'CFG must-pass-through and guard rules on sign/verify paths, abstract evaluation of the verified digest and argument order, sibling agreement with C01/C13 obligations',
    'C03': 'abstract evaluation of CKDpriv/CKDpub to layout terms, interval partition of the child index (INTV), guard/raise rules on hardened derivation from public keys',
    'C04': 'table rules over networks.json and the address builders evaluated per (script type, witness version, encoding); semantic cache-validity rule for Key.address',
    'C05': 'template table compared with the standard scripts through the replayed opcode table; scenario evaluation of the network guard; decoder table evaluation; provenance rules for the payload and witness version',
    'C06': 'stream-access log of the parser vs. layout of the serialiser (SYM/LAYOUT), per-field write(parse(bytes)) term rewriting, sibling agreement of the block/transaction readers',
    'C07': 'SQLAlchemy query-shape rules (QUERY), CFG guard rules on input selection and fee arithmetic evaluated over interval partitions',
    'C08': 'query-shape and column-map rules on the wallet persistence layer, CFG ordering rules (store before commit), sibling agreement of store/load column maps',
    'C09': 'table rule on WALLET_KEY_STRUCTURES, abstract evaluation of path_expand on every template, query-shape rule for the next index, scenario evaluation of account defaults, sibling agreement of WalletKey.from_key call sites',
    'C10': 'call-site rules for key sorting / threshold on the address and the spend side, provenance (DFA) of the verified Signature objects, assignment-after-create rules on the three import paths, CFG reachability of the broadcast call',
    'C11': 'regex/alphabet and polymod-constant table rules for bech32/bech32m, abstract evaluation of the checksum constant selection per witness version, length/case guard rules',
    'C12': 'segment-layout evaluation (SEG) of the WIF / extended-key readers on the writers\' layouts with symbolic fixed-width fields, exhaustive prefix-table round trip over networks x witness types x multisig x privacy, scenario evaluation of format detection, cache and network hint',
    'C13': 'interval/decision-table evaluation of the signature range checks and low-S normalisation, DER layout terms, argument-order rules shared with C02',
    'C14': 'abstract evaluation of entropy<->mnemonic bit layout, word-list table rules, normalisation-form provenance rule',
    'C15': 'taint/provenance rule: every default secret derives from os.urandom / SystemRandom on all paths (DFA), positive fixture',
    'C16': 'containment taint fixpoint for private material over repr/str/log/dict sinks and the public() API',
    'C17': 'structural rules on the rounding idiom, case-exactness taint over the denominator table, table evaluation of print precision and prefix shadowing, CFG guard rules for integer discipline, scenario evaluation of unit parsing',
    'C18': 'interval partition of CompactSize / varint writers and readers, prefix-totality and length-provenance rules, base58 alphabet case rule',
    'C19': 'symbolic stack-effect inference (STACK) per opcode handler compared with a reference table, registry exhaustiveness, truthiness/timelock decision tables',
    'C20': 'query-shape, error-discipline (no swallowed provider failure) and cache-consistency rules over the service layer, CFG raise/skip rules',
}


def main():
    props = [json.loads(l) for l in open(os.path.join(ROOT, 'properties.jsonl'))]
    checks, na = [], []
    engines = [
        {'name': 'IDX/TABLE', 'path': 'sa/core.py', 'kind_free_text': 'package index, import/star-import resolution, MRO, constant folding, opcode table replay, obligation/known-finding/evidence protocol', 'serves_properties': []},
        {'name': 'CFG', 'path': 'sa/cfg.py', 'kind_free_text': 'statement-level control-flow graphs with short-circuit splitting; must-pass-through / guarded-by queries', 'serves_properties': []},
        {'name': 'DFA', 'path': 'sa/dfa.py', 'kind_free_text': 'reaching definitions, expression provenance, dominating guards', 'serves_properties': []},
        {'name': 'SYM (LAYOUT/ENUM/STACK/INTV)', 'path': 'sa/sym.py', 'kind_free_text': 'abstract evaluator producing layout terms, decision tables, stack effects and interval partitions (sa/layout.py, sa/intv.py, sa/stack.py)', 'serves_properties': []},
        {'name': 'SEG', 'path': 'sa/seg.py', 'kind_free_text': 'evaluation of byte-string terms over segment layouts (concrete bytes and symbolic fixed-width fields); reports decisions that depend on payload bytes', 'serves_properties': []},
        {'name': 'QUERY', 'path': 'sa/query.py', 'kind_free_text': 'shapes of SQLAlchemy query chains (models, joins, filters, order, terminal)', 'serves_properties': []},
        {'name': 'MUT', 'path': 'sa/mut.py', 'kind_free_text': 'in-memory AST canary mutants: every obligation must flip on its canaries in the thorough tier (self-test of the checker, no code is executed)', 'serves_properties': []},
    ]
    for p in props:
        pid = p['id']
        path = os.path.join(ROOT, 'sa', 'props', pid.lower() + '.py')
        if not os.path.exists(path):
            na.append({'property_id': pid, 'reason': NOT_APPLICABLE.get(pid, 'no static obligation implemented yet for this property (work in progress; see DESIGN.md section 5 for the planned clauses)')})
            continue
        mod = importlib.import_module('sa.props.' + pid.lower())
        prop = mod.PROP
        obl = ', '.join(o.oid.split('.', 1)[1] for o in prop.obligations)
        checks.append({
            'property_id': pid,
            'quick_cmd': 'python3 sa/check.py %s --tier quick' % pid,
            'thorough_cmd': 'python3 sa/check.py %s --tier thorough' % pid,
            'evidence_file': 'evidence/%s.json' % pid,
            'replay_cmd_template': 'python3 sa/check.py %s --replay {path}' % pid,
            'engine': 'SYM (LAYOUT/ENUM/STACK/INTV)',
            'level_claimed': {
                'category': 'other',
                'text': ('Static analysis (no execution of the code under test). Decides necessary structural conditions of the property '
                         'for every input/history at once, not the behaviour itself: ' + prop.explanation),
                'design_ref': 'DESIGN.md section 5, %s' % pid,
            },
            'level_note': 'Obligations: %s. Trusted base: Python ast, the analyser itself (sa/*.py), %s. Quantities decided only '
                          'structurally; values computed by third-party primitives (hashlib, fastecdsa, SQLAlchemy) are assumed correct.' % (obl, '; '.join(prop.assumptions)),
            'technique': 'static analysis (python ast, no execution of /repo): ' + TECHNIQUE.get(pid, 'custom AST/CFG/dataflow checkers and an abstract evaluator over the repository source'),
        })
        for e in engines:
            e['serves_properties'].append(pid)
    man = {
        'version': 1,
        'setup_cmd': 'true',
        'hooks': {
            'guard': 'BITCOINLIB_VERIF',
            'enable': 'not used: the checks never execute the repository, so no instrumentation hooks exist',
            'baseline_off_cmd': 'cd /repo && /venv/bin/python -m pytest -ra -q -p no:cacheprovider --timeout=900 --continue-on-collection-errors',
            'source_commits': [],
            'add_only': True,
        },
        'engines': engines,
        'checks': checks,
        'not_applicable': na,
        'notes': 'All checks are static (python3 stdlib ast only) and read /repo (or $VERIF_REPO) at run time. Exit 0 = all obligations discharged '
                 '(known findings listed in known_findings.json are printed as KNOWN-FINDING lines); exit 1 = VIOLATION; exit 2 = ANALYSIS-ERROR '
                 '(anchor vanished / construct outside the modelled subset; never reported as a violation). thorough = quick + in-memory AST canary mutants per obligation.',
    }
    json.dump(man, open(os.path.join(ROOT, 'MANIFEST.json'), 'w'), indent=1)
    print('checks', len(checks), 'not_applicable', len(na))


if __name__ == '__main__':
    main()
