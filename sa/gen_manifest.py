#!/usr/bin/env python3
"""Regenerate /verif/MANIFEST.json from the property modules present under sa/props (development helper)."""
import importlib
import json
import os
import sys

ROOT = os.path.dirname(os.path.dirname(os.path.abspath(__file__)))
sys.path.insert(0, ROOT)

NOTES = {}          # property -> (level text, level note, technique) filled from the module docstrings below
NOT_APPLICABLE = {} # property -> reason (static analysis cannot decide any clause)


def main():
    props = [json.loads(l) for l in open(os.path.join(ROOT, 'properties.jsonl'))]
    checks, na = [], []
    engines = [
        {'name': 'IDX/TABLE', 'path': 'sa/core.py', 'kind_free_text': 'package index, import/star-import resolution, MRO, constant folding, opcode table replay, obligation/known-finding/evidence protocol', 'serves_properties': []},
        {'name': 'CFG', 'path': 'sa/cfg.py', 'kind_free_text': 'statement-level control-flow graphs with short-circuit splitting; must-pass-through / guarded-by queries', 'serves_properties': []},
        {'name': 'DFA', 'path': 'sa/dfa.py', 'kind_free_text': 'reaching definitions, expression provenance, dominating guards', 'serves_properties': []},
        {'name': 'SYM (LAYOUT/ENUM/STACK/INTV)', 'path': 'sa/sym.py', 'kind_free_text': 'abstract evaluator producing layout terms, decision tables, stack effects and interval partitions (sa/layout.py, sa/intv.py)', 'serves_properties': []},
    ]
    for p in props:
        pid = p['id']
        path = os.path.join(ROOT, 'sa', 'props', pid.lower() + '.py')
        if not os.path.exists(path):
            na.append({'property_id': pid, 'reason': NOT_APPLICABLE.get(pid, 'no static obligation implemented yet for this property (work in progress; see DESIGN.md section 5 for the planned clauses)')})
            continue
        mod = importlib.import_module('sa.props.' + pid.lower())
        prop = mod.PROP
        obl = ', '.join(o.oid.split('.', 1)[1] for o in prop.obligations)
        checks.append({
            'property_id': pid,
            'quick_cmd': 'python3 sa/check.py %s --tier quick' % pid,
            'thorough_cmd': 'python3 sa/check.py %s --tier thorough' % pid,
            'evidence_file': 'evidence/%s.json' % pid,
            'replay_cmd_template': 'python3 sa/check.py %s --replay {path}' % pid,
            'engine': 'SYM (LAYOUT/ENUM/STACK/INTV)',
            'level_claimed': {
                'category': 'other',
                'text': ('Static analysis (no execution of the code under test). Decides necessary structural conditions of the property '
                         'for every input/history at once, not the behaviour itself: ' + prop.explanation),
                'design_ref': 'DESIGN.md section 5, %s' % pid,
            },
            'level_note': 'Obligations: %s. Trusted base: Python ast, the analyser itself (sa/*.py), %s. Quantities decided only '
                          'structurally; values computed by third-party primitives (hashlib, fastecdsa, SQLAlchemy) are assumed correct.' % (obl, '; '.join(prop.assumptions)),
            'technique': getattr(mod, 'TECHNIQUE', 'custom AST/CFG/dataflow checkers and an abstract evaluator (layout terms, decision tables, interval partitions) over the repository source'),
        })
        for e in engines:
            e['serves_properties'].append(pid)
    man = {
        'version': 1,
        'setup_cmd': 'true',
        'hooks': {
            'guard': 'BITCOINLIB_VERIF',
            'enable': 'not used: the checks never execute the repository, so no instrumentation hooks exist',
            'baseline_off_cmd': 'cd /repo && /venv/bin/python -m pytest -ra -q -p no:cacheprovider --timeout=900 --continue-on-collection-errors',
            'source_commits': [],
            'add_only': True,
        },
        'engines': engines,
        'checks': checks,
        'not_applicable': na,
        'notes': 'All checks are static (python3 stdlib ast only) and read /repo (or $VERIF_REPO) at run time. Exit 0 = all obligations discharged '
                 '(known findings listed in known_findings.json are printed as KNOWN-FINDING lines); exit 1 = VIOLATION; exit 2 = ANALYSIS-ERROR '
                 '(anchor vanished / construct outside the modelled subset; never reported as a violation). thorough = quick + in-memory AST canary mutants per obligation.',
    }
    json.dump(man, open(os.path.join(ROOT, 'MANIFEST.json'), 'w'), indent=1)
    print('checks', len(checks), 'not_applicable', len(na))


if __name__ == '__main__':
    main()
