"""
STACK: symbolic model of scripts.Stack (a list subclass) for stack-effect inference of the op_* handlers.

The original stack is [..., in3, in2, in1] (in1 = top). Items are materialised lazily when a handler reaches below
what it pushed itself. The model records how many original items were touched.
"""
import ast

from .core import AnalysisError
from .sym import Model, S, term, show, is_conc


class ShapeSplit(AnalysisError):
    """the stack depth became data dependent (a pop / push that only happens for some operand values) and is used afterwards"""


class SymStack(Model):
    cls = 'scripts:Stack'
    def __init__(self, items=None, used=0):
        self.items = list(items or [])      # terms, bottom .. top, above the untouched original stack
        self.used = used                    # number of original items materialised so far
        self.dynamic = []                   # dynamic (data-dependent) accesses, for PICK / ROLL
        self.variants = None                # [(test, items)] after a merge of different shapes

    def copy(self):
        c = SymStack(self.items, self.used)
        c.dynamic = list(self.dynamic)
        c.variants = None if self.variants is None else [(t, list(i)) for t, i in self.variants]
        return c

    def term(self):
        return ('stack', tuple(self.items), self.used)

    def same(self, other):
        return isinstance(other, SymStack) and self.items == other.items and self.used == other.used and self.variants == other.variants and self.dynamic == other.dynamic

    def _check(self):
        if self.variants is not None:
            raise ShapeSplit('stack used after a shape-changing conditional: %s' % '; '.join(
                '%s -> %d items above %d consumed' % (show(t), len(i), self.used) for t, i in self.variants))

    def ensure(self, k):
        self._check()
        while len(self.items) < k:
            self.used += 1
            self.items.insert(0, ('in', self.used))

    def merge(self, test, other):
        if not isinstance(other, SymStack):
            return NotImplemented
        a, b = self.copy(), other.copy()
        if a.variants is not None or b.variants is not None:
            raise AnalysisError('nested shape-changing conditionals on the stack')
        # bring both to the same number of materialised inputs
        while a.used < b.used:
            a.used += 1
            a.items.insert(0, ('in', a.used))
        while b.used < a.used:
            b.used += 1
            b.items.insert(0, ('in', b.used))
        m = SymStack(used=a.used)
        m.dynamic = a.dynamic + [d for d in b.dynamic if d not in a.dynamic]
        if len(a.items) == len(b.items):
            m.items = [x if x == y else ('cond', test, x, y) for x, y in zip(a.items, b.items)]
        else:
            m.items = []
            m.variants = [(test, a.items), (('not', test), b.items)]
        return m

    def truth(self, interp, st):
        return S(('stack-nonempty',), 'bool')

    def length(self, interp, st):
        self._check()
        return S(('stacklen', len(self.items) - self.used), 'int')

    def get_attr(self, interp, name, st):
        return NotImplemented

    def get_item(self, interp, idx, st):
        self._check()
        if isinstance(idx, tuple) and idx and idx[0] == 'slice':
            lo, hi, step = idx[1], idx[2], idx[3]
            if step is not None:
                raise AnalysisError('stepped stack slice')
            if isinstance(lo, int) and lo < 0 and (hi is None or (isinstance(hi, int) and hi < 0)):
                self.ensure(-lo)
                return [S(x) for x in (self.items[lo:hi] if hi is not None else self.items[lo:])]
            if isinstance(lo, S) or isinstance(hi, S):
                self.dynamic.append(('slice', term(lo), term(hi)))
                return S(('dynslice', term(lo), term(hi)), 'list')
            raise AnalysisError('stack slice [%r:%r] not modelled' % (lo, hi))
        if isinstance(idx, int) and idx < 0:
            self.ensure(-idx)
            return S(self.items[idx], 'bytes')
        if isinstance(idx, S):
            self.dynamic.append(('get', term(idx), tuple(self.items), self.used))
            return S(('dynitem', term(idx)), 'bytes')
        raise AnalysisError('stack index %r not modelled' % (idx,))

    def set_item(self, interp, idx, value, st):
        self._check()
        if isinstance(idx, tuple) and idx and idx[0] == 'slice':
            lo, hi = idx[1], idx[2]
            if isinstance(lo, int) and isinstance(hi, int) and lo < 0 and hi < 0 and isinstance(value, list):
                # note: the right-hand side has been evaluated before (pops already happened)
                self.ensure(-lo)
                n = len(self.items)
                self.items[n + lo:n + hi] = [term(v) for v in value]
                return None
            raise AnalysisError('stack slice assignment not modelled')
        raise AnalysisError('stack item assignment not modelled')

    def call_method(self, interp, name, args, kwargs, st, node):
        if name == 'pop':
            self._check()
            if not args:
                self.ensure(1)
                return S(self.items.pop(), 'bytes')
            i = args[0]
            if isinstance(i, int) and i < 0:
                self.ensure(-i)
                return S(self.items.pop(i), 'bytes')
            if isinstance(i, S):
                self.dynamic.append(('pop', term(i), tuple(self.items), self.used))
                return S(('dynpop', term(i)), 'bytes')
            raise AnalysisError('stack pop(%r) not modelled' % (i,))
        if name == 'append' and len(args) == 1:
            self._check()
            self.items.append(term(args[0]))
            return None
        if name == 'extend' and len(args) == 1:
            self._check()
            v = args[0]
            if isinstance(v, list):
                self.items.extend(term(x) for x in v)
                return None
            if isinstance(v, S) and isinstance(v.t, tuple) and v.t[0] == 'dynslice':
                self.items.append(('dyn-extend', v.t))
                return None
            raise AnalysisError('stack extend with a non-list')
        return NotImplemented   # other methods (op_*, is_arithmetic, pop_as_number) are inlined by the interpreter


def stack_decide(t):
    """normal path of a handler: the stack is deep enough"""
    if isinstance(t, tuple) and t and t[0] == 'cmp' and isinstance(t[2], tuple) and t[2] and t[2][0] == 'stacklen' and isinstance(t[3], int):
        # len(self) compared with a small constant: assume the stack holds enough items
        return {'<': False, '<=': False, '>': True, '>=': True, '==': False, '!=': True}.get(t[1])
    if isinstance(t, tuple) and t and t[0] == 'stacklen':
        return True
    if t == ('stack-nonempty',):
        return True
    return None


class DepthStack(Model):
    """scripts.Stack holding EXACTLY the given items (bottom .. top): the model for under-run scenarios. Indexing, slicing, pop and
    slice assignment behave as on a Python list of that length - an out-of-range index or a pop from the empty stack ends the path
    with a raise IndexError exit, a slice is silently truncated."""
    cls = 'scripts:Stack'

    def __init__(self, items):
        self.items = list(items)

    def copy(self):
        return DepthStack(self.items)

    def term(self):
        return ('depthstack', tuple(term(x) for x in self.items))

    def same(self, other):
        return isinstance(other, DepthStack) and [term(x) for x in self.items] == [term(x) for x in other.items]

    def merge(self, test, other):
        if not isinstance(other, DepthStack) or len(other.items) != len(self.items):
            return NotImplemented
        return DepthStack([x if term(x) == term(y) else S(('cond', test, term(x), term(y)), 'bytes') for x, y in zip(self.items, other.items)])

    def truth(self, interp, st):
        return bool(self.items)

    def length(self, interp, st):
        return len(self.items)

    def _index_error(self, interp, st, node):
        from .sym import _AlwaysRaises
        interp._exit('raise', st, S(('call', 'IndexError', (), ())), node)
        raise _AlwaysRaises()

    def _slice(self, idx):
        lo, hi, step = idx[1], idx[2], idx[3]
        if not all(v is None or isinstance(v, int) for v in (lo, hi, step)):
            raise AnalysisError('stack slice with a run-time bound')
        return slice(lo, hi, step)

    def get_item(self, interp, idx, st):
        if isinstance(idx, tuple) and idx and idx[0] == 'slice':
            return list(self.items[self._slice(idx)])
        if isinstance(idx, int):
            if -len(self.items) <= idx < len(self.items):
                return self.items[idx]
            self._index_error(interp, st, None)
        raise AnalysisError('stack index %r not modelled' % (idx,))

    def set_item(self, interp, idx, value, st):
        if isinstance(idx, tuple) and idx and idx[0] == 'slice' and isinstance(value, list):
            self.items[self._slice(idx)] = list(value)
            return None
        if isinstance(idx, int):
            if -len(self.items) <= idx < len(self.items):
                self.items[idx] = value
                return None
            self._index_error(interp, st, None)
        raise AnalysisError('stack item assignment not modelled')

    def call_method(self, interp, name, args, kwargs, st, node):
        if name == 'pop' and all(isinstance(a, int) for a in args) and len(args) <= 1:
            try:
                return self.items.pop(*args)
            except IndexError:
                self._index_error(interp, st, node)
        if name == 'append' and len(args) == 1:
            self.items.append(args[0])
            return None
        if name == 'extend' and len(args) == 1 and isinstance(args[0], (list, tuple)):
            self.items.extend(args[0])
            return None
        if name == 'insert' and len(args) == 2 and isinstance(args[0], int):
            self.items.insert(args[0], args[1])
            return None
        if name in ('pop', 'append', 'extend', 'insert', 'remove', 'index', 'count', 'reverse', 'sort', 'clear', 'copy'):
            raise AnalysisError('stack method %s(%s) not modelled for a stack of known depth' % (name, ', '.join(show(term(a))[:20] for a in args)))
        return NotImplemented
