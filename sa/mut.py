"""
In-memory AST mutation operators for canaries (thorough tier). A canary edits a deep copy of one module's
tree; nothing is written to disk or executed. Each operator returns ``mutate(tree) -> bool``.
"""
import ast

from .core import Canary, unparse


def _find_func(tree, q):
    parts = q.split('.')
    if parts[-1] == 'setter':
        cls = _find_func(tree, '.'.join(parts[:-2])) if len(parts) > 2 else tree
        if cls is None:
            return None
        for n in cls.body:
            if isinstance(n, ast.FunctionDef) and n.name == parts[-2] and \
                    any(isinstance(d, ast.Attribute) and d.attr == 'setter' for d in n.decorator_list):
                return n
        return None
    body = tree.body
    node = None
    for i, p in enumerate(parts):
        found = None
        for n in body:
            if isinstance(n, (ast.FunctionDef, ast.ClassDef, ast.AsyncFunctionDef)) and n.name == p:
                if p == parts[-1] and len(parts) > 1 and isinstance(n, ast.FunctionDef) and \
                        any(isinstance(d, ast.Attribute) and d.attr == 'setter' for d in n.decorator_list):
                    continue
                found = n
                break
        if found is None:
            return None
        node = found
        body = found.body
    return node


def _walk(node):
    """pre-order, source-order walk (ast.walk is breadth-first, which makes nth-occurrence selection confusing)"""
    yield node
    for c in ast.iter_child_nodes(node):
        for x in _walk(c):
            yield x


def _where(tree, q):
    return tree if q is None else _find_func(tree, q)


def const(modname, q, old, new, name=None, nth=0):
    """replace the nth constant equal to ``old`` inside function q"""
    def mutate(tree):
        f = _where(tree, q)
        if f is None:
            return False
        k = 0
        for n in _walk(f):
            if isinstance(n, ast.Constant) and type(n.value) == type(old) and n.value == old:
                if k == nth:
                    n.value = new
                    return True
                k += 1
        return False
    return Canary(name or 'const %r->%r in %s' % (old, new, q), modname, mutate)


def cmpop(modname, q, match, newop, name=None, nth=0):
    """change the operator of the nth Compare whose source contains ``match``"""
    def mutate(tree):
        f = _where(tree, q)
        if f is None:
            return False
        k = 0
        for n in _walk(f):
            if isinstance(n, ast.Compare) and match in unparse(n):
                if k == nth:
                    n.ops = [newop()] + n.ops[1:]
                    return True
                k += 1
        return False
    return Canary(name or 'cmp %s -> %s in %s' % (match, newop.__name__, q), modname, mutate)


def drop_stmt(modname, q, match, name=None, nth=0):
    """delete the nth statement (at any nesting depth) whose first source line contains ``match``
    (replaced by ``pass`` so that blocks stay non-empty)"""
    def mutate(tree):
        f = _where(tree, q)
        if f is None:
            return False
        k = [0]

        def visit(node):
            for field in ('body', 'orelse', 'finalbody', 'handlers'):
                lst = getattr(node, field, None)
                if not isinstance(lst, list):
                    continue
                for i, s in enumerate(lst):
                    if isinstance(s, ast.stmt) and match in unparse(s).split('\n')[0]:
                        if k[0] == nth:
                            lst[i] = ast.copy_location(ast.Pass(), s)
                            return True
                        k[0] += 1
                    if isinstance(s, (ast.stmt, ast.ExceptHandler)) and visit(s):
                        return True
            return False
        return visit(f)
    return Canary(name or 'drop "%s" in %s' % (match, q), modname, mutate)


def replace_expr(modname, q, match, new_src, name=None, nth=0, exact=False):
    """replace the nth expression whose source equals/contains ``match`` by the expression ``new_src``"""
    def mutate(tree):
        f = _where(tree, q)
        if f is None:
            return False
        new = ast.parse(new_src, mode='eval').body
        k = [0]

        class R(ast.NodeTransformer):
            done = False

            def generic_visit(self, node):
                if self.done:
                    return node
                return super().generic_visit(node)

            def visit(self, node):
                if self.done:
                    return node
                if isinstance(node, ast.expr) and not isinstance(getattr(node, 'ctx', None), (ast.Store, ast.Del)):
                    src = unparse(node)
                    if (src == match) if exact else (match == src):
                        if k[0] == nth:
                            self.done = True
                            return ast.copy_location(new, node)
                        k[0] += 1
                return self.generic_visit(node)
        r = R()
        r.visit(f)
        return r.done
    return Canary(name or 'replace %s -> %s in %s' % (match, new_src, q), modname, mutate)


def replace_stmt(modname, q, match, new_src, name=None, nth=0):
    """replace the nth statement whose first source line contains ``match`` by statements ``new_src``"""
    def mutate(tree):
        f = _where(tree, q)
        if f is None:
            return False
        new = ast.parse(new_src).body
        k = [0]

        def visit(node):
            for field in ('body', 'orelse', 'finalbody'):
                lst = getattr(node, field, None)
                if not isinstance(lst, list):
                    continue
                for i, s in enumerate(lst):
                    if isinstance(s, ast.stmt) and match in unparse(s).split('\n')[0]:
                        if k[0] == nth:
                            lst[i:i + 1] = [ast.copy_location(x, s) for x in new]
                            return True
                        k[0] += 1
                    if isinstance(s, ast.stmt) and visit(s):
                        return True
                    if isinstance(s, ast.Try):
                        for h in s.handlers:
                            if visit(h):
                                return True
            return False
        return visit(f)
    return Canary(name or 'replace stmt "%s" in %s' % (match, q), modname, mutate)


def insert_before(modname, q, match, new_src, name=None, nth=0):
    def mutate(tree):
        f = _where(tree, q)
        if f is None:
            return False
        new = ast.parse(new_src).body
        k = [0]

        def visit(node):
            for field in ('body', 'orelse', 'finalbody'):
                lst = getattr(node, field, None)
                if not isinstance(lst, list):
                    continue
                for i, s in enumerate(lst):
                    if isinstance(s, ast.stmt) and match in unparse(s).split('\n')[0]:
                        if k[0] == nth:
                            lst[i:i] = [ast.copy_location(x, s) for x in new]
                            return True
                        k[0] += 1
                    if isinstance(s, ast.stmt) and visit(s):
                        return True
            return False
        return visit(f)
    return Canary(name or 'insert before "%s" in %s' % (match, q), modname, mutate)


def swap_args(modname, q, callee, i, j, name=None, nth=0):
    def mutate(tree):
        f = _where(tree, q)
        if f is None:
            return False
        k = 0
        for n in _walk(f):
            if isinstance(n, ast.Call):
                fn = n.func
                nm = fn.id if isinstance(fn, ast.Name) else (fn.attr if isinstance(fn, ast.Attribute) else None)
                if nm == callee and len(n.args) > max(i, j):
                    if k == nth:
                        n.args[i], n.args[j] = n.args[j], n.args[i]
                        return True
                    k += 1
        return False
    return Canary(name or 'swap args %d,%d of %s in %s' % (i, j, callee, q), modname, mutate)


def drop_kwarg(modname, q, callee, kwname, name=None, nth=0):
    """remove keyword argument ``kwname`` from the nth call of ``callee`` (function or method name) inside function q"""
    def mutate(tree):
        f = _where(tree, q)
        if f is None:
            return False
        k = 0
        for n in _walk(f):
            if isinstance(n, ast.Call):
                fn = n.func
                nm = fn.id if isinstance(fn, ast.Name) else (fn.attr if isinstance(fn, ast.Attribute) else None)
                if nm == callee and any(kw.arg == kwname for kw in n.keywords):
                    if k == nth:
                        n.keywords = [kw for kw in n.keywords if kw.arg != kwname]
                        return True
                    k += 1
        return False
    return Canary(name or 'drop %s= of %s in %s' % (kwname, callee, q), modname, mutate)
