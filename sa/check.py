#!/usr/bin/env python3
"""Entry point: python3 sa/check.py <ID> [--tier quick|thorough] [--only OBLIGATION] [-v]

Exit 0: every obligation discharged (known findings printed as KNOWN-FINDING lines)
Exit 1: `VIOLATION property=<id> replay=<path>` for a violated obligation not in known_findings.json
Exit 2: `ANALYSIS-ERROR ...` an anchor vanished or a construct is outside the modelled subset
"""
import importlib
import os
import sys
import traceback

sys.path.insert(0, os.path.dirname(os.path.dirname(os.path.abspath(__file__))))


def main(argv):
    if len(argv) < 2:
        print(__doc__)
        return 2
    pid = argv[1].upper()
    tier = os.environ.get('VERIF_TIER', 'quick')
    only = None
    verbose = False
    i = 2
    while i < len(argv):
        if argv[i] == '--tier':
            tier = argv[i + 1]; i += 2
        elif argv[i] == '--only':
            only = argv[i + 1]; i += 2
        elif argv[i] == '--replay':
            # replay = re-run the property verbosely; the file names the obligations that failed
            verbose = True; i += 2
        elif argv[i] == '-v':
            verbose = True; i += 1
        else:
            i += 1
    if tier not in ('quick', 'thorough'):
        tier = 'quick'
    try:
        from sa import core
        mod = importlib.import_module('sa.props.%s' % pid.lower())
        return core.run_property(mod.PROP, tier=tier, only=only, verbose=verbose)
    except Exception as e:
        print('ANALYSIS-ERROR property=%s checker crashed: %r' % (pid, e))
        traceback.print_exc()
        return 2


if __name__ == '__main__':
    sys.exit(main(sys.argv))
