"""
FALSY: a parameter whose falsy value is meaningful is replaced by a default through a truthiness test.

    p = p or E          p = p if p else E          if not p: p = E

are the same as the `is None` form only while no caller passes a falsy value on purpose. The analysis finds those idioms on a
parameter p of function f and then looks for call sites inside the package that pass an explicit falsy constant (False, 0, '', b'')
for p to a callee called f (method of the caller's class hierarchy for self.f(...), any function / method of that name otherwise).
Each such pair is a concrete witness: that caller's explicit value is silently replaced by E.
"""
import ast

FALSY = (False, 0, '', b'')


def _is_falsy_const(n):
    return isinstance(n, ast.Constant) and n.value is not None and any(n.value is x or (type(n.value) is type(x) and n.value == x) for x in FALSY)


def truthiness_defaults(fn):
    """[(param, stmt, replacement expr)] for the idioms above on parameters of fn"""
    a = fn.args
    params = [x.arg for x in a.posonlyargs + a.args + a.kwonlyargs]
    out = []
    for s in ast.walk(fn):
        if isinstance(s, ast.Assign) and len(s.targets) == 1 and isinstance(s.targets[0], ast.Name) and s.targets[0].id in params:
            p = s.targets[0].id
            v = s.value
            if isinstance(v, ast.BoolOp) and isinstance(v.op, ast.Or) and isinstance(v.values[0], ast.Name) and v.values[0].id == p:
                out.append((p, s, v.values[-1]))
            elif isinstance(v, ast.IfExp):
                t = v.test
                if isinstance(t, ast.Name) and t.id == p and isinstance(v.body, ast.Name) and v.body.id == p:
                    out.append((p, s, v.orelse))
                elif isinstance(t, ast.UnaryOp) and isinstance(t.op, ast.Not) and isinstance(t.operand, ast.Name) and t.operand.id == p and isinstance(v.orelse, ast.Name) and v.orelse.id == p:
                    out.append((p, s, v.body))
        elif isinstance(s, ast.If) and not s.orelse and isinstance(s.test, ast.UnaryOp) and isinstance(s.test.op, ast.Not) and \
                isinstance(s.test.operand, ast.Name) and s.test.operand.id in params:
            p = s.test.operand.id
            for b in s.body:
                if isinstance(b, ast.Assign) and len(b.targets) == 1 and isinstance(b.targets[0], ast.Name) and b.targets[0].id == p:
                    out.append((p, s, b.value))
    # only the first write of the parameter counts (later ones work on a normalised value)
    seen = set()
    res = []
    for p, s, e in sorted(out, key=lambda x: x[1].lineno):
        if p not in seen:
            seen.add(p)
            res.append((p, s, e))
    return res


def explicit_falsy_callers(repo, modname, qual, fn, param):
    """[(caller module, caller qual, call node, constant)] call sites passing an explicit falsy constant for `param` of fn"""
    name = qual.split('.')[-1]
    cls = qual.split('.')[0] if '.' in qual else None
    a = fn.args
    pos = [x.arg for x in a.posonlyargs + a.args]
    if pos and pos[0] in ('self', 'cls'):
        pos = pos[1:]
    idx = pos.index(param) if param in pos else None
    # classes related to cls (ancestors and descendants): self.f(...) inside them may dispatch to fn
    related = set()
    if cls:
        for mn, m in repo.modules.items():
            for cq in m.classes:
                try:
                    mro = [x.split(':')[-1] for x in repo.mro(mn + ':' + cq)]
                except Exception:
                    mro = [cq]
                if cls in mro or cq == cls:
                    related |= set(mro) | {cq}
    # how many distinct definitions share the name (for calls on an unknown receiver)
    defs = [(mn, q) for mn, m in repo.modules.items() for q in m.functions if q.split('.')[-1] == name]
    out = []
    for mn, m in repo.modules.items():
        for cq, cf in m.functions.items():
            ccls = cq.split('.')[0] if '.' in cq else None
            for c in ast.walk(cf):
                if not isinstance(c, ast.Call):
                    continue
                if isinstance(c.func, ast.Attribute) and c.func.attr == name:
                    recv = c.func.value
                    if isinstance(recv, ast.Name) and recv.id == 'self':
                        if not (cls and ccls in related):
                            continue
                    elif isinstance(recv, ast.Call) and isinstance(recv.func, ast.Name) and recv.func.id == 'super':
                        continue    # super().f(...) goes to the parent, never to an override
                    elif len(set(q.split('.')[0] for _, q in defs) - related) > 0 and cls:
                        continue    # receiver unknown and the name is also defined outside this hierarchy
                elif isinstance(c.func, ast.Name) and c.func.id == name and not cls:
                    pass
                else:
                    continue
                val = None
                for k in c.keywords:
                    if k.arg == param:
                        val = k.value
                if val is None and idx is not None and idx < len(c.args) and not any(isinstance(x, ast.Starred) for x in c.args[:idx + 1]):
                    val = c.args[idx]
                if val is not None and _is_falsy_const(val):
                    out.append((mn, cq, c, val.value))
    return out


def _truth_atoms(test):
    """expressions whose plain truthiness makes ``test`` true: operands of `and` chains, the test itself"""
    if isinstance(test, ast.BoolOp) and isinstance(test.op, ast.And):
        out = []
        for v in test.values:
            out += _truth_atoms(v)
        return out
    if isinstance(test, (ast.Subscript, ast.Attribute, ast.Name)):
        return [test]
    return []


def value_guarded_stores(fn, record_names=None):
    """Stores `record.column = <expr reading X['k']>` / `record['column'] = ...` that execute only when X['k'] itself is truthy: a falsy
    new value (0, '', False) never reaches the record and the old one stays. Returns (store statement, guarding If, guarded expression text).
    Only stores into attributes / items are considered: binding a local under such a guard is the usual "use it when present" idiom."""
    parents = {}
    for n in ast.walk(fn):
        for c in ast.iter_child_nodes(n):
            parents[c] = n
    out = []
    for n in ast.walk(fn):
        if not isinstance(n, (ast.Assign, ast.AugAssign)):
            continue
        targets = n.targets if isinstance(n, ast.Assign) else [n.target]
        if not any(isinstance(t, (ast.Attribute, ast.Subscript)) for t in targets):
            continue
        reads = set(ast.dump(x) for x in ast.walk(n.value) if isinstance(x, ast.Subscript) and isinstance(x.ctx, ast.Load))
        if not reads:
            continue
        p = n
        while p in parents:
            pp = parents[p]
            if isinstance(pp, ast.If) and any(p is s for s in pp.body):
                for a in _truth_atoms(pp.test):
                    if isinstance(a, ast.Subscript) and ast.dump(a) in reads:
                        out.append((n, pp, ast.unparse(a)))
            if isinstance(pp, (ast.FunctionDef, ast.Lambda)) and pp is not fn:
                break
            p = pp
    return out


def zero_valid_truth_tests(fn):
    """A parameter whose accepted range includes 0 (`lo <= p <= hi` with lo <= 0 in a validation of the function) and whose PRESENCE is
    tested by truthiness (`not p`, `p and ...`, `if p:`): the valid value 0 is treated as "not given". Returns [(param, truth-test node,
    range node)]. One place of the function says 0 is a value, another says it is nothing - one of them is wrong."""
    params = set(a.arg for a in fn.args.posonlyargs + fn.args.args + fn.args.kwonlyargs)
    parents = {}
    for n in ast.walk(fn):
        for c in ast.iter_child_nodes(n):
            parents[c] = n
    ranges = {}
    for n in ast.walk(fn):
        if isinstance(n, ast.Compare) and len(n.ops) == 2 and all(isinstance(o, (ast.LtE, ast.Lt)) for o in n.ops):
            lo, mid, hi = n.left, n.comparators[0], n.comparators[1]
            if isinstance(mid, ast.Name) and mid.id in params and isinstance(lo, ast.Constant) and isinstance(lo.value, int) and not isinstance(lo.value, bool):
                lowest = lo.value if isinstance(n.ops[0], ast.LtE) else lo.value + 1
                if lowest <= 0 and isinstance(hi, ast.Constant) and isinstance(hi.value, int) and hi.value >= 0:
                    ranges[mid.id] = n
    out = []
    for n in ast.walk(fn):
        if not (isinstance(n, ast.Name) and n.id in ranges and isinstance(n.ctx, ast.Load)):
            continue
        p = parents.get(n)
        truth = False
        if isinstance(p, ast.UnaryOp) and isinstance(p.op, ast.Not):
            truth = True
        elif isinstance(p, ast.BoolOp):
            truth = True
        elif isinstance(p, (ast.If, ast.While, ast.IfExp)) and p.test is n:
            truth = True
        if truth:
            out.append((n.id, p, ranges[n.id]))
    return out
