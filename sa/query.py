"""QUERY: shapes of SQLAlchemy query chains (models, joins, filter predicates, order, terminal)."""
import ast

from .core import unparse, norm, walk_no_nested


class QueryShape:
    def __init__(self, node):
        self.node = node
        self.models = []
        self.joins = []
        self.filters = []       # normalised predicate texts
        self.filter_by = {}
        self.order_by = []
        self.terminal = None
        self.base_name = None   # when the chain starts from a variable holding another query

    def __repr__(self):
        return '<query %s filters=%s terminal=%s>' % (self.models, self.filters, self.terminal)


def parse_chain(expr):
    """session.query(A, B).join(C).filter(p, q).order_by(x).first()  ->  QueryShape (None if not a query chain)"""
    calls = []
    cur = expr
    while True:
        if isinstance(cur, ast.Call) and isinstance(cur.func, ast.Attribute):
            calls.append((cur.func.attr, cur))
            cur = cur.func.value
        elif isinstance(cur, ast.Attribute):
            calls.append((cur.attr, None))
            cur = cur.value
        else:
            break
    calls.reverse()
    names = [c[0] for c in calls]
    qs = QueryShape(expr)
    if 'query' in names:
        i = names.index('query')
        qcall = calls[i][1]
        if qcall is None:
            return None
        qs.models = [norm(a) for a in qcall.args]
        rest = calls[i + 1:]
    elif isinstance(cur, ast.Name) and any(n in ('filter', 'filter_by', 'order_by', 'first', 'all', 'scalar', 'count', 'update', 'delete') for n in names):
        qs.base_name = cur.id
        rest = calls
    else:
        return None
    for name, call in rest:
        if call is None:
            continue
        if name == 'join':
            qs.joins += [norm(a) for a in call.args]
        elif name == 'filter':
            qs.filters += [norm(a) for a in call.args]
        elif name == 'filter_by':
            for k in call.keywords:
                qs.filter_by[k.arg] = norm(k.value)
        elif name == 'order_by':
            qs.order_by += [norm(a) for a in call.args]
        elif name in ('first', 'all', 'scalar', 'count', 'update', 'delete', 'one'):
            qs.terminal = name
    return qs


def queries_in(fn):
    """all query chains in a function: [(stmt node, QueryShape)] ; chains nested in larger chains are reported once (outermost)"""
    out = []
    seen = set()
    for n in walk_no_nested(fn):
        if isinstance(n, ast.Call) and id(n) not in seen:
            qs = parse_chain(n)
            if qs is not None and (qs.models or qs.base_name):
                out.append(qs)
                for sub in ast.walk(n):
                    seen.add(id(sub))
    return out


def resolved_filters(fn, var):
    """unconditional filters that apply to the query held in local variable ``var`` at the end of its refinements:
    follows `var = <chain>` and `var = var.filter(...)` at the top nesting level of where var was first assigned
    (refinements inside if-blocks are conditional and not included). Returns (models, unconditional filters, conditional filters)."""
    models, uncond, cond = [], [], []
    first = None
    def visit(stmts, conditional):
        nonlocal models, first
        for s in stmts:
            if isinstance(s, ast.Assign) and len(s.targets) == 1 and isinstance(s.targets[0], ast.Name) and s.targets[0].id == var:
                qs = parse_chain(s.value)
                if qs is None:
                    continue
                if qs.models:
                    models = qs.models
                    first = s
                    (cond if conditional else uncond).extend(qs.filters + ['%s == %s' % kv for kv in qs.filter_by.items()])
                elif qs.base_name == var:
                    (cond if conditional else uncond).extend(qs.filters)
            elif isinstance(s, (ast.If, ast.For, ast.While, ast.With, ast.Try)):
                for field in ('body', 'orelse', 'finalbody'):
                    visit(getattr(s, field, []) or [], True)
                for h in getattr(s, 'handlers', []) or []:
                    visit(h.body, True)
    visit(fn.body, False)
    return models, uncond, cond
