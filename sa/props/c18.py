"""C18 Wire primitives (CompactSize, script numbers, pushes) are canonical and round-trip — structural part."""
import ast

from ..core import Property, AnalysisError, unparse, norm, walk_no_nested, calls_in, callee_name
from ..sym import Interp, S, term, show, subterms, flatten_cat, State
from ..layout import LAYOUT_HOOKS, Stream, normalize
from .. import intv, mut
from ..cfg import build_cfg
from ..dfa import ReachingDefs, guards_of

PROP = Property(
    'C18', 'Wire primitives are canonical and round-trip',
    'Static: threshold chains of int_to_varbyteint / data_pack are turned into exact interval partitions and compared '
    'with the CompactSize / push-opcode definitions; the three CompactSize readers and the script push reader are '
    'specialised per tag byte and compared with the writer; varstr must prefix on all paths; data lengths in the '
    'script parser must derive from the stream; encode_num/decode_num are checked for the sign-magnitude structure. '
    'Value round-trip over all integers is NOT decided, only these necessary structural conditions.',
    ['Python int.to_bytes / int.from_bytes semantics', 'abstract evaluator sa/sym.py models the modelled subset faithfully'])


def _isinst_true(t):
    if isinstance(t, tuple) and t and t[0] == 'isinstance':
        return True
    return None


def _leaf_prefix_width(leaf, var):
    """leaf = [const prefix] . int2bytes(var, w, order) -> (prefix bytes, w, order) or None"""
    parts = flatten_cat(leaf)
    prefix = b''
    if parts and isinstance(parts[0], bytes):
        prefix = parts.pop(0)
    if len(parts) == 1 and isinstance(parts[0], tuple) and parts[0][0] == 'int2bytes' and parts[0][1] == var:
        return prefix, parts[0][2], parts[0][3]
    return None


@PROP.obligation('C18.canonical', canaries=[
    mut.cmpop('encoding', 'int_to_varbyteint', 'inp <= 65535', ast.Lt, 'varint: <= 0xffff back to <'),
    mut.cmpop('encoding', 'int_to_varbyteint', 'inp <= 4294967295', ast.Lt, 'varint: <= 0xffffffff back to <'),
    mut.cmpop('encoding', 'int_to_varbyteint', 'inp < 253', ast.LtE, 'varint: < 0xfd to <='),
    mut.const('encoding', 'int_to_varbyteint', 'little', 'big', 'varint: LE2 -> BE2', nth=1),
    mut.const('encoding', 'int_to_varbyteint', 4, 8, 'varint: width 4 -> 8'),
    mut.const('encoding', 'int_to_varbyteint', b'\xfe', b'\xfd', 'varint: tag fe -> fd'),
])
def canonical(ctx):
    """int_to_varbyteint: [0,0xfc]->1 byte, [0xfd,0xffff]->fd+LE2, [0x10000,2^32-1]->fe+LE4, [2^32,2^64-1]->ff+LE8."""
    q = 'encoding:int_to_varbyteint'
    fn = ctx.repo.func(q)
    it = Interp(ctx.repo, 'encoding', decide=_isinst_true)
    var = ('var', 'inp')
    exits = it.run_function(fn, {'inp': S(var, 'int')})
    tree = term(it.result_value(exits, include_raises=True))
    parts = intv.partition(tree, var, 0, 2 ** 64 - 1)
    expected = [(0, 0xfc, b'', 1), (0xfd, 0xffff, b'\xfd', 2), (0x10000, 0xffffffff, b'\xfe', 4), (2 ** 32, 2 ** 64 - 1, b'\xff', 8)]
    got = []
    for a, b, leaf in parts:
        pw = _leaf_prefix_width(leaf, var)
        ctx.saw('int_to_varbyteint [%#x, %#x] -> %s' % (a, b, show(leaf)))
        if pw is None:
            if isinstance(leaf, tuple) and leaf[0] == 'raise':
                ctx.violate(q, 'values [%#x, %#x] raise instead of being encoded' % (a, b), fn)
                continue
            ctx.undecided('int_to_varbyteint leaf not a prefix+fixed-width integer: %s' % show(leaf))
        got.append((a, b) + pw)
    # compare interval by interval (exact)
    for (a, b, pre, w) in expected:
        for (ga, gb, gpre, gw, gorder) in got:
            lo, hi = max(a, ga), min(b, gb)
            if lo > hi:
                continue
            if gpre != pre or gw != w:
                ctx.violate(q, 'values %#x..%#x are encoded as %s+%d bytes, CompactSize requires %s+%d bytes' % (
                    lo, hi, gpre.hex() or 'no tag', gw, pre.hex() or 'no tag', w), fn,
                    'non-canonical / wrong CompactSize encoding for every value in that interval')
            if gw > 1 and gorder != 'little':
                ctx.violate(q, 'values %#x..%#x are encoded big-endian' % (lo, hi), fn)
            if isinstance(gw, int) and hi >= 256 ** gw:
                ctx.violate(q, 'values up to %#x do not fit in %d bytes' % (hi, gw), fn)


def _reader_table(ctx, q, tree_of_ni, ni, what):
    """tree: term with ni free -> per tag interval check. returns list of (a,b,specialised)"""
    out = []
    for a, b in [(0, 252), (253, 253), (254, 254), (255, 255)]:
        lo = normalize(intv.specialise(tree_of_ni, {ni: a}))
        hi = normalize(intv.specialise(tree_of_ni, {ni: b}))
        out.append((a, b, lo, hi))
    return out


def _check_reader_value(ctx, q, fn, tagrange, val, src, width):
    """val must be bytes2int(src[1:1+width], 'little')"""
    ok = (isinstance(val, tuple) and val[0] == 'bytes2int' and val[2] == 'little' and
          val[1] == ('slice', src, 1, 1 + width, None))
    if ok:
        return
    if isinstance(val, tuple) and val[0] == 'bytes2int' and isinstance(val[1], tuple) and val[1][0] == 'slice' and val[1][1] == src:
        sl = val[1]
        if val[2] != 'little':
            ctx.violate(q, 'tag %d: value decoded big-endian' % tagrange[0], fn)
            return
        if sl[2] != 1 or sl[3] != 1 + width:
            ctx.violate(q, 'tag %d: value read from bytes [%s:%s], CompactSize uses [1:%d]' % (tagrange[0], show(sl[2]), show(sl[3]), 1 + width), fn)
            return
    ctx.undecided('%s: value for tag %s not recognised: %s' % (q, tagrange, show(val)))


@PROP.obligation('C18.readers', canaries=[
    mut.const('encoding', 'varbyteint_to_int', 253, 252, 'reader: literal range < 253 -> < 252'),
    mut.const('encoding', 'varbyteint_to_int', 4, 2, 'reader: tag fe width 4 -> 2', nth=0),
    mut.const('encoding', 'varbyteint_to_int', 'big', 'little', 'reader: endianness flipped'),
    mut.const('encoding', 'read_varbyteint_return', 8, 4, 'raw reader: tag ff width 8 -> 4'),
    mut.replace_expr('encoding', 'read_varbyteint_return', 'pos + size + 1', 'pos + size', 'raw reader: consumes one byte too few'),
    mut.replace_expr('encoding', 'read_varbyteint', 'pos + size', 'pos + size + 1', 'read_varbyteint: seeks one byte too far'),
])
def readers(ctx):
    """varbyteint_to_int / read_varbyteint_return / read_varbyteint: tag<253 literal; 253/254/255 -> 2/4/8 LE bytes;
    consumed size = width+1; the raw variant returns exactly the consumed bytes and leaves the stream after them."""
    repo = ctx.repo
    widths = {253: 2, 254: 4, 255: 8}
    # --- varbyteint_to_int
    q = 'encoding:varbyteint_to_int'
    fn = repo.func(q)
    it = Interp(repo, 'encoding', decide=_isinst_true)
    src = ('var', 'byteint')
    exits = it.run_function(fn, {'byteint': S(src, 'bytes')})
    rets = [e for e in exits if e.kind == 'return']
    nonempty = [e for e in rets if (('cmp', '==', src, b''), False) in e.pc]
    ctx.require(any((('cmp', '==', src, b''), True) in e.pc and term(e.value) in (('tuple', 0, 0), ('list', 0, 0)) for e in rets) or
                not any((('cmp', '==', src, b''), True) in e.pc for e in rets), q, 'empty input does not map to (0, 0)', fn)
    ni = ('index', src, 0)
    tree = term(it.result_value(nonempty, base_pc_len=1))
    for a, b, lo, hi in _reader_table(ctx, q, tree, ni, 'value,size'):
        ctx.saw('varbyteint_to_int tag %d..%d -> %s' % (a, b, show(lo)))
        if a == 0:
            for tag, t in ((a, lo), (b, hi)):
                ctx.require(t in (('tuple', tag, 1), ('list', tag, 1)), q, 'tag %d (<253) must decode to itself with size 1, got %s' % (tag, show(t)), fn)
        else:
            if not (isinstance(lo, tuple) and lo[0] in ('tuple', 'list') and len(lo) == 3):
                ctx.undecided('varbyteint_to_int result shape')
            _check_reader_value(ctx, q, fn, (a, b), lo[1], src, widths[a])
            ctx.require(lo[2] == widths[a] + 1, q, 'tag %d: reported size %s, CompactSize consumes %d bytes' % (a, show(lo[2]), widths[a] + 1), fn)
    # --- read_varbyteint_return
    q = 'encoding:read_varbyteint_return'
    fn = repo.func(q)
    it = Interp(repo, 'encoding', decide=_isinst_true)
    stream = Stream('s')
    exits = it.run_function(fn, {'s': stream})
    rets = [e for e in exits if e.kind == 'return']
    rd = ('read', ('var', 's.pos0'), 9)
    ni = ('index', rd, 0)
    pos0 = ('var', 's.pos0')
    live = [e for e in rets if any(p[0] == rd and p[1] for p in e.pc) or any(p[0] == ('not', rd) and not p[1] for p in e.pc)]
    if not live:
        ctx.undecided('read_varbyteint_return: cannot find the non-empty path')
    for tag in (0, 252, 253, 254, 255):
        # choose the exit whose pc holds for this tag
        chosen = None
        for e in live:
            try:
                if all(intv.truth_eval(intv.specialise(t, {ni: tag}), {rd: b'x', ('not', rd): False}) == pol for (t, pol) in e.pc if t != rd and t != ('not', rd)):
                    chosen = e
                    break
            except intv.Unknown:
                continue
        if chosen is None:
            ctx.undecided('read_varbyteint_return: no exit for tag %d' % tag)
        val = normalize(intv.specialise(term(chosen.value), {ni: tag}))
        pos = normalize(intv.specialise(term(chosen.heap.get(stream.key)), {ni: tag}))
        ctx.saw('read_varbyteint_return tag %d -> %s, stream at %s' % (tag, show(val), show(pos)))
        if not (isinstance(val, tuple) and len(val) == 3):
            ctx.undecided('read_varbyteint_return result shape')
        w = widths.get(tag, 0)
        if tag < 253:
            ctx.require(val[1] == tag, q, 'tag %d must decode to itself, got %s' % (tag, show(val[1])), fn)
        else:
            _check_reader_value(ctx, q, fn, (tag, tag), val[1], rd, w)
        raw = flatten_cat(val[2])
        exp_raw = [('slice', rd, None, 1, None)] + ([('slice', rd, 1, 1 + w, None)] if w else [])
        ctx.require(raw == exp_raw or raw == [('slice', rd, None, 1 + w, None)], q,
                    'tag %d: raw bytes returned are %s, expected the %d consumed bytes' % (tag, show(val[2]), 1 + w), fn)
        ctx.require(pos == ('binop', '+', pos0, 1 + w), q,
                    'tag %d: stream left at %s, expected start + %d' % (tag, show(pos), 1 + w), fn)
    # --- read_varbyteint delegates to varbyteint_to_int and seeks pos + size
    q = 'encoding:read_varbyteint'
    fn = repo.func(q)
    it = Interp(repo, 'encoding')
    stream = Stream('s')
    exits = it.run_function(fn, {'s': stream})
    rets = [e for e in exits if e.kind == 'return']
    # a read may return fewer bytes than requested (the integer lies within the last bytes of the stream): a rewind RELATIVE to the
    # current position that is computed from the requested count overshoots there; only an absolute seek from a tell() taken before
    # the read, or a relative one that uses len(<bytes read>), is right at the end of the stream
    for mq in ('encoding:read_varbyteint', 'encoding:read_varbyteint_return'):
        mf = repo.func(mq)
        over = [c for c in ast.walk(mf) if isinstance(c, ast.Call) and isinstance(c.func, ast.Attribute) and c.func.attr == 'read' and c.args and isinstance(c.args[0], ast.Constant) and c.args[0].value > 1]
        for c in ast.walk(mf):
            if isinstance(c, ast.Call) and isinstance(c.func, ast.Attribute) and c.func.attr == 'seek' and len(c.args) == 2 and isinstance(c.args[1], ast.Constant) and c.args[1].value == 1:
                uses_len = any(isinstance(x, ast.Call) and isinstance(x.func, ast.Name) and x.func.id == 'len' for x in ast.walk(c.args[0]))
                if over and not uses_len:
                    ctx.violate(mq, 'after reading ahead (`%s`) the stream is rewound relative to the current position by `%s`, which assumes the full count was read' % (norm(over[0]), norm(c.args[0])), c,
                                'a multi-byte CompactSize within the last 8 bytes of a stream leaves the position wrong: the next read decodes old bytes again')
    if len(rets) != 1:
        ctx.undecided('read_varbyteint has %d return paths' % len(rets))
    e = rets[0]
    call = ('call', 'varbyteint_to_int', (rd,), ())
    pos = normalize(term(e.heap.get(stream.key)))
    ctx.saw('read_varbyteint -> %s, stream at %s' % (show(term(e.value)), show(pos)))
    ctx.require(term(e.value) == ('index', call, 0), q, 'does not return the value decoded by varbyteint_to_int from the 9 bytes read', fn)
    ctx.require(pos == ('binop', '+', pos0, ('index', call, 1)), q, 'stream left at %s, expected start + decoded size' % show(pos), fn)


@PROP.obligation('C18.pushdata', canaries=[
    mut.cmpop('scripts', 'data_pack', 'len(data) <= 75', ast.Lt, 'data_pack: <= 75 -> < 75'),
    mut.const('scripts', 'data_pack', 255, 256, 'data_pack: pushdata1 upper bound 255 -> 256'),
    mut.const('scripts', 'data_pack', 'little', 'big', 'data_pack: pushdata2 length big-endian', nth=1),
    mut.const('scripts', 'data_pack', b'M', b'L', 'data_pack: pushdata2 opcode -> pushdata1'),
    mut.const('scripts', 'Script.parse_bytesio', 'little', 'big', 'script reader: pushdata2 length big-endian', nth=1),
    mut.const('scripts', 'Script.parse_bytesio', 75, 76, 'script reader: direct push range 1..76', nth=0),
    mut.insert_before('scripts', 'data_pack', 'if len(data) <= 75:', "if not data:\n    return b''", 'empty push dropped'),
    mut.insert_before('scripts', 'Script.parse_bytesio', 'data = script.read(data_length)', "if data_length > 520 and strict:\n    raise ScriptError('too long')", 'parser refuses pushes above 520 bytes'),
])
def pushdata(ctx):
    """data_pack: <=75 direct, 76..255 4c+1 byte, 256..65535 4d+LE2; Script.parse_bytesio reads 1..75 direct,
    4c + 1 byte, 4d + 2 bytes little-endian (same table) and accepts every push length the encodings can carry: no refusal decided by
    comparing the decoded length with a constant (the 520-byte element limit is an execution rule, not a wire rule)."""
    repo = ctx.repo
    pf = repo.func('scripts:Script.parse_bytesio')
    for n_ in ast.walk(pf):
        if isinstance(n_, ast.If) and any(isinstance(x, ast.Raise) for x in n_.body):
            for c_ in ast.walk(n_.test):
                if isinstance(c_, ast.Compare) and len(c_.ops) == 1 and isinstance(c_.ops[0], (ast.Gt, ast.GtE, ast.Lt, ast.LtE)):
                    sides = [c_.left, c_.comparators[0]]
                    if any(isinstance(x, ast.Name) and x.id == 'data_length' for x in sides) and any(isinstance(x, ast.Constant) and isinstance(x.value, int) for x in sides):
                        ctx.violate('scripts:Script.parse_bytesio', 'a data push is refused when `%s`: PUSHDATA1 / PUSHDATA2 carry up to 255 / 65535 bytes and data_pack / serialize emit them' % norm(c_), n_,
                                    'the library cannot parse a script it serialised itself (any item of 521..65535 bytes)')
    q = 'scripts:data_pack'
    fn = repo.func(q)
    it = Interp(repo, 'scripts')
    data = ('var', 'data')
    ln = ('len', data)
    exits = it.run_function(fn, {'data': S(data, 'bytes')})
    tree = term(it.result_value(exits, include_raises=True))
    expected = [(0, 75, b'', 1), (76, 255, b'\x4c', 1), (256, 65535, b'\x4d', 2)]
    got = []
    for a, b, leaf in intv.partition(tree, ln, 0, 65535):
        ctx.saw('data_pack len [%d, %d] -> %s' % (a, b, show(leaf)))
        parts = flatten_cat(leaf)
        if isinstance(leaf, bytes):
            # a constant result: only right for the empty push, which is the single byte 00
            if not (a == b == 0 and leaf == b'\x00'):
                ctx.violate(q, 'data of %d..%d bytes is packed as the constant %s: the item is dropped from the script (an empty push is the byte 00)' % (a, b, leaf.hex() or "b''"), fn,
                            'Script([OP_DUP, b"", OP_EQUAL]).serialize() loses the empty push: another script, another hash, fewer items when parsed back')
            continue
        if isinstance(leaf, tuple) and leaf and leaf[0] == 'call' and leaf[1] in ('varstr',) and leaf[2] and leaf[2][0] == data:
            # the CompactSize helper is no push encoder: it returns the single byte 00 unprefixed (the library's marker for an empty
            # witness item, known finding D14) and switches to fd / fe / ff prefixes where a script needs 4c / 4d
            ctx.violate(q, 'data of %d..%d bytes is packed with %s(data): the item 00 becomes the bytes `00` (OP_0, an empty push) instead of `01 00`' % (a, b, leaf[1]), fn,
                        'Script([OP_RETURN, b"\\x00"]).serialize() is 6a00 instead of 6a0100: parsing it back gives opcode 0, not the item')
            continue
        if not parts or parts[-1] != data:
            ctx.undecided('data_pack leaf does not end with the data: %s' % show(leaf))
        pw = _leaf_prefix_width(('cat', tuple(parts[:-1])), ln)
        if pw is None:
            ctx.undecided('data_pack leaf prefix not recognised: %s' % show(leaf))
        got.append((a, b) + pw)
    for (a, b, pre, w) in expected:
        for (ga, gb, gpre, gw, gorder) in got:
            lo, hi = max(a, ga), min(b, gb)
            if lo > hi:
                continue
            if gpre != pre or gw != w:
                ctx.violate(q, 'lengths %d..%d are pushed with %s + %d length byte(s); minimal push is %s + %d' % (
                    lo, hi, gpre.hex() or 'no opcode', gw, pre.hex() or 'no opcode', w), fn)
            elif gw > 1 and gorder != 'little':
                ctx.violate(q, 'lengths %d..%d: pushdata length written big-endian' % (lo, hi), fn)
            if isinstance(gw, int) and hi >= 256 ** gw:
                ctx.violate(q, 'length %d does not fit in %d byte(s)' % (hi, gw), fn)
    # reader side
    q = 'scripts:Script.parse_bytesio'
    fn = repo.func(q)
    chain = None
    for n in walk_no_nested(fn):
        if isinstance(n, ast.If) and any(isinstance(x, ast.Name) and x.id == 'ch' for x in ast.walk(n.test)) and \
                any(isinstance(s, ast.Assign) and isinstance(s.targets[0], ast.Name) and s.targets[0].id == 'data_length' for s in n.body):
            chain = n
            break
    if chain is None:
        ctx.undecided('push-opcode chain (if on ch assigning data_length) not found in Script.parse_bytesio')
    it = Interp(repo, 'scripts')
    st = State(env={'ch': S(('var', 'ch'), 'int'), 'script': Stream('script'), 'data_length': 0})
    it.frames.append([])
    end = it.exec_if(chain, st)
    if end is None:
        ctx.undecided('push-opcode chain always exits')
    tree = term(end.env['data_length'])
    ch = ('var', 'ch')
    rd = lambda n: ('bytes2int', ('read', ('var', 'script.pos0'), n), 'little')
    exp = {(1, 75): ch, (76, 76): rd(1), (77, 77): rd(2)}
    for a, b, leaf in intv.partition(tree, ch, 0, 255):
        leaf = normalize(leaf)
        ctx.saw('script reader opcode [%d, %d] -> data length %s' % (a, b, show(leaf)))
        for (ea, eb), el in exp.items():
            lo, hi = max(a, ea), min(b, eb)
            if lo > hi:
                continue
            if leaf != el:
                ctx.violate(q, 'opcode %d..%d: data length taken as %s, expected %s' % (lo, hi, show(leaf), show(el)), chain,
                            'reader disagrees with data_pack for that push form')
        if leaf != 0 and not any(max(a, ea) <= min(b, eb) for (ea, eb) in exp):
            ctx.violate(q, 'opcode %d..%d is treated as a data push of length %s' % (a, b, show(leaf)), chain)


@PROP.obligation('C18.prefix-total')
def prefix_total(ctx):
    """varstr emits CompactSize(len(s)) . s on ALL paths (a length-prefixed writer must be total)."""
    q = 'encoding:varstr'
    fn = ctx.repo.func(q)
    hooks = {k: v for k, v in LAYOUT_HOOKS.items() if k != 'varstr'}
    it = Interp(ctx.repo, 'encoding', hooks=hooks)
    exits = it.run_function(fn, {})
    for e in exits:
        if e.kind != 'return':
            continue
        v = term(e.value)
        parts = flatten_cat(v)
        cond = ' and '.join(('' if pol else 'not ') + show(t) for t, pol in e.pc) or 'always'
        ctx.saw('varstr returns %s when %s' % (show(v), cond))
        ok = len(parts) == 2 and isinstance(parts[0], tuple) and parts[0][0] == 'varint' and parts[0][1] == ('len', parts[1])
        if not ok:
            ctx.violate(q, 'returns %s without length prefix when %s' % (show(v), cond), e.node,
                        'a one-byte 0x00 script or witness item is written as 00 (= empty string) and cannot round-trip')


@PROP.obligation('C18.len-provenance')
def len_provenance(ctx):
    """In Script.parse_bytesio every script.read(N) takes N from the stream (push opcode / pushdata length bytes)
    or a constant, never from the caller-supplied total length."""
    q = 'scripts:Script.parse_bytesio'
    fn = ctx.repo.func(q)
    rd = ReachingDefs(fn)
    n_reads = 0
    for call in calls_in(fn, 'read'):
        if not (isinstance(call.func, ast.Attribute) and isinstance(call.func.value, ast.Name) and call.func.value.id == 'script'):
            continue
        if not call.args:
            continue
        n_reads += 1
        nid = rd.node_of_ast(call)
        if nid is None:
            ctx.undecided('cannot place script.read call in CFG')
        leaves = rd.leaves(call.args[0], nid)
        params = sorted(x[1] for x in leaves if x[0] == 'param' and x[1] != 'script')
        from_stream = any(x[0] == 'call' and x[1].endswith('.read') for x in leaves) or any(x == ('name', 'ch') or x[0] == 'cut' for x in leaves)
        ctx.saw('script.read(%s) <- %s' % (unparse(call.args[0]), sorted(str(x) for x in leaves)))
        if params and not from_stream:
            # the branch test of the innermost enclosing if/elif identifies the site
            gtxt = ''
            for n in walk_no_nested(fn):
                if isinstance(n, ast.If) and any(sub is call for st_ in n.body for sub in ast.walk(st_)):
                    gtxt = norm(n.test)
            ctx.violate(q, 'length of script.read(%s) derives only from parameter %s [branch: %s]' % (norm(call.args[0]), ','.join(params), gtxt), call,
                        'a data item boundary is guessed from the total script length instead of the push opcode')
    ctx.floor(n_reads, 4, 'script.read(n) calls')


@PROP.obligation('C18.scriptnum', canaries=[
    mut.const('scripts', 'encode_num', 'little', 'big', 'encode_num: big-endian magnitude'),
    mut.const('scripts', 'encode_num', b'\x80', b'\x00', 'encode_num: negative pad byte 80 -> 00'),
    mut.const('scripts', 'decode_num', 0x7f, 0xff, 'decode_num: mask 7f -> ff'),
    mut.const('scripts', 'decode_num', 'little', 'big', 'decode_num: big-endian', nth=0),
    mut.replace_expr('scripts', 'decode_num', '-num', 'num', 'decode_num: sign dropped'),
    mut.replace_stmt('scripts', 'encode_num', "return b''", "return b'\\x00'", 'encode_num: zero -> 00'),
    mut.replace_expr('scripts', 'encode_num', 'encoded[-1] & 128', 'encoded[-1] >= 127', 'encode_num: sign-byte test >= 0x7f'),
    mut.replace_stmt('scripts', 'decode_num', 'negative = False', 'if len(encoded) > 4:\n    raise ScriptError("overflow")\nnegative = False', 'decode_num refuses 5-byte numbers'),
])
def scriptnum(ctx):
    """encode_num: 0 -> empty; little-endian magnitude of abs(num); sign in bit 7 of the last byte, extra byte (80 /
    00) when bit 7 is occupied. decode_num: empty -> 0; sign test on bit 7 of last byte; mask 0x7f; little-endian; negate."""
    repo = ctx.repo
    q = 'scripts:encode_num'
    fn = repo.func(q)
    it = Interp(repo, 'scripts')
    num = ('var', 'num')
    exits = it.run_function(fn, {'num': S(num, 'int')})
    rets = [e for e in exits if e.kind == 'return']
    zero = [e for e in rets if (('cmp', '==', num, 0), True) in e.pc]
    if not zero:
        ctx.undecided('encode_num: no branch for num == 0')
    ctx.saw('encode_num(0) -> %s' % show(term(zero[0].value)))
    ctx.require(term(zero[0].value) == b'', q, 'zero is encoded as %s, consensus encodes zero as the empty vector' % show(term(zero[0].value)), zero[0].node)
    rest = [e for e in rets if e not in zero]
    if len(rest) != 1:
        ctx.undecided('encode_num: %d non-zero return paths' % len(rest))
    t = term(rest[0].value)
    ctx.saw('encode_num(n != 0) -> %s' % show(t))
    mags = [s for s in subterms(t) if isinstance(s, tuple) and s and s[0] == 'int2bytes' and s[1] == ('call', 'abs', (num,), ())]
    if not mags:
        ctx.undecided('encode_num: magnitude serialisation not found')
    for m in mags:
        ctx.require(m[3] == 'little', q, 'magnitude is serialised %s-endian' % m[3], fn)
    mag = mags[0]
    last = ('index', mag, -1)
    if not (isinstance(t, tuple) and t[0] == 'cond'):
        # written in another shape (mutable byte buffer, ...): evaluate the function on the numbers around every byte and sign-bit boundary
        # and compare with the minimal sign-magnitude encoding consensus prescribes
        def ref(n_):
            if n_ == 0:
                return b''
            a_ = abs(n_)
            out = a_.to_bytes((a_.bit_length() + 7) // 8, 'little')
            if out[-1] & 0x80:
                out += b'\x80' if n_ < 0 else b'\x00'
            elif n_ < 0:
                out = out[:-1] + bytes([out[-1] | 0x80])
            return out
        grid = sorted(set(x * sgn for sgn in (1, -1) for k in (7, 8, 15, 16, 23, 24, 31) for x in (2 ** k - 2, 2 ** k - 1, 2 ** k, 2 ** k + 1)) | {1, -1, 2, -2, 100000, -100000, 0x7f00, 0x7fff, 0x7f0000, 0x7f000000})
        bad = []
        for n_ in grid:
            it2 = Interp(repo, 'scripts')
            it2.concrete_bytes = True
            try:
                ex2 = it2.run_function(fn, {'num': n_})
            except AnalysisError as e:
                ctx.undecided('encode_num: result is not a choice on the top bit and the function is not evaluable for %d: %s' % (n_, str(e)[:80]))
            vals = [term(e.value) for e in ex2 if e.kind == 'return']
            if len(vals) != 1 or not isinstance(vals[0], bytes):
                ctx.undecided('encode_num(%d) evaluates to %s' % (n_, [show(v)[:60] for v in vals]))
            if vals[0] != ref(n_):
                bad.append((n_, vals[0].hex(), ref(n_).hex()))
        ctx.saw('encode_num evaluated on %d boundary numbers; differing from the minimal encoding: %s' % (len(grid), bad[:4]))
        if bad:
            ctx.violate(q, 'encode_num(%d) is %s, the minimal script number is %s (and %d more boundary numbers differ)' % (bad[0][0], bad[0][1], bad[0][2], len(bad) - 1), fn,
                        'results of arithmetic opcodes whose top magnitude byte hits these values get another byte string: `126 1ADD 0x7f EQUAL` fails, non-minimal encodings compare equal')
        return
    # the choice must be "bit 7 of the last magnitude byte is set": decide it exhaustively over the byte domain
    wrong = []
    for b in range(256):
        try:
            v = bool(intv.truth_eval(intv.specialise(t[1], {last: b}), {}))
        except (intv.Unknown, TypeError, KeyError):
            ctx.undecided('encode_num: top-bit test not a function of the last byte: %s' % show(t[1])[:120])
        if v != (b >= 0x80):
            wrong.append(b)
    if wrong:
        ctx.violate(q, 'the test deciding whether an extra sign byte is needed (%s) is wrong for last magnitude byte %s: consensus tests bit 7 (0x80)' % (
            show(t[1]).replace(show(last), 'last'), ', '.join('%#x' % b for b in wrong[:4])), fn,
            'numbers whose top magnitude byte hits those values get a non-minimal / wrong encoding')
        return
    neg = ('cmp', '<', num, 0)
    occupied, free = t[2], t[3]
    exp_occ = ('cat', (mag, ('cond', neg, b'\x80', b'\x00')))
    ctx.require(occupied == exp_occ, q, 'when bit 7 of the last byte is occupied the result is %s; expected magnitude followed by 80 (negative) / 00 (positive)' % show(occupied), fn)
    ok_free = (isinstance(free, tuple) and free[0] == 'cond' and free[1] == neg and free[3] == mag and
               free[2] in [('cat', (('slice', mag, None, -1, None), ('int2bytes', ('binop', o, last, 0x80), 1, e))) for o in ('+', '|') for e in ('big', 'little')])
    ctx.require(ok_free, q, 'when bit 7 is free the result is %s; expected sign carried in bit 7 of the last byte for negatives and the bare magnitude otherwise' % show(free), fn)
    # decode
    q = 'scripts:decode_num'
    fn = repo.func(q)
    it = Interp(repo, 'scripts')
    enc = ('var', 'encoded')
    exits = it.run_function(fn, {'encoded': S(enc, 'bytes')})
    rets = [e for e in exits if e.kind == 'return']
    empty = [e for e in rets if (('cmp', '==', enc, b''), True) in e.pc]
    ctx.require(bool(empty) and term(empty[0].value) == 0, q, 'empty vector does not decode to 0', fn)
    # total on every encoding encode_num produces: 1..5 bytes (+-2^31 and BIP65 lock times up to 2^32-1 need five)
    for e in exits:
        if e.kind != 'raise':
            continue
        for size in (1, 2, 3, 4, 5):
            decided = []
            for (t, pol) in e.pc:
                try:
                    val = intv.truth_eval(intv.specialise(t, {('len', enc): size, ('cmp', '==', enc, b''): False}), {})
                    decided.append(None if isinstance(val, tuple) else bool(val) == pol)
                except (intv.Unknown, KeyError, TypeError, ZeroDivisionError):
                    decided.append(None)
            if decided and all(d is True for d in decided):
                ctx.violate(q, 'raises for every encoding of %d bytes (%s)' % (size, ' and '.join(('' if pol else 'not ') + show(t) for t, pol in e.pc)[:160]), e.node or fn,
                            'encode_num produces up to 5 bytes for |n| >= 2^31 (results of ADD / SUB / NEGATE on 4-byte operands) and BIP65 lock times up to 2^32-1 need five: decode_num(encode_num(n)) fails; the 4-byte operand limit belongs to is_arithmetic')
                return
            if not any(d is False for d in decided):
                ctx.unsure('decode_num: raises on a path not excluded for %d-byte encodings: %s' % (size, ' and '.join(('' if pol else 'not ') + show(t) for t, pol in e.pc)[:160]))
    rest = [e for e in rets if e not in empty]
    v = term(it.result_value(rest, base_pc_len=1))
    ctx.saw('decode_num(non-empty) -> %s' % show(v))
    last = ('index', enc, -1)
    body = ('bytes2int', ('cat', (('slice', enc, None, -1, None), ('int2bytes', ('binop', '&', last, 0x7f), 1, 'big'))), 'little')
    body2 = ('bytes2int', ('cat', (('slice', enc, None, -1, None), ('int2bytes', ('binop', '&', last, 0x7f), 1, 'little'))), 'little')
    sign = ('binop', '&', last, 0x80)
    def strip(test):
        # the sign flag is usually stored in a bool variable first
        if isinstance(test, tuple) and test[0] == 'cond' and test[2] is True and test[3] is False:
            return test[1]
        return test
    if isinstance(v, tuple) and v[0] == 'cond':
        test = strip(v[1])
        neg_v, pos_v = v[2], v[3]
        if test != sign:
            if isinstance(test, tuple) and test[0] == 'binop' and test[1] == '&' and test[2] == last:
                ctx.violate(q, 'sign test masks with %s instead of 0x80' % show(test[3]), fn)
            else:
                ctx.undecided('decode_num: sign test not recognised: %s' % show(test))
        for val, negated in ((neg_v, True), (pos_v, False)):
            inner = val
            if negated:
                if isinstance(val, tuple) and val[0] == 'unop' and val[1] == 'USub':
                    inner = val[2]
                else:
                    ctx.violate(q, 'value is not negated when the sign bit is set: %s' % show(val), fn)
            if inner not in (body, body2):
                # classify the deviation
                if isinstance(inner, tuple) and inner[0] == 'bytes2int' and inner[2] != 'little':
                    ctx.violate(q, 'magnitude decoded %s-endian' % inner[2], fn)
                elif has_mask(inner, last) not in (None, 0x7f):
                    ctx.violate(q, 'last byte masked with %#x instead of 0x7f' % has_mask(inner, last), fn)
                else:
                    ctx.undecided('decode_num: magnitude expression not recognised: %s' % show(inner))
    elif v in (body, body2):
        ctx.violate(q, 'result does not depend on the sign bit: negative numbers decode as positive', fn)
    else:
        ctx.undecided('decode_num: result is not a sign-dependent choice: %s' % show(v))


def has_mask(t, last):
    for s in subterms(t):
        if isinstance(s, tuple) and s and s[0] == 'binop' and s[1] == '&' and s[2] == last and isinstance(s[3], int):
            return s[3]
    return None


@PROP.obligation('C18.serialize', canaries=[
    mut.replace_expr('scripts', 'Script.serialize', 'data_pack(bytes(cmd))', 'varstr(bytes(cmd))', 'Script.serialize: data through varstr'),
])
def serialize(ctx):
    """Script.serialize emits every int command as that single byte and every data command through data_pack."""
    q = 'scripts:Script.serialize'
    fn = ctx.repo.func(q)
    it = Interp(ctx.repo, 'scripts')
    exits = it.run_function(fn, {})
    rets = [e for e in exits if e.kind == 'return']
    if len(rets) != 1:
        ctx.undecided('Script.serialize has %d return paths' % len(rets))
    v = term(rets[0].value)
    ctx.saw('Script.serialize -> %s' % show(v))
    cmds = ('attr', ('var', 'self'), 'commands')
    el = ('elem', cmds, 'cmd')
    exp_int = [('bytes', ('list', el)), ('int2bytes', el, 1, 'big'), ('int2bytes', el, 1, 'little')]
    ok = (isinstance(v, tuple) and v[0] == 'repeat' and v[1] == cmds and isinstance(v[3], tuple) and v[3][0] == 'cond'
          and v[3][1] == ('isinstance', el, ('global', 'int')))
    if not ok:
        ctx.undecided('Script.serialize is not a per-command choice on isinstance(cmd, int): %s' % show(v))
    ctx.require(v[3][2] in exp_int, q, 'int command serialised as %s, expected the single byte' % show(v[3][2]), fn)
    data = v[3][3]
    good = [('call', 'data_pack', (('bytes', el),), ()), ('call', 'data_pack', (el,), ())]
    ctx.require(data in good, q, 'data command serialised as %s, expected data_pack(cmd)' % show(data), fn,
                'pushes would not be minimal / not re-parsable')


@PROP.obligation('C18.nulldata-guard', canaries=[
    mut.replace_expr('scripts', 'Script.parse_bytesio', 'commands[-2] == op.op_return', 'commands[-1] == op.op_return', 'OP_RETURN guard looks at the data item itself'),
])
def nulldata_guard(ctx):
    """Script.parse_bytesio: a data item that follows OP_RETURN is kept as data and never handed to the speculative nested-script parse.
    The guard is evaluated right after the item was appended: with commands = [OP_RETURN, <item>] it must be true, with
    [OP_DUP, <item>] false - i.e. it looks at the command BEFORE the item."""
    q = 'scripts:Script.parse_bytesio'
    fn = ctx.repo.func(q)
    tests = [n for n in ast.walk(fn) if isinstance(n, ast.If) and 'op.op_return' in unparse(n.test) and 'commands' in unparse(n.test)]
    if len(tests) != 1:
        ctx.undecided('parse_bytesio: OP_RETURN guard not found')
    it = Interp(ctx.repo, 'scripts')
    res = {}
    for name, first in (('OP_RETURN', 0x6a), ('OP_DUP', 0x76)):
        st = State(env={'commands': [first, S(('var', 'data'), 'bytes')], 'data': S(('var', 'data'), 'bytes')})
        v = it.truth(it.eval(tests[0].test, st), st)
        res[name] = v if isinstance(v, bool) else show(term(v))[:60]
    ctx.saw('guard `%s` with the item just appended: %s' % (norm(tests[0].test), res))
    ctx.require(res['OP_RETURN'] is True, q, 'after OP_RETURN the guard evaluates to %s: the payload goes on to the nested-script parse' % res['OP_RETURN'], tests[0],
                'an OP_RETURN payload whose bytes parse as a script (e.g. 5152535455) is replaced by a nested command list: the type is no longer nulldata and serialize() differs or raises')
    ctx.require(res['OP_DUP'] is False, q, 'the guard is true although the previous command is not OP_RETURN', tests[0])


@PROP.obligation('C18.serialisers-fresh', canaries=[
    mut.insert_before('scripts', 'Script.serialize', "raw = b''", 'if self._raw:\n    return self._raw', 'Script.serialize answers with the bytes stored earlier'),
])
def serialisers_fresh(ctx):
    """Script.serialize / serialize_list (and the transaction serialisers) re-encode the current commands: they never answer with the bytes
    stored by parse or by `+` (Script._raw), which nothing invalidates when the commands change."""
    from .common_fresh import serialisers_fresh as run
    run(ctx)


@PROP.obligation('C18.length-hint', canaries=[
    mut.replace_expr('scripts', 'Script.parse', 'len(script) // 2', 'len(script)', 'hex wrapper hands the number of hex characters as the script length'),
    mut.replace_expr('scripts', 'Script.parse_bytes', 'len(script)', 'len(script) // 2', 'bytes wrapper hands half the script length'),
])
def length_hint(ctx):
    """Script.parse / parse_hex / parse_bytes build the stream and tell parse_bytesio how long the script is (data_length); the parser uses
    that number to decide whether the WHOLE input is one bare key / signature / 64-byte item. Each wrapper is evaluated on concrete
    scripts given as bytes and as hex text: the length handed over is the number of BYTES in the stream it built - not the number of hex
    characters, not half the bytes - and the stream holds exactly the script."""
    raw = bytes(range(0x51, 0x51 + 16)) * 2          # 32 opcodes: with a doubled length hint (64) the parser reads them as one data item
    n = 0
    for meth, arg in (('parse', raw), ('parse', raw.hex()), ('parse_hex', raw.hex()), ('parse_bytes', raw)):
        q = 'scripts:Script.' + meth
        fn = ctx.repo.func(q)
        seen = []

        def hook(it, base, args, kwargs, st, node):
            seen.append((args, kwargs, node))
            return S(('var', 'script_obj'))
        hooks = {'.parse_bytesio': hook, 'BytesIO': lambda it, a, kw, st, node: S(('stream', term(a[0]) if a else None))}
        it = Interp(ctx.repo, 'scripts', hooks=hooks)
        try:
            it.run_function(fn, {'cls': S(('var', 'cls')), 'script': arg})
        except AnalysisError as e:
            ctx.undecided('Script.%s on a %s argument not evaluable: %s' % (meth, type(arg).__name__, str(e)[:100]))
        if len(seen) != 1:
            ctx.undecided('Script.%s on a %s argument: %d calls of parse_bytesio' % (meth, type(arg).__name__, len(seen)))
        args, kwargs, node = seen[0]
        params = [a.arg for a in ctx.repo.func('scripts:Script.parse_bytesio').args.args][1:]
        bound = dict(zip(params, args))
        bound.update(kwargs)
        dl = bound.get('data_length')
        stream = term(bound.get('script'))
        n += 1
        ctx.saw('Script.%s(%s of %d bytes) -> parse_bytesio(stream of %s, data_length=%s)' % (meth, 'hex text' if isinstance(arg, str) else 'bytes', len(raw),
                                                                                           '%d bytes' % len(stream[1]) if isinstance(stream, tuple) and stream[0] == 'stream' and isinstance(stream[1], bytes) else show(stream)[:30], show(term(dl))[:20]))
        ctx.require(isinstance(stream, tuple) and stream[0] == 'stream' and stream[1] == raw, q, 'the stream handed to parse_bytesio does not hold exactly the script (%s)' % show(stream)[:60], node)
        ctx.require(dl in (len(raw), None, 0), q, 'a script of %d bytes given as %s is announced with data_length=%s' % (len(raw), 'hex text' if isinstance(arg, str) else 'bytes', show(term(dl))[:20]), node,
                    "Script.parse('51' * 32) reads 32 one-byte opcodes as ONE 32-byte data item (length hint 64): parse then serialize does not reproduce the script")
    ctx.floor(n, 4, 'wrapper scenarios')


def _script_num(v):
    """reference encoding of a script number (CScriptNum::serialize)"""
    if v == 0:
        return b''
    neg, a = v < 0, abs(v)
    out = bytearray()
    while a:
        out.append(a & 0xff)
        a >>= 8
    if out[-1] & 0x80:
        out.append(0x80 if neg else 0)
    elif neg:
        out[-1] |= 0x80
    return bytes(out)


@PROP.obligation('C18.text-numbers', canaries=[
    mut.replace_expr('scripts', 'Script.parse_str', 'encode_num(ival)', 'int_to_varbyteint(ival)', 'numbers in script text encoded as CompactSize'),
    mut.replace_expr('scripts', 'Script.parse_str', 'encode_num(ival)', "ival.to_bytes((ival.bit_length() + 7) // 8, 'little')", 'numbers in script text encoded without the sign byte'),
])
def text_numbers(ctx):
    """Script.parse_str turns a decimal number in the script text into a data item. That item is the SCRIPT NUMBER of the value
    (little endian, sign bit in the top byte - 200 is c8 00, not c8, which reads as -72), not its CompactSize (fd 2c 01 for 300). The
    function is evaluated on a text with numbers around every width boundary; each item must decode back to the number written."""
    q = 'scripts:Script.parse_str'
    fn = ctx.repo.func(q)
    nums = [1, 5, 16, 17, 127, 128, 200, 255, 256, 300, 32767, 32768, 65535, 65536, 8388607, 8388608]
    seen = []

    def hook(it, args, kwargs, st, node):
        seen.append(args[0] if args else None)
        return S(('var', 'script_obj'))
    it = Interp(ctx.repo, 'scripts', hooks={'cls': hook}, inline=['int_to_varbyteint', 'encode_num'])
    it.concrete_bytes = True
    try:
        it.run_function(fn, {'cls': S(('var', 'cls')), 'script': ' '.join(str(x) for x in nums) + ' OP_DROP'})
    except AnalysisError as e:
        ctx.undecided('Script.parse_str not evaluable on a text with numbers: %s' % str(e)[:100])
    if len(seen) != 1 or not isinstance(seen[0], list) or len(seen[0]) != len(nums) + 1:
        ctx.undecided('Script.parse_str: the item list handed to the constructor was not captured (%s)' % show(term(seen[0]) if seen else None)[:60])
    bad = 0
    for v, item in zip(nums, seen[0]):
        item = bytes(item) if isinstance(item, (list, bytearray)) and all(isinstance(b, int) for b in item) else item
        if not isinstance(item, bytes):
            ctx.undecided('Script.parse_str: item for the number %d is %s' % (v, show(term(item))[:40]))
        ok = item == _script_num(v) or (1 <= v <= 16 and item == bytes([v]))
        if not ok:
            bad += 1
            dec = int.from_bytes(item[:-1] + bytes([item[-1] & 0x7f]), 'little') * (-1 if item and item[-1] & 0x80 else 1) if item else 0
            ctx.violate(q, 'the number %d in a script text becomes the data item %s, which reads as the script number %d (script number encoding: %s)' % (v, item.hex(), dec, _script_num(v).hex()), fn,
                        "Script.parse_str('200 OP_DROP') pushes c8 = -72; 300 becomes the CompactSize fd2c01")
    ctx.saw('%d numbers in a script text, %d encoded wrongly' % (len(nums), bad))


from . import c19 as _c19
PROP.obligation('C18.attr-memos')(_c19.attr_memos)


PROP.obligation('C18.small-int-opcodes')(_c19.dispatch)


PROP.obligation('C18.arith-guard')(_c19.arith_guard)
