"""C01 Signed digests equal the consensus sighash (legacy and BIP143) — layout of both preimages and the dispatch."""
import ast

from ..core import Property, AnalysisError, unparse, norm, walk_no_nested
from ..sym import Interp, S, term, show, subterms, State, flatten_cat
from ..layout import LAYOUT_HOOKS, canon_layout, diff_layout, opaque_subterms
from .. import intv, mut
from ..cfg import build_cfg
from . import c18

PROP = Property(
    'C01', 'Layout of the legacy and BIP143 SIGHASH_ALL preimages, dispatch, same digest for sign and verify, script code',
    'Static: Transaction.signature_segwit and Transaction.raw(sign_id, hash_type, "legacy") are evaluated abstractly to layout '
    'terms (field, width, endianness, which hash wraps what, which collection is iterated, which input index) and compared '
    'part by part with BIP143 and with the legacy SignatureHash serialization, using the storage conventions established by the '
    'constructors; the dispatch per witness type, the digest used by sign() and verify(), the P2WPKH script code and the '
    'CompactSize writer are checked as well. Byte VALUES at run time (hash outputs, attribute contents) are not decided.',
    ['double_sha256 is SHA256d', 'attribute contents are what the constructors store (checked under C01.storage)'])

SELF = ('var', 'self')
A = lambda base, name: ('attr', base, name)
INS, OUTS = A(SELF, 'inputs'), A(SELF, 'outputs')
EI, EO = ('elem', INS, '_'), ('elem', OUTS, '_')
H2 = lambda t: ('hash', 'dsha256', t)
LE = lambda x, w: ('int2bytes', x, w, 'little')
REV = lambda x: ('rev', x)
VS = lambda x: ('varstr', x)
VI = lambda x: ('varint', x)
CAT = lambda *p: ('cat', tuple(p))
REP = lambda coll, body: ('repeat', coll, '_', body)


def _cur(sid):
    return ('index', INS, sid)


def _expected_bip143(sid, hash_type_term):
    cur = _cur(sid)
    script_code = ('cond', ('not', A(cur, 'redeemscript')), A(cur, 'locking_script'), A(cur, 'redeemscript'))
    return CAT(
        REV(A(SELF, 'version')),                                                     # nVersion (stored big-endian)
        H2(REP(INS, CAT(REV(A(EI, 'prev_txid')), REV(A(EI, 'output_n'))))),           # hashPrevouts
        H2(REP(INS, LE(A(EI, 'sequence'), 4))),                                       # hashSequence
        REV(A(cur, 'prev_txid')), REV(A(cur, 'output_n')),                            # outpoint
        VS(script_code),                                                             # scriptCode
        LE(A(cur, 'value'), 8),                                                       # amount
        LE(A(cur, 'sequence'), 4),                                                    # nSequence
        H2(REP(OUTS, CAT(LE(A(EO, 'value'), 8), VS(A(EO, 'lock_script'))))),          # hashOutputs
        LE(A(SELF, 'locktime'), 4),                                                   # nLockTime
        hash_type_term)                                                              # sighash type


FIELD_NAMES_143 = ['nVersion', 'hashPrevouts', 'hashSequence', 'outpoint txid', 'outpoint index', 'scriptCode', 'amount', 'nSequence', 'hashOutputs', 'nLockTime', 'sighash type']


def _report_diff(ctx, q, fn, got, exp, what, names=None):
    d = diff_layout(got, exp)
    if not d:
        return True
    pos, gm, em = d[0]
    op = [o for part in gm for o in opaque_subterms(part)]
    gs = ' . '.join(show(x) for x in gm)[:260] or '(nothing)'
    es = ' . '.join(show(x) for x in em)[:260] or '(nothing)'
    fname = names[pos] if names and pos < len(names) else 'part %d' % pos
    # a preimage is a pure function of the transaction fields: reads of other object state (memoised midstates) go stale
    # because the fields are plain attributes that callers and the library itself mutate in place
    allowed = {'version', 'inputs', 'outputs', 'locktime'}
    for part in gm:
        for s_ in subterms(part):
            if isinstance(s_, tuple) and s_[0] == 'attr' and s_[1] == SELF and s_[2] not in allowed:
                ctx.violate(q, '%s, %s: depends on object state self.%s that is not a transaction field (memoised value): %s' % (what, fname, s_[2], gs), fn,
                            'after an in-place change of inputs/outputs/sequence the signed digest is stale')
                return False
            if isinstance(s_, tuple) and s_[0] == 'call' and s_[1] == 'getattr' and s_[2] and s_[2][0] == SELF:
                ctx.violate(q, '%s, %s: depends on object state getattr(self, %s) that is not a transaction field (memoised value)' % (what, fname, show(s_[2][1]) if len(s_[2]) > 1 else '?'), fn,
                            'after an in-place change of inputs/outputs/sequence the signed digest is stale')
                return False
    # sibling agreement: what the digest commits to must be what the serializer writes for the same field
    sib = _writer_bodies(ctx)
    for part in gm:
        if isinstance(part, tuple) and part[0] == 'hash' and isinstance(part[2], tuple) and part[2][0] == 'repeat':
            coll, body = part[2][1], part[2][3]
            key = 'outputs' if coll == OUTS else ('inputs' if coll == INS else None)
            if key == 'outputs' and sib.get('output') is not None and body != sib['output']:
                ctx.violate(q, '%s, %s: hashes each output as %s but Transaction.raw serializes an output as %s' % (what, fname, show(body)[:120], show(sib['output'])[:120]), fn,
                            'the signature commits to bytes that differ from the broadcast transaction whenever the two expressions differ (e.g. non-minimal pushes)')
                return False
    for part in gm:
        for s_ in subterms(part):
            if isinstance(s_, tuple) and s_[0] == 'after-loop':
                ctx.violate(q, '%s, %s: reads the variable %r left over from the loop over %s (its last element, whatever is being signed); consensus requires %s' % (
                    what, fname, s_[3], show(s_[1]), es), fn, 'every input but the last one is signed over the wrong value whenever the elements differ')
                return False
    if op:
        ctx.undecided('%s: %s is built by %s which the layout model cannot interpret' % (what, fname, show(op[0])[:80]))
    ctx.violate(q, '%s, %s: serialized as %s; consensus requires %s' % (what, fname, gs, es), fn,
                'the digest differs from the one every Bitcoin node computes: signatures are invalid on the network')
    return False


_WB = {}


def _writer_bodies(ctx):
    """per-output term that Transaction.raw(sign_id=None) writes (sibling of the hashOutputs body)"""
    key = id(ctx.repo)
    if key in _WB:
        return _WB[key]
    out = {}
    try:
        fn = ctx.repo.func('transactions:Transaction.raw')
        it = Interp(ctx.repo, 'transactions', hooks=LAYOUT_HOOKS, self_cls='transactions:Transaction')
        exits = it.run_function(fn, {'sign_id': None, 'hash_type': 1, 'witness_type': 'legacy'})
        rets = [e for e in exits if e.kind == 'return']
        t = canon_layout(term(rets[0].value))
        for p in flatten_cat(t):
            if isinstance(p, tuple) and p[0] == 'repeat' and p[1] == OUTS:
                out['output'] = p[3]
    except (AnalysisError, IndexError):
        pass
    _WB[key] = out
    return out


@PROP.obligation('C01.bip143', canaries=[
    mut.const('transactions', 'Transaction.signature_segwit', 8, 4, 'BIP143: amount serialized in 4 bytes', nth=2),
    mut.replace_expr('transactions', 'Transaction.signature_segwit', 'self.inputs[sign_id].sequence.to_bytes(4, \'little\')', 'self.inputs[sign_id].sequence.to_bytes(4, \'big\')', 'BIP143: nSequence big-endian'),
    mut.replace_expr('transactions', 'Transaction.signature_segwit', 'hash_prevouts', 'hash_outputs', 'BIP143: hashOutputs in the place of hashPrevouts'),
    mut.replace_expr('transactions', 'Transaction.signature_segwit', 'varstr(self.inputs[sign_id].redeemscript)', 'varstr(self.inputs[sign_id].unlocking_script)', 'BIP143: scriptCode taken from the unlocking script'),
    mut.replace_expr('transactions', 'Transaction.signature_segwit', 'varstr(o.lock_script)', 'varstr(o.script.serialize())', 'BIP143: outputs re-serialized from the parsed script'),
    mut.replace_expr('transactions', 'Transaction.signature_segwit', 'i.output_n[::-1]', 'i.output_n', 'BIP143: outpoint index not reversed in hashPrevouts'),
    mut.replace_expr('transactions', 'Transaction.signature_segwit', 'int(self.inputs[sign_id].value)', 'int(self.outputs[sign_id].value)', 'BIP143: amount of the output with the same index'),
    mut.replace_stmt('transactions', 'Transaction.signature_segwit', 'hash_prevouts = double_sha256(prevouts_serialized)', 'hash_prevouts = self._cache = getattr(self, "_cache", None) or double_sha256(prevouts_serialized)', 'BIP143: hashPrevouts cached on the object'),
    mut.replace_expr('transactions', 'Transaction.signature_segwit', 'self.locktime.to_bytes(4, \'little\')', 'self.locktime.to_bytes(4, \'little\') + b\'\'', 'no-op') if False else
    mut.drop_stmt('transactions', 'Transaction.signature_segwit', 'sequence_serialized += i.sequence.to_bytes', 'BIP143: hashSequence over nothing'),
])
def bip143(ctx):
    """Transaction.signature_segwit with SIGHASH_ALL equals the BIP143 preimage: nVersion . hashPrevouts . hashSequence . outpoint .
    scriptCode . amount . nSequence . hashOutputs . nLockTime . sighash type, every hash over the right collection and every
    per-input field taken from the input being signed."""
    q = 'transactions:Transaction.signature_segwit'
    fn = ctx.repo.func(q)
    sid = ('var', 'sign_id')
    it = Interp(ctx.repo, 'transactions', hooks=LAYOUT_HOOKS, self_cls='transactions:Transaction')
    exits = it.run_function(fn, {'sign_id': S(sid, 'int'), 'hash_type': 1})
    rets = [e for e in exits if e.kind == 'return']
    if len(rets) != 1:
        ctx.undecided('signature_segwit: %d return paths for SIGHASH_ALL' % len(rets))
    got = canon_layout(term(rets[0].value))
    exp = canon_layout(_expected_bip143(sid, (1).to_bytes(4, 'little')))
    for i, p in enumerate(flatten_cat(got)[:11]):
        ctx.saw('%-14s %s' % (FIELD_NAMES_143[i] if i < 11 else i, show(p)[:150]))
    _report_diff(ctx, q, fn, got, exp, 'BIP143 preimage', FIELD_NAMES_143)
    # symbolic hash type: the last field must be the 4-byte little-endian hash type
    it = Interp(ctx.repo, 'transactions', hooks=LAYOUT_HOOKS, self_cls='transactions:Transaction',
                decide=lambda t: (False if isinstance(t, tuple) and t[0] == 'binop' and t[1] == '&' and t[3] == 0x80 else
                                  (True if isinstance(t, tuple) and t[0] == 'cmp' and t[1] == '!=' and isinstance(t[2], tuple) and t[2][:2] == ('binop', '&') else None)))
    exits = it.run_function(fn, {'sign_id': S(sid, 'int'), 'hash_type': S(('var', 'hash_type'), 'int')})
    rets = [e for e in exits if e.kind == 'return']
    if rets:
        last = flatten_cat(canon_layout(term(rets[0].value)))[-1]
        ctx.saw('sighash type field: %s' % show(last))
        ctx.require(last == LE(('var', 'hash_type'), 4), q, 'sighash type is appended as %s, BIP143: 4 bytes little-endian' % show(last), fn)


def _expected_legacy(sid, with_hashtype):
    script = ('cond', ('cmp', '==', sid, A(EI, 'index_n')),
              ('cond', ('cmp', '==', A(EI, 'script_type'), 'p2sh_multisig'), VS(A(EI, 'redeemscript')), VS(A(EI, 'locking_script'))),
              b'\x00')
    parts = [REV(A(SELF, 'version')), VI(('len', INS)),
             REP(INS, CAT(REV(A(EI, 'prev_txid')), REV(A(EI, 'output_n')), script, LE(A(EI, 'sequence'), 4))),
             VI(('len', OUTS)), REP(OUTS, CAT(LE(A(EO, 'value'), 8), VS(A(EO, 'lock_script')))), LE(A(SELF, 'locktime'), 4)]
    if with_hashtype:
        parts.append(LE(('var', 'hash_type'), 4))
    return CAT(*parts)


FIELD_NAMES_LEGACY = ['nVersion', 'input count', 'inputs', 'output count', 'outputs', 'nLockTime', 'sighash type']


@PROP.obligation('C01.legacy', canaries=[
    mut.replace_expr('transactions', 'Transaction.raw', 'varstr(i.locking_script)', 'varstr(i.unlocking_script)', 'legacy preimage: scriptSig instead of the script code'),
    mut.replace_stmt('transactions', 'Transaction.raw', "r += b'\\x00'", "r += b''", 'legacy preimage: other inputs keep no empty script', nth=1),
    mut.replace_expr('transactions', 'Transaction.raw', "sign_id is None and witness_type == 'segwit'", "witness_type == 'segwit'", 'marker/flag leak into the signing serialization', nth=0),
    mut.replace_expr('transactions', 'Transaction.raw', "hash_type.to_bytes(4, 'little')", "hash_type.to_bytes(1, 'little')", 'legacy preimage: 1-byte hash type'),
    mut.replace_expr('transactions', 'Transaction.raw', 'sign_id == i.index_n', 'sign_id != i.index_n', 'legacy preimage: script placed in the other inputs'),
])
def legacy(ctx):
    """Transaction.raw(sign_id, hash_type, 'legacy') equals the legacy SIGHASH_ALL serialization: version . #in . for each input
    outpoint . (script code of the signed input | empty script) . sequence . #out . outputs . locktime . 4-byte hash type — and
    carries no marker, flag or witness data, also when the transaction itself is segwit."""
    q = 'transactions:Transaction.raw'
    fn = ctx.repo.func(q)
    sid = ('var', 'sign_id')
    for wt in ('legacy', 'segwit'):
        it = Interp(ctx.repo, 'transactions', hooks=LAYOUT_HOOKS, self_cls='transactions:Transaction')
        exits = it.run_function(fn, {'sign_id': S(sid, 'int'), 'hash_type': S(('var', 'hash_type'), 'int'), 'witness_type': wt})
        rets = [e for e in exits if e.kind == 'return']
        if len(rets) != 1:
            ctx.undecided('raw(sign_id): %d return paths' % len(rets))
        got = canon_layout(term(rets[0].value))
        exp = canon_layout(_expected_legacy(sid, True))
        if wt == 'legacy':
            for i, p in enumerate(flatten_cat(got)[:7]):
                ctx.saw('%-13s %s' % (FIELD_NAMES_LEGACY[i] if i < 7 else i, show(p)[:170]))
        _report_diff(ctx, q, fn, got, exp, 'legacy signing serialization (transaction witness_type=%s)' % wt, FIELD_NAMES_LEGACY)
    ctx.require(any(e.kind == 'raise' for e in exits), q, 'negative output values are not refused', fn)


@PROP.obligation('C01.dispatch', canaries=[
    mut.replace_expr('transactions', 'Transaction.signature', "witness_type in ['segwit', 'p2sh-segwit']", "witness_type in ['segwit']", 'p2sh-segwit inputs no longer use BIP143'),
    mut.replace_expr('transactions', 'Transaction.signature', "witness_type == 'legacy' or sign_id is None", "witness_type != 'segwit' or sign_id is None", 'p2sh-segwit inputs signed with the legacy digest'),
    mut.replace_expr('transactions', 'Transaction.signature_hash', 'self.signature(sign_id, hash_type, witness_type)', 'self.signature(sign_id, hash_type)', 'signature_hash ignores the input witness type'),
])
def dispatch(ctx):
    """Transaction.signature: legacy -> raw(sign_id, hash_type, 'legacy'); segwit and p2sh-segwit -> signature_segwit(sign_id,
    hash_type); anything else raises; signature_hash = double_sha256(signature(sign_id, hash_type, witness_type))."""
    q = 'transactions:Transaction.signature'
    fn = ctx.repo.func(q)
    sid, ht = ('var', 'sign_id'), ('var', 'hash_type')
    want = {'legacy': ('mcall', SELF, 'raw', (sid, ht, 'legacy'), ()), 'segwit': ('mcall', SELF, 'signature_segwit', (sid, ht), ()),
            'p2sh-segwit': ('mcall', SELF, 'signature_segwit', (sid, ht), ())}
    for wt in ('legacy', 'segwit', 'p2sh-segwit', 'taproot', 'nonsense'):
        it = Interp(ctx.repo, 'transactions', self_cls='transactions:Transaction')
        exits = it.run_function(fn, {'sign_id': S(sid, 'int'), 'hash_type': S(ht, 'int'), 'witness_type': wt})
        rets = [e for e in exits if e.kind == 'return']
        v = term(rets[0].value) if rets else None
        ctx.saw('signature(witness_type=%s) -> %s' % (wt, show(v) if rets else [e.kind for e in exits]))
        if wt in want:
            ok = len(rets) == 1 and (v == want[wt] or (wt != 'legacy' and isinstance(v, tuple) and v[:3] == want[wt][:3] and v[3][:1] == (sid,) and (v[3][1:] == (ht,) or dict(v[4]).get('hash_type') == ht)))
            ctx.require(ok, q, 'witness type %s is signed over %s, expected %s' % (wt, show(v), show(want[wt])), fn,
                        'inputs of that type are signed with the wrong digest algorithm')
        else:
            ctx.require(not rets, q, 'unknown witness type %s yields %s instead of an error' % (wt, show(v)), fn)
    q = 'transactions:Transaction.signature_hash'
    fn = ctx.repo.func(q)
    it = Interp(ctx.repo, 'transactions', hooks=LAYOUT_HOOKS, self_cls='transactions:Transaction')
    wtv = ('var', 'witness_type')
    exits = it.run_function(fn, {'sign_id': S(sid, 'int'), 'hash_type': S(ht, 'int'), 'witness_type': S(wtv, 'str'), 'as_hex': False})
    v = term([e for e in exits if e.kind == 'return'][0].value)
    ctx.saw('signature_hash -> %s' % show(v))
    ctx.require(v == H2(('mcall', SELF, 'signature', (sid, ht, wtv), ())), q, 'signature_hash is %s, expected double_sha256(self.signature(sign_id, hash_type, witness_type))' % show(v), fn)


@PROP.obligation('C01.same-digest', canaries=[
    mut.replace_expr('transactions', 'Transaction.sign', 'self.signature_hash(tid, hash_type, self.inputs[tid].witness_type)', 'self.signature_hash(tid, hash_type, self.witness_type)', 'sign uses the transaction witness type'),
    mut.replace_expr('transactions', 'Transaction.verify', 'self.signature_hash(inp.index_n, inp.hash_type, inp.witness_type)', 'self.signature_hash(0, inp.hash_type, inp.witness_type)', 'verify hashes input 0 for every input'),
    mut.replace_expr('transactions', 'Transaction.sign', 'sign(txid, key, hash_type=hash_type)', 'sign(self.txid, key, hash_type=hash_type)', 'sign signs the transaction id instead of the digest'),
])
def same_digest(ctx):
    """Transaction.sign signs, and Transaction.verify checks, self.signature_hash(<index of the input being processed>, hash type,
    that input's witness_type); the value passed to the signer / to Input.verify is exactly that digest."""
    repo = ctx.repo
    q = 'transactions:Transaction.sign'
    fn = repo.func(q)
    loops = [n for n in walk_no_nested(fn) if isinstance(n, ast.For) and 'signature_hash' in unparse(n)]
    if len(loops) != 1 or not isinstance(loops[0].target, ast.Name):
        ctx.undecided('Transaction.sign: loop over the inputs to sign not found')
    tid = loops[0].target.id
    calls = [c for c in ast.walk(loops[0]) if isinstance(c, ast.Call) and unparse(c.func) == 'self.signature_hash']
    if len(calls) != 1:
        ctx.undecided('Transaction.sign: %d signature_hash calls' % len(calls))
    c = calls[0]
    args = [unparse(a) for a in c.args] + ['%s=%s' % (k.arg, unparse(k.value)) for k in c.keywords]
    ctx.saw('sign: digest = self.signature_hash(%s)' % ', '.join(args))
    ctx.require(len(c.args) >= 3 and unparse(c.args[0]) == tid and unparse(c.args[1]) == 'hash_type' and unparse(c.args[2]) == 'self.inputs[%s].witness_type' % tid, q,
                'digest computed as signature_hash(%s), expected (%s, hash_type, self.inputs[%s].witness_type)' % (', '.join(args), tid, tid), c,
                'an input is signed over the digest of another input or with the wrong algorithm')
    # the digest variable is what is handed to keys.sign
    digest_var = None
    for n in ast.walk(loops[0]):
        if isinstance(n, ast.Assign) and n.value is c and isinstance(n.targets[0], ast.Name):
            digest_var = n.targets[0].id
    signs = [x for x in ast.walk(loops[0]) if isinstance(x, ast.Call) and unparse(x.func) == 'sign']
    ctx.saw('sign: signer calls %s' % [norm(x) for x in signs])
    ctx.require(bool(signs) and all(x.args and unparse(x.args[0]) == digest_var for x in signs), q, 'the signer is not called with the digest computed for this input', fn)
    q = 'transactions:Transaction.verify'
    fn = repo.func(q)
    loops = [n for n in walk_no_nested(fn) if isinstance(n, ast.For) and 'signature_hash' in unparse(n)]
    if len(loops) != 1 or not isinstance(loops[0].target, ast.Name):
        ctx.undecided('Transaction.verify: loop over inputs not found')
    iv = loops[0].target.id
    ctx.require(unparse(loops[0].iter) == 'self.inputs', q, 'verify iterates over %s, expected all of self.inputs' % unparse(loops[0].iter), loops[0])
    calls = [c for c in ast.walk(loops[0]) if isinstance(c, ast.Call) and unparse(c.func) == 'self.signature_hash']
    if len(calls) != 1:
        ctx.undecided('Transaction.verify: %d signature_hash calls' % len(calls))
    c = calls[0]
    args = [unparse(a) for a in c.args]
    ctx.saw('verify: digest = self.signature_hash(%s)' % ', '.join(args))
    ctx.require(args[:3] == ['%s.index_n' % iv, '%s.hash_type' % iv, '%s.witness_type' % iv], q,
                'digest computed as signature_hash(%s), expected (%s.index_n, %s.hash_type, %s.witness_type)' % (', '.join(args), iv, iv, iv), c)
    dv = None
    for n in ast.walk(loops[0]):
        if isinstance(n, ast.Assign) and n.value is c and isinstance(n.targets[0], ast.Name):
            dv = n.targets[0].id
    vcalls = [x for x in ast.walk(loops[0]) if isinstance(x, ast.Call) and unparse(x.func) == '%s.verify' % iv]
    ctx.require(bool(vcalls) and all(x.args and unparse(x.args[0]) == dv for x in vcalls), q, 'Input.verify is not called with the digest computed for that input', fn)


@PROP.obligation('C01.scriptcode', canaries=[
    mut.replace_stmt('transactions', 'Input.update_scripts', "self.locking_script = b'v\\xa9\\x14' + self.public_hash + b'\\x88\\xac'", "if not self.locking_script:\n    self.locking_script = b'v\\xa9\\x14' + self.public_hash + b'\\x88\\xac'", 'P2WPKH script code not normalised when the caller supplied a locking script'),
    mut.const('transactions', 'Input.update_scripts', b'\x88\xac', b'\x88\xad', 'P2PKH template ends with CHECKSIGVERIFY'),
])
def scriptcode(ctx):
    """Input.update_scripts, script types sig_pubkey / p2sh_p2wpkh: locking_script (the BIP143 script code of P2WPKH and the P2PKH
    scriptPubKey) is ALWAYS set to 76 a9 14 <public_hash> 88 ac when a hash or key is known; for p2sh_multisig / p2sh_p2wsh the
    redeemscript is the multisig script of the input's keys and sigs_required."""
    q = 'transactions:Input.update_scripts'
    fn = ctx.repo.func(q)
    for stype in ('sig_pubkey', 'p2sh_p2wpkh'):
        it = Interp(ctx.repo, 'transactions', hooks=LAYOUT_HOOKS, self_cls='transactions:Input',
                    decide=lambda t, s_=stype: True if t == A(SELF, 'public_hash') else None)
        st = State(env={})
        st.heap[A(SELF, 'script_type')] = stype
        exits = it.run_function(fn, {'hash_type': 1}, st)
        rets = [e for e in exits if e.kind == 'return']
        if not rets:
            ctx.undecided('update_scripts(%s): no return' % stype)
        for e in rets:
            ls = e.heap.get(A(SELF, 'locking_script'))
            lt = canon_layout(term(ls)) if ls is not None else None
            ctx.saw('update_scripts(%s): locking_script = %s' % (stype, show(lt)[:120] if lt is not None else 'unchanged'))
            exp = CAT(b'\x76\xa9\x14', A(SELF, 'public_hash'), b'\x88\xac')
            if lt != exp:
                ctx.violate(q, 'script_type %s: locking_script is %s after update_scripts, expected 76a914 . public_hash . 88ac on every path' % (stype, show(lt)[:140] if lt is not None else 'left unchanged'), fn,
                            'BIP143 script code for P2WPKH must be the P2PKH script; a caller-supplied 0014<hash> would be hashed instead')
    it = Interp(ctx.repo, 'transactions', hooks=LAYOUT_HOOKS, self_cls='transactions:Input',
                decide=lambda t: (False if t == A(SELF, 'redeemscript') else (True if t == A(SELF, 'keys') else None)))
    st = State(env={})
    st.heap[A(SELF, 'script_type')] = 'p2sh_multisig'
    calls = []
    it.obs_call = lambda name, base, args, kw, st_, node: calls.append((dict((k, term(v)) for k, v in kw.items()), node)) if name == 'Script' and 'multisig' in repr(kw.get('script_types')) and "p2sh" not in repr(kw.get('script_types')) else None
    it.run_function(fn, {'hash_type': 1}, st)
    ctx.saw('redeemscript built by Script(%s)' % [sorted(c[0]) for c in calls][:1])
    ok = bool(calls) and all(c[0].get('keys') == A(SELF, 'keys') and c[0].get('sigs_required') == A(SELF, 'sigs_required') for c in calls)
    ctx.require(ok, q, 'multisig redeemscript is not built from self.keys and self.sigs_required', fn)


@PROP.obligation('C01.storage', canaries=[
    mut.replace_expr('transactions', 'Input.__init__', "output_n.to_bytes(4, 'big')", "output_n.to_bytes(4, 'little')", 'Input stores output_n little-endian'),
    mut.replace_expr('transactions', 'Input.parse', 'raw.read(4)[::-1]', 'raw.read(4)', 'Input.parse stores output_n in wire order'),
    mut.replace_expr('transactions', 'Transaction.__init__', "version.to_bytes(4, 'big')", "version.to_bytes(4, 'little')", 'Transaction stores version little-endian'),
])
def storage(ctx):
    """Storage conventions the layouts rely on: Input stores output_n as 4 bytes big-endian and prev_txid / parsed output_n in display
    (reversed wire) order; sequence as int (little-endian when parsed); Transaction stores version as 4 bytes big-endian."""
    repo = ctx.repo
    q = 'transactions:Input.__init__'
    fn = repo.func(q)
    on = ('var', 'output_n')
    it = Interp(repo, 'transactions', hooks=LAYOUT_HOOKS, self_cls='transactions:Input', decide=lambda t: True if isinstance(t, tuple) and t[0] == 'isinstance' and t[1] == on else None)
    try:
        exits = it.run_function(fn, {'prev_txid': S(('var', 'prev_txid'), 'bytes'), 'output_n': S(on, 'int'), 'sequence': S(('var', 'sequence'))})
        e = [x for x in exits if x.kind == 'return'][-1]
        v = term(e.heap.get(A(SELF, 'output_n')))
        sq = term(e.heap.get(A(SELF, 'sequence')))
    except (AnalysisError, IndexError) as ex:
        ctx.undecided('Input.__init__ not evaluable: %s' % ex)
    ctx.saw('Input.output_n (int given) = %s ; sequence = %s' % (show(v), show(sq)[:120]))
    ctx.require(v == ('int2bytes', on, 4, 'big'), q, 'output_n is stored as %s, the serializers assume 4 bytes big-endian' % show(v), fn,
                'the outpoint index is serialized byte-swapped')
    seqs = [s for s in subterms(('w', sq)) if isinstance(s, tuple) and s[0] == 'bytes2int']
    ctx.require(all(s[2] == 'little' for s in seqs) and bool(seqs), q, 'byte sequences are decoded as %s, wire order is little-endian' % [s[2] for s in seqs], fn)
    q = 'transactions:Input.parse'
    fn = repo.func(q)
    from ..layout import Stream
    it = Interp(repo, 'transactions', hooks=LAYOUT_HOOKS)
    exits = it.run_function(fn, {'raw': Stream('raw'), 'witness_type': 'segwit'})
    rets = [e for e in exits if e.kind == 'return']
    if not rets:
        ctx.undecided('Input.parse has no return')
    rv = term(rets[-1].value)
    kw = dict(rv[3])
    from ..layout import normalize
    p0 = ('var', 'raw.pos0')
    ctx.saw('Input.parse -> prev_txid=%s output_n=%s' % (show(normalize(kw.get('prev_txid'))), show(normalize(kw.get('output_n')))))
    ctx.require(normalize(kw.get('prev_txid')) == ('rev', ('read', p0, 32)), q, 'prev_txid parsed as %s, expected the 32 wire bytes reversed' % show(kw.get('prev_txid')), fn)
    ctx.require(normalize(kw.get('output_n')) == ('rev', ('read', ('binop', '+', p0, 32), 4)), q, 'output_n parsed as %s, expected the 4 wire bytes reversed (big-endian storage)' % show(normalize(kw.get('output_n'))), fn)
    q = 'transactions:Transaction.__init__'
    fn = repo.func(q)
    from .common_txinit import stored_version
    for isint in (True, False):
        vt = ('var', 'version') if isint else ('read', ('var', 'pos'), 4)
        v, vi, stmts = stored_version(ctx, vt, isint)
        ctx.saw('Transaction.version (%s given) = %s ; version_int = %s' % ('int' if isint else '4 wire bytes', show(v), show(vi)))
        ctx.require(v == (('int2bytes', vt, 4, 'big') if isint else vt), q, 'version (%s given) is stored as %s, the serializers assume the 4 bytes big-endian%s' % (
            'int' if isint else 'bytes', show(v)[:200], '' if isint else ' exactly as given'), stmts[0],
            'the digest and the serialization carry another version than the transaction that was parsed (e.g. version 0 silently becomes 1)')
        ctx.require(vi == (vt if isint else ('bytes2int', vt, 'big')), q, 'version_int (%s given) is %s' % ('int' if isint else 'bytes', show(vi)[:200]), stmts[0])


PROP.obligation('C01.varint', canaries=[
    mut.cmpop('encoding', 'int_to_varbyteint', 'inp <= 65535', ast.Lt, 'CompactSize inside preimages: 0xffff non-canonical'),
])(c18.canonical)
PROP.obligation('C01.prefix-total')(c18.prefix_total)


@PROP.obligation('C01.per-input-keys', canaries=[
    mut.replace_expr('transactions', 'Transaction.sign', 'self.inputs[tid].compressed', 'self.inputs[tids[0]].compressed', 'raw keys converted with the compression flag of the first input'),
])
def per_input_keys(ctx):
    """Transaction.sign: everything that enters the digest of input i is taken from input i. Inside the per-input loop every subscript
    of self.inputs uses the loop variable, and key objects built from raw key material (Key(k, compressed=...)) are built inside that
    loop with the compression flag of the input being signed: for an input without keys the public-key form decides the script code."""
    q = 'transactions:Transaction.sign'
    fn = ctx.repo.func(q)
    loops = [n for n in walk_no_nested(fn) if isinstance(n, ast.For) and isinstance(n.target, ast.Name) and unparse(n.iter) == 'tids']
    if len(loops) != 1:
        ctx.undecided('Transaction.sign: per-input loop not found')
    var = loops[0].target.id
    inside = set(id(x) for x in ast.walk(loops[0]))
    n = 0
    for sub in ast.walk(fn):
        if isinstance(sub, ast.Subscript) and unparse(sub.value) == 'self.inputs':
            n += 1
            idx = unparse(sub.slice)
            if id(sub) in inside:
                ctx.require(idx == var, q, 'inside the per-input loop self.inputs[%s] is used instead of self.inputs[%s]' % (idx, var), sub, 'an input is signed with data of another input')
            else:
                ctx.violate(q, 'self.inputs[%s] is read outside the per-input loop: its value is shared by all inputs' % idx, sub,
                            'keys converted with the compression flag of one input sign another input over the wrong script code')
    ctx.floor(n, 8, 'subscripts of self.inputs in Transaction.sign')
    conv = [c for c in ast.walk(fn) if isinstance(c, ast.Call) and unparse(c.func) == 'Key' and any(k.arg == 'compressed' for k in c.keywords)]
    ctx.saw('%d subscripts of self.inputs, all indexed by `%s`; raw-key conversions: %s' % (n, var, [unparse(c)[:70] for c in conv]))
    if not conv:
        ctx.unsure('%s: conversion of raw keys not found' % q)
    for c in conv:
        ctx.require(id(c) in inside, q, 'raw keys are converted to Key objects outside the per-input loop', c)


@PROP.obligation('C01.bip143-hashtypes', canaries=[
    mut.replace_expr('transactions', 'Transaction.signature_segwit', 'hash_type & 31 != SIGHASH_SINGLE and hash_type & 31 != SIGHASH_NONE', 'True', 'hashSequence committed for ANYONECANPAY-less SINGLE / NONE', nth=0),
])
def bip143_hashtypes(ctx):
    """Transaction.signature_segwit is evaluated for the sighash types 0x01, 0x02, 0x03, 0x81, 0x82, 0x83 (the digest a parsed transaction
    is CHECKED with): hashPrevouts is 32 zero bytes exactly with ANYONECANPAY; hashSequence is zero with ANYONECANPAY, SINGLE or NONE;
    hashOutputs covers all outputs for ALL, nothing (zero) for NONE and only the output with the input's index for SINGLE."""
    q = 'transactions:Transaction.signature_segwit'
    fn = ctx.repo.func(q)
    sid = ('var', 'sign_id')
    Z = b'\x00' * 32
    full = canon_layout(_expected_bip143(sid, b'\x01\x00\x00\x00'))
    exp_parts = flatten_cat(full)
    for ht in (0x01, 0x02, 0x03, 0x81, 0x82, 0x83):
        it = Interp(ctx.repo, 'transactions', hooks=LAYOUT_HOOKS, self_cls='transactions:Transaction')
        exits = it.run_function(fn, {'sign_id': S(sid, 'int'), 'hash_type': ht})
        rets = [e for e in exits if e.kind == 'return']
        if len(rets) != 1:
            ctx.undecided('signature_segwit: %d return paths for hash type 0x%02x' % (len(rets), ht))
        parts = list(flatten_cat(canon_layout(term(rets[0].value))))
        if len(parts) == 10 and isinstance(parts[1], bytes) and len(parts[1]) == 64:
            parts[1:2] = [parts[1][:32], parts[1][32:]]      # two adjacent constants (zero hashPrevouts . zero hashSequence) were merged
        if len(parts) != 11:
            ctx.undecided('signature_segwit(0x%02x): %d layout parts' % (ht, len(parts)))
        acp, base = bool(ht & 0x80), ht & 0x1f
        hp, hs, ho = parts[1], parts[2], parts[8]
        ctx.saw('0x%02x: hashPrevouts %s | hashSequence %s | hashOutputs %s' % (ht, 'zero' if hp == Z else 'hash', 'zero' if hs == Z else 'hash', 'zero' if ho == Z else show(ho)[:60]))
        ctx.require((hp == Z) == acp and (acp or hp == exp_parts[1]), q, 'hash type 0x%02x: hashPrevouts is %s' % (ht, 'zero' if hp == Z else 'a hash'), fn, 'BIP143 digest of that hash type differs from consensus')
        want_hs_zero = acp or base in (2, 3)
        ctx.require((hs == Z) == want_hs_zero and (want_hs_zero or hs == exp_parts[2]), q, 'hash type 0x%02x: hashSequence is %s, BIP143 says %s' % (ht, 'zero' if hs == Z else 'a hash', 'zero' if want_hs_zero else 'the hash of all sequences'), fn,
                    'a valid network transaction signed with this hash type fails verification')
        if base == 1:
            ctx.require(ho == exp_parts[8], q, 'hash type 0x%02x: hashOutputs does not cover all outputs' % ht, fn)
        elif base == 2:
            ctx.require(ho == Z, q, 'hash type 0x%02x (NONE): hashOutputs is %s, BIP143 says 32 zero bytes' % (ht, show(ho)[:80]), fn, 'a valid SIGHASH_NONE segwit input fails verification')
        else:
            uses_own = any(isinstance(s_, tuple) and s_[0] == 'index' and s_[1] == A(SELF, 'outputs') and s_[2] == sid for s_ in subterms(('w', ho)))
            ctx.require(ho != Z and uses_own and ho != exp_parts[8], q, 'hash type 0x%02x (SINGLE): hashOutputs is %s, BIP143 says the hash of the output with the same index' % (ht, 'zero' if ho == Z else show(ho)[:80]), fn,
                        'a valid SIGHASH_SINGLE segwit input fails verification')


@PROP.obligation('C01.public-hash-writers', canaries=[
    mut.replace_stmt('transactions', 'Input.__init__', 'self.signatures = []', 'self.signatures = []\nif self.address_obj and not self.public_hash:\n    self.public_hash = self.address_obj.hash_bytes', 'public_hash pre-filled from the address'),
])
def public_hash_writers(ctx):
    """Input.public_hash feeds the BIP143 script code 76a914<public_hash>88ac of (nested) P2WPKH inputs, so it must be the hash160 of the
    KEY. Every assignment to self.public_hash in Input takes it from the constructor argument, the parsed locking script, the key
    (keys[0].hash160) or the redeem script hash - never from an Address object: the address of a P2SH-P2WPKH input commits to the
    redeem-script hash."""
    n = 0
    for q in ('transactions:Input.__init__', 'transactions:Input.update_scripts'):
        fn = ctx.repo.func(q)
        for a_ in ast.walk(fn):
            if isinstance(a_, ast.Assign) and norm(a_.targets[0]) == 'self.public_hash':
                n += 1
                txt = norm(a_.value)
                ctx.saw('%s: self.public_hash = %s' % (q, txt[:90]))
                if any(isinstance(x, ast.Attribute) and x.attr in ('hash_bytes', 'hashed_data', 'address_obj', '_address_obj') for x in ast.walk(a_.value)) or 'Address' in txt or 'deserialize_address' in txt:
                    ctx.violate(q, 'public_hash is taken from the address (`%s`)' % txt[:80], a_,
                                'a P2SH-P2WPKH input given with its address signs over the script code of the script hash: valid for the library, rejected by the network')
    ctx.floor(n, 4, 'assignments to Input.public_hash')


@PROP.obligation('C01.unique-indexes', canaries=[
    mut.replace_expr('transactions', 'Transaction.__init__', 'list(dict.fromkeys(id_list)) != id_list', 'len(id_list) > 1 and len(set(id_list)) == 1', 'inputs renumbered only when ALL carry the same index'),
])
def unique_indexes(ctx):
    """Transaction.raw(sign_id) puts the script code into every input whose index_n equals sign_id, sign() addresses inputs by position and
    verify() by index_n: the digest of input i is the digest of exactly one input only while the index_n values are unique. The constructor
    therefore renumbers the inputs whenever ANY index occurs twice (evaluated on index lists: 0,1,0 / 0,0,1,2 / 0,0 must renumber;
    0,1,2 / 5 / empty must not)."""
    q = 'transactions:Transaction.__init__'
    fn = ctx.repo.func(q)
    ifs = [n for n in walk_no_nested(fn) if isinstance(n, ast.If) and any(isinstance(x, ast.Name) and x.id == 'id_list' for x in ast.walk(n.test))]
    if len(ifs) != 1:
        ctx.undecided('Transaction.__init__: test that decides about renumbering the inputs not found')
    renum = any(isinstance(x, (ast.Assign, ast.AugAssign)) and 'index_n' in norm(x) for x in ast.walk(ifs[0]))
    if not renum:
        ctx.undecided('Transaction.__init__: the guarded block does not renumber index_n')
    res = {}
    for ids, want in (([0, 1, 0], True), ([0, 0, 1, 2], True), ([0, 0], True), ([3, 1, 3, 1], True), ([0, 1, 2], False), ([5], False), ([], False), ([2, 0, 1], False)):
        it = Interp(ctx.repo, 'transactions', self_cls='transactions:Transaction')
        st = State(env={'id_list': list(ids), 'self': S(SELF)})
        try:
            v = it.truth(it.eval(ifs[0].test, st), st)
        except AnalysisError as e:
            ctx.undecided('renumbering test not evaluable: %s' % str(e)[:80])
        if not isinstance(v, bool):
            ctx.undecided('renumbering test `%s` not decidable for %s' % (norm(ifs[0].test), ids))
        res[tuple(ids)] = v
        ctx.require(v is want, q, 'inputs with the index numbers %s are %srenumbered (test `%s`)' % (ids, '' if v else 'not ', norm(ifs[0].test)[:80]), ifs[0],
                    'Transaction(t1.inputs + t2.inputs, ...): two inputs share index_n, the legacy preimage carries the script code in two slots and verify() checks input i against the digest of another input'
                    if want else 'unique index numbers given by the caller are overwritten')
    ctx.saw('renumbering decided for %d index lists: %s' % (len(res), res))


@PROP.obligation('C01.loop-fresh', canaries=[
    mut.replace_stmt('services.services', 'Service.getinputvalues', 'if i.prev_txid not in prev_txs and i.prev_txid != 32 * b', 'if i.prev_txid not in prev_txs and i.prev_txid != 32 * b"\\0":\n    prev_t = self.gettransaction(i.prev_txid.hex())\n    prev_txs.append(i.prev_txid)', 'amount of an input taken from the previous transaction fetched last'),
])
def loop_fresh(ctx):
    """Per-input data that enter the digest (the amount of the spent output that Service.getinputvalues fills in, keys, script codes) are
    computed for THIS input: in transactions.py and services/services.py no variable that is assigned only inside a per-item loop is read
    on a path of an iteration that did not assign it."""
    from .common_loopfresh import loop_fresh as run
    run(ctx, ['transactions', 'services.services'], 'the BIP143 amount of an input is the value of an output of ANOTHER previous transaction: verify() rejects a valid transaction, sign() signs over the wrong amount')


@PROP.obligation('C01.preimage-kind')
def preimage_kind(ctx):
    """Which preimage an input is signed with (legacy SIGHASH_ALL or BIP143) follows from its witness type: Input.__init__ without an explicit
    witness_type ends as segwit whenever a witness stack or a witness-program scriptPubKey (locking_script 0014.. / 0020..) is given, with
    or without a script type, and as legacy otherwise (the scenarios of C06.witness-default)."""
    from . import c06
    c06.witness_default(ctx)


@PROP.obligation('C01.amount-required', canaries=[
    mut.replace_expr('transactions', 'Transaction.signature_segwit', 'not self.inputs[sign_id].value', 'self.inputs[sign_id].value is None', 'BIP143 preimage built with amount 0 for inputs parsed from raw bytes'),
])
def amount_required(ctx):
    """The BIP143 preimage commits to the amount of the output being spent; a raw transaction does not carry it and Input() defaults to
    value 0. Transaction.signature_segwit evaluated with that amount falsy (0) reaches a return only for coinbase inputs: otherwise it
    raises, so sign() refuses instead of signing over amount 0."""
    q = 'transactions:Transaction.signature_segwit'
    fn = ctx.repo.func(q)
    sid = ('var', 'sign_id')
    val = ('attr', ('index', ('attr', SELF, 'inputs'), sid), 'value')

    def decide(t):
        if t == val:
            return False
        if isinstance(t, tuple) and t and t[0] == 'cmp' and val in (t[2], t[3]):
            other = t[3] if t[2] == val else t[2]
            if t[1] in ('is', 'is not') and other is None:
                return t[1] == 'is not'
            if t[1] in ('==', '!=') and other == 0:
                return t[1] == '=='
            if other == 0 and t[1] in ('<', '>', '<=', '>='):
                return t[1] in ('<=', '>=')
        return None
    it = Interp(ctx.repo, 'transactions', hooks=LAYOUT_HOOKS, self_cls='transactions:Transaction', decide=decide)
    try:
        exits = it.run_function(fn, {'sign_id': S(sid, 'int'), 'hash_type': 1})
    except AnalysisError as e:
        ctx.undecided('signature_segwit not evaluable with a zero amount: %s' % str(e)[:100])
    rets = [e for e in exits if e.kind == 'return']
    raises = [e for e in exits if e.kind == 'raise']
    ctx.saw('amount 0: %d return path(s), %d raising path(s)' % (len(rets), len(raises)))
    for e in rets:
        is_cb = False
        for t, pol in e.pc:
            while isinstance(t, tuple) and t and t[0] == 'not':
                t, pol = t[1], not pol
            if isinstance(t, tuple) and t and t[0] == 'cmp' and 'coinbase' in (t[2], t[3]) and ((t[1] == '==' and pol) or (t[1] == '!=' and not pol)):
                is_cb = True
        if not is_cb:
            ctx.violate(q, 'with the amount of the spent output equal to 0 (the default of an input parsed from raw bytes) a BIP143 preimage is returned', e.node or fn,
                        'parse a raw unsigned segwit transaction and sign() it without filling in Input.value: the signature commits to amount 0, verify() is True, the network rejects it')
    ctx.floor(len(raises), 1, 'raising paths')


@PROP.obligation('C01.nested-hash', canaries=[
    mut.replace_expr('transactions', 'Input.__init__', 'ls.public_hash and (not nested)', 'ls.public_hash', 'hash of the wrapping P2SH script taken as the key / witness-script hash'),
])
def nested_hash(ctx):
    """Input.__init__ evaluated as a whole (update_scripts inlined) for a P2SH-nested segwit input that is given the scriptPubKey it spends
    (locking_script = a914<hash160 of the witness program>87, as providers and the wallet's stored outputs supply it): public_hash - the
    hash in the BIP143 script code 76a914<public_hash>88ac and in the scriptSig push 0014<public_hash> / 0020<public_hash> - stays the
    key hash (P2SH-P2WPKH) or the sha256 of the redeem script (P2SH-P2WSH), not the script hash of the wrapper. The same input without
    locking_script is the reference."""
    q = 'transactions:Input.__init__'
    fn = ctx.repo.func(q)
    a = fn.args
    names = [x.arg for x in a.args]
    defaults = {}
    for n_, d in zip(names[len(names) - len(a.defaults):], a.defaults):
        try:
            defaults[n_] = ast.literal_eval(d)
        except Exception:
            defaults[n_] = S(('var', n_))
    K, K2, LS = ('var', 'key'), ('var', 'key2'), ('var', 'ls')
    WRAP = b'\x22' * 20
    n = 0

    def run(stype, wt, lock, keys, extra):
        hooks = dict(LAYOUT_HOOKS)
        hooks['Script.parse_bytes'] = lambda interp, args, kwargs, st_, node: S(LS)
        hooks['Network'] = lambda interp, args, kwargs, st_, node: S(('var', 'net'))

        def decide(t):
            if isinstance(t, tuple) and t and t[0] == 'isinstance' and t[1] in (K, K2):
                return 'Key' in show(t[2])
            if isinstance(t, tuple) and len(t) == 4 and t[0] == 'cmp' and t[1] in ('in', 'not in') and t[2] in (K, K2):
                # the two key objects of the scenario are different keys
                return t[1] == 'not in'
            return None
        it = Interp(ctx.repo, 'transactions', hooks=hooks, self_cls='transactions:Input', decide=decide, max_depth=3, inline=['self.update_scripts'])
        args = dict(defaults)
        args.update({'self': S(SELF), 'prev_txid': b'\xaa' * 32, 'output_n': b'\x00\x00\x00\x00', 'keys': keys, 'script_type': stype, 'witness_type': wt, 'locking_script': lock,
                     'value': 1000, 'network': 'bitcoin'})
        args.update(extra)
        heap = {A(K, 'hash160'): b'\x11' * 20, A(K, 'public_byte'): b'\x02' * 33, A(K, 'compressed'): True, A(K2, 'hash160'): b'\x12' * 20, A(K2, 'public_byte'): b'\x03' * 33,
                A(K2, 'compressed'): True, A(LS, 'script_types'): ['p2sh'], A(LS, 'public_hash'): WRAP}
        try:
            exits = it.run_function(fn, args, State(heap=heap))
        except AnalysisError as e:
            ctx.undecided('Input.__init__(script_type=%r, witness_type=%r, locking_script %s) not evaluable: %s' % (stype, wt, 'given' if lock else 'absent', str(e)[:100]))
        rets = [e for e in exits if e.kind == 'return']
        if not rets:
            ctx.undecided('Input.__init__(script_type=%r, witness_type=%r, locking_script %s): no normal exit' % (stype, wt, 'given' if lock else 'absent'))
        # conditions on values the scenario leaves open (the serialised redeem script) select among exits; both runs must agree exit by exit
        return sorted(((tuple((show(t), pol) for t, pol in e.pc), term(e.heap.get(A(SELF, 'public_hash'))), term(e.heap.get(A(SELF, 'unlocking_script')))) for e in rets), key=repr)
    lock = b'\xa9\x14' + WRAP + b'\x87'
    for stype, wt, keys, extra in (('p2sh_p2wpkh', 'p2sh-segwit', [S(K)], {}), ('p2sh_p2wpkh', None, [S(K)], {}),
                                   ('p2sh_p2wsh', 'p2sh-segwit', [S(K), S(K2)], {'sigs_required': 2}), ('p2sh_p2wsh', None, [S(K), S(K2)], {'sigs_required': 2})):
        ref = run(stype, wt, None, list(keys), extra)
        got = run(stype, wt, lock, list(keys), extra)
        n += 1
        ctx.saw('%s, witness_type=%s: public_hash %s with the scriptPubKey given, %s without' % (stype, wt, sorted(set(show(g[1])[:44] for g in got)), sorted(set(show(r[1])[:44] for r in ref))))
        bad = [g for g in got if g[1] == WRAP] or ([] if got == ref else [g for g in got if g not in ref][:1] or got[:1])
        if bad:
            g = bad[0]
            r = ([x for x in ref if x[0] == g[0]] or ref)[0]
            ctx.violate(q, 'a %s input (witness_type=%r) that is given the P2SH scriptPubKey it spends ends with public_hash %s and scriptSig %s; without locking_script: %s and %s' % (
                stype, wt, show(g[1])[:44], show(g[2])[:50], show(r[1])[:44], show(r[2])[:50]), fn,
                'the input is signed over the script code of the wrapper hash and pushes 0014<wrapper hash> / 0020<wrapper hash> as scriptSig: verify() is True, the spend is invalid on the network')
    ctx.floor(n, 4, 'nested-input scenarios')


def _renumberers(cls_methods):
    """methods of the class that assign index_n to the elements of self.inputs (directly in a loop over them, or by calling such a method)"""
    direct = set()
    for name, f in cls_methods.items():
        for loop in ast.walk(f):
            if isinstance(loop, ast.For) and 'self.inputs' in norm(loop.iter):
                if any(isinstance(x, ast.Assign) and any(isinstance(t, ast.Attribute) and t.attr == 'index_n' for t in x.targets) for x in ast.walk(loop)):
                    direct.add(name)
    closure = set(direct)
    changed = True
    while changed:
        changed = False
        for name, f in cls_methods.items():
            if name in closure:
                continue
            if any(isinstance(c, ast.Call) and isinstance(c.func, ast.Attribute) and isinstance(c.func.value, ast.Name) and c.func.value.id == 'self' and c.func.attr in closure for c in ast.walk(f)):
                closure.add(name)
                changed = True
    return direct, closure


LIST_MUTATORS = {'append', 'extend', 'insert', 'sort', 'reverse', 'pop', 'remove', 'clear'}


@PROP.obligation('C01.indexes-follow-position', canaries=[
    mut.drop_stmt('transactions', 'Transaction.merge_transaction', 'self.shuffle()', 'merged inputs keep the index numbers they had in their own transactions'),
    mut.drop_stmt('transactions', 'Transaction.shuffle_inputs', 'o.index_n = idx', 'shuffled inputs keep their old index numbers'),
])
def indexes_follow_position(ctx):
    """sign() addresses inputs by POSITION in Transaction.inputs, the digest and verify() by their index_n: the two agree only while
    inputs[i].index_n == i. Every method of Transaction that changes the list (append, +=, insert, shuffle, sort, remove ...) is followed
    on every path by a renumbering - a loop over self.inputs that assigns index_n, or a call of a method that does - unless it appends
    one Input that is constructed with the next free index (add_input). The constructor has its own rule (C01.unique-indexes)."""
    methods = {k: ctx.repo.func('transactions:Transaction.' + k) for k in ctx.repo.methods_of('transactions:Transaction')}
    direct, renum = _renumberers(methods)
    ctx.saw('methods that renumber the inputs: %s (directly: %s)' % (sorted(renum), sorted(direct)))
    if not direct:
        ctx.undecided('no method of Transaction assigns index_n to the elements of self.inputs')
    n = 0
    for name, f in sorted(methods.items()):
        if name == '__init__':
            continue
        q = 'transactions:Transaction.' + name
        g = build_cfg(f)
        muts = []
        for node in g.nodes:
            a = node.ast
            if a is None:
                continue
            for x in ([a] if node.kind != 'stmt' else [a]):
                for y in ast.walk(x):
                    if isinstance(y, ast.AugAssign) and norm(y.target) == 'self.inputs':
                        muts.append((node, y, '+='))
                    elif isinstance(y, ast.Assign) and any(norm(t) == 'self.inputs' or (isinstance(t, ast.Subscript) and norm(t.value) == 'self.inputs' and isinstance(t.slice, ast.Slice)) for t in y.targets):
                        muts.append((node, y, 'assignment'))
                    elif isinstance(y, ast.Call) and isinstance(y.func, ast.Attribute) and norm(y.func.value) == 'self.inputs' and y.func.attr in LIST_MUTATORS:
                        muts.append((node, y, '.%s()' % y.func.attr))
                    elif isinstance(y, ast.Call) and norm(y.func) in ('random.shuffle', 'shuffle') and y.args and norm(y.args[0]) == 'self.inputs':
                        muts.append((node, y, 'shuffle'))
                    elif isinstance(y, ast.Delete) and any('self.inputs' in norm(t) for t in y.targets):
                        muts.append((node, y, 'del'))
        if not muts:
            continue
        renum_nodes = []
        for node in g.nodes:
            a = node.ast
            if a is None:
                continue
            for y in ast.walk(a):
                if isinstance(y, ast.Assign) and any(isinstance(t, ast.Attribute) and t.attr == 'index_n' for t in y.targets):
                    renum_nodes.append(node.id)
                if isinstance(y, ast.Call) and isinstance(y.func, ast.Attribute) and isinstance(y.func.value, ast.Name) and y.func.value.id == 'self' and y.func.attr in renum and y.func.attr != name:
                    renum_nodes.append(node.id)
        exits = [x.id for x in g.nodes if x.kind == 'return'] + [g.exit_return]
        for node, y, how in muts:
            n += 1
            # the accepted single-element idiom: append(Input(..., index_n=<name that defaults to len(self.inputs)>))
            if how == '.append()' and y.args and isinstance(y.args[0], ast.Call) and norm(y.args[0].func) == 'Input':
                kw = {k.arg: k.value for k in y.args[0].keywords}
                idx = kw.get('index_n')
                ok = idx is not None and any(isinstance(a2, ast.Assign) and norm(a2.targets[0]) == norm(idx) and norm(a2.value) == 'len(self.inputs)' for a2 in ast.walk(f))
                ctx.saw('%s: appends one Input with index_n=%s (%s)' % (name, norm(idx) if idx is not None else None, 'next free index by default' if ok else 'not the next free index'))
                ctx.require(ok, q, 'the appended Input is not numbered with the next free index (index_n=%s)' % (norm(idx) if idx is not None else 'missing'), y,
                            'inputs[i].index_n != i: sign() signs the digest of another input than verify() checks')
                continue
            p_ = g.path_avoiding(exits, via=renum_nodes, start=node.id)
            if node.id in renum_nodes:
                p_ = None
            ctx.saw('%s: %s on self.inputs, renumbered afterwards on every path: %s' % (name, how, p_ is None))
            ctx.require(p_ is None, q, 'self.inputs is changed by %s and the method can return without renumbering index_n (%s)' % (how, g.describe_path(p_) if p_ else ''), y,
                        't1 + t2 keeps the index numbers 0, 1, 0: the re-signed legacy inputs carry signatures over the digest of another input - invalid for every other verifier, and verify() on the merged object is False for segwit inputs')
    ctx.floor(n, 3, 'changes of Transaction.inputs outside the constructor')


@PROP.obligation('C01.wallet-input-witness', canaries=[
    mut.drop_kwarg('wallets', 'Wallet.select_inputs', 'Input', 'witness_type', 'selected inputs are typed from their address'),
    mut.drop_kwarg('wallets', 'WalletTransaction.add_input_from_wallet', 'add_input', 'witness_type', 'inputs added from the wallet are typed from their address'),
    mut.replace_stmt('wallets', 'Wallet.transaction_create', 'witness_type = inp_utxo.key.witness_type', "witness_type = 'segwit'", 'explicit inputs typed by a constant'),
])
def wallet_input_witness(ctx):
    """Which preimage an input is signed with (legacy or BIP143) follows Input.witness_type. Without the argument Input.__init__ infers it
    from the address, and a P2SH address ('3...') says nothing about a nested witness program: the input of a p2sh-segwit key becomes
    legacy, is signed with the legacy digest and serialized with a sig+pubkey scriptSig. Every Input(...) / add_input(...) call of
    wallets.py that hands over wallet keys (keys=...) passes witness_type=, and the value comes from a key / row / Input attribute
    `.witness_type` (directly or through a local variable), never from a constant."""
    mod = ctx.repo.mod('wallets')
    n = 0
    for name, fn in sorted(mod.functions.items()):
        q = 'wallets:' + name
        calls = [c for c in walk_no_nested(fn) if isinstance(c, ast.Call) and (norm(c.func) == 'Input' or (isinstance(c.func, ast.Attribute) and c.func.attr == 'add_input'))
                 and any(k.arg == 'keys' for k in c.keywords)]
        if not calls:
            continue
        for c in calls:
            n += 1
            kw = {k.arg: k.value for k in c.keywords}
            wt = kw.get('witness_type')
            if wt is None:
                ctx.violate(q, '`%s(...)` hands over wallet keys without witness_type=: the input is typed from its address' % norm(c.func), c,
                            'the input of a p2sh-segwit key (address 3...) is typed legacy: it is signed with the legacy digest instead of BIP143 and verify() agrees with the wrong digest')
                continue
            srcs = [wt]
            if isinstance(wt, ast.Name):
                srcs = [a.value for a in ast.walk(fn) if isinstance(a, ast.Assign) and any(isinstance(t, ast.Name) and t.id == wt.id for t in a.targets)]
            ok = bool(srcs) and all(any(isinstance(x, ast.Attribute) and x.attr == 'witness_type' for x in ast.walk(s_)) for s_ in srcs)
            ctx.saw('%s: %s(..., witness_type=%s) <- %s' % (q.split(':')[1], norm(c.func), norm(wt), sorted(set(norm(s_)[:50] for s_ in srcs))))
            ctx.require(ok, q, 'witness_type=%s of `%s(...)` does not come from a `.witness_type` attribute on every path (%s)' % (norm(wt), norm(c.func), sorted(set(norm(s_)[:40] for s_ in srcs))), c,
                        'the input is typed independently of the key it spends from: a segwit input is signed with the legacy digest or the reverse')
    ctx.floor(n, 5, 'Input constructions with wallet keys')


from . import c08 as _c08
PROP.obligation('C01.reload-zero', canaries=[
    mut.replace_expr('wallets', 'WalletTransaction.from_txid', 'inp.sequence is not None', 'inp.sequence', 'a stored sequence of 0 reloads as the default: other hashSequence'),
])(_c08.reload_zero)


_SPEND_KW = ('keys', 'script_type', 'sigs_required', 'value', 'witness_type', 'address')
_SPEND_KW_NEW = ('compressed', 'sort')


@PROP.obligation('C01.wallet-input-complete', canaries=[
    mut.drop_kwarg('wallets', 'WalletTransaction.add_input_from_wallet', 'add_input', 'value', 'inputs added from the wallet carry no amount'),
    mut.drop_kwarg('wallets', 'Wallet.select_inputs', 'Input', 'compressed', 'selected inputs assume compressed keys'),
    mut.drop_kwarg('wallets', 'Wallet.transaction_create', 'add_input', 'sigs_required', 'inputs of a created transaction use the default threshold', nth=1),
])
def wallet_input_complete(ctx):
    """Sibling agreement between the five places of wallets.py that turn a wallet key into a transaction input (select_inputs, the two
    add_input calls of transaction_create, add_input_from_wallet, from_txid). What the digest and the scripts of an input depend on is
    handed over by EVERY one of them: keys, script_type, sigs_required (the redeem script), value (the amount BIP143 commits to),
    witness_type (which preimage), address; the four that build a NEW spend also pass compressed and sort (key form and BIP67 order in
    the redeem script). The table is the set all five (four) pass on the reference tree; a site that drops one falls back on a default
    of Input.__init__ that is right only for single-key compressed native inputs."""
    mod = ctx.repo.mod('wallets')
    n = 0
    for name, fn in sorted(mod.functions.items()):
        q = 'wallets:' + name
        for c in walk_no_nested(fn):
            if not (isinstance(c, ast.Call) and (norm(c.func) == 'Input' or (isinstance(c.func, ast.Attribute) and c.func.attr == 'add_input'))):
                continue
            have = set(k.arg for k in c.keywords)
            if 'keys' not in have:
                continue
            n += 1
            need = set(_SPEND_KW) | (set(_SPEND_KW_NEW) if name != 'WalletTransaction.from_txid' else set())
            missing = sorted(need - have)
            ctx.saw('%s: %s(...) passes %s' % (name, norm(c.func), sorted(have & (set(_SPEND_KW) | set(_SPEND_KW_NEW)))))
            ctx.require(not missing, q, '`%s(...)` hands over wallet keys without %s, which every sibling site passes' % (norm(c.func), ', '.join(m_ + '=' for m_ in missing)), c,
                        'the input is built with the default of Input.__init__ for that argument (value 0, sigs_required 1 / all keys, compressed keys, unsorted keys): its digest or its redeem script is not the one of the output it spends')
    ctx.floor(n, 5, 'Input constructions with wallet keys')


@PROP.obligation('C01.cache-input-witness', canaries=[
    mut.replace_stmt('services.services', 'Cache._parse_db_transaction', 'witness_type = None', 'witness_type = db_tx.witness_type.value', 'cached transactions force the transaction witness type onto every input'),
])
def cache_input_witness(ctx):
    """A segwit-serialised transaction may spend legacy outputs as well; which preimage an input is checked with is a property of THAT input.
    Cache._parse_db_transaction rebuilds a cached transaction input by input: the loop body is evaluated for an ordinary (non-coinbase)
    input, and the witness_type handed to add_input is None (so that Input.__init__ derives it from the input's own script / address /
    witnesses) or comes from the input's own row - never the transaction-level value, which types a legacy P2SH multisig input of a
    mixed transaction 'segwit': it is then verified against the BIP143 digest and raw() differs."""
    q = 'services.services:Cache._parse_db_transaction'
    fn = ctx.repo.func(q)
    loops = [l for l in ast.walk(fn) if isinstance(l, ast.For) and isinstance(l.target, ast.Name) and 'nodes' in norm(l.iter)]
    if len(loops) != 1:
        ctx.undecided('_parse_db_transaction: loop over the cached inputs / outputs not found')
    NODE = ('var', loops[0].target.id)
    seen = []

    def decide(t):
        s_ = show(t)
        if t == ('attr', NODE, 'is_input'):
            return True
        if isinstance(t, tuple) and t and t[0] == 'cmp' and 'ref_txid' in s_:
            return False if t[1] == '==' else True        # not the all-zero outpoint of a coinbase
        return None
    hooks = {'.add_input': lambda it, b, a, kw, st, node: (seen.append(({k: (term(v) if isinstance(v, S) else v) for k, v in kw.items()}, node)), 0)[1]}
    it = Interp(ctx.repo, 'services.services', hooks=hooks, decide=decide)
    st = State(env={'db_tx': S(('var', 'db_tx')), 't': S(('var', 't')), loops[0].target.id: S(NODE)})
    it.frames.append([])
    try:
        it.exec_block(loops[0].body, st)
    except AnalysisError as e:
        ctx.undecided('_parse_db_transaction: loop body not evaluable for an ordinary input: %s' % str(e)[:100])
    it.frames.pop()
    if len(seen) != 1:
        ctx.undecided('_parse_db_transaction: add_input called %d times for one cached input' % len(seen))
    wt = seen[0][0].get('witness_type')
    ctx.saw('ordinary cached input: add_input(..., witness_type=%s)' % (show(wt) if isinstance(wt, tuple) else wt))
    own = wt is None or (isinstance(wt, tuple) and NODE in list(subterms(('w', wt))) and ('var', 'db_tx') not in list(subterms(('w', wt))))
    ctx.require(own, q, 'an ordinary cached input is rebuilt with witness_type=%s, the value of the whole transaction' % (show(wt)[:60] if isinstance(wt, tuple) else wt), seen[0][1],
                'a legacy P2SH multisig input next to a P2WPKH input comes back from the cache typed segwit: verify() checks it against the BIP143 digest (False for a valid transaction) and raw() differs')


PROP.obligation('C01.stored-key-order')(_c08.key_order)
