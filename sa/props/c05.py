"""C05 Address <-> locking script mapping — templates, network guard, payload provenance, decoder table."""
import ast

from ..core import Property, AnalysisError, unparse, norm, walk_no_nested, fold, NotConst
from ..sym import Interp, S, term, show, subterms, State
from ..layout import LAYOUT_HOOKS
from ..cfg import build_cfg
from ..dfa import guards_of
from .. import intv, mut

PROP = Property(
    'C05', 'Standard script templates, one table for building and recognising scripts, network guard, payload provenance',
    'Static: the SCRIPT_TYPES templates for p2pkh / p2sh / p2wpkh / p2wsh / p2tr / p2pk / multisig / nulldata are compared with the standard '
    'scripts (opcode numbers resolved through the replayed opcode table); script instantiation and type inference both read that table; '
    'in Output.__init__ the payload taken from an address string is used only after the raise on a network mismatch (the guard is '
    'evaluated for empty / foreign / matching network lists), and for Address / HDKey objects the payload is the object\'s hash; '
    'deserialize_address maps base58 prefixes and bech32 program lengths / versions to script types as the standards prescribe; the '
    'script parser extracts the payload from the template\'s data position; the witness version of an address must reach the script. '
    'Mutual inverseness as an equality over all payloads is NOT decided.',
    ['the opcode numbering replayed from config/opcodes.py', 'hash160 / sha256'])

SELF = ('var', 'self')
A = lambda b, n: ('attr', b, n)


@PROP.obligation('C05.templates', canaries=[
    mut.replace_expr('config.config', None, "[op.op_hash160, 'data', op.op_equal]", "[op.op_hash160, 'data', op.op_equalverify]", 'p2sh template ends with EQUALVERIFY'),
    mut.replace_expr('config.config', None, "[op.op_0, 'data']", "[op.op_1, 'data']", 'p2wpkh template uses OP_1', nth=0),
])
def templates(ctx):
    """SCRIPT_TYPES: p2pkh = DUP HASH160 <20> EQUALVERIFY CHECKSIG, p2sh = HASH160 <20> EQUAL, p2wpkh = 0 <20>, p2wsh = 0 <32>,
    p2tr = OP_n <32>, p2pk = <key> CHECKSIG, multisig = OP_m <keys> OP_n CHECKMULTISIG, nulldata = RETURN <data>."""
    st = ctx.repo.consts('config.config').get('SCRIPT_TYPES')
    if not isinstance(st, dict):
        ctx.undecided('SCRIPT_TYPES is not a literal table')
    ctx.floor(len(st), 20, 'script templates')
    want = {
        'p2pkh': ('locking', [0x76, 0xa9, 'data', 0x88, 0xac], [20]),
        'p2sh': ('locking', [0xa9, 'data', 0x87], [20]),
        'p2wpkh': ('locking', [0x00, 'data'], [20]),
        'p2wsh': ('locking', [0x00, 'data'], [32]),
        'p2tr': ('locking', ['op_n', 'data'], [32]),
        'p2pk': ('locking', ['key', 0xac], []),
        'multisig': ('locking', ['op_n', 'key', 'op_n', 0xae], []),
        'nulldata': ('locking', [0x6a, 'data'], [0]),
    }
    for name, exp in want.items():
        got = st.get(name)
        got_n = (got[0], list(got[1]), list(got[2])) if got else None
        ctx.saw('%s: %s' % (name, got_n))
        ctx.require(got_n == (exp[0], exp[1], exp[2]), 'config.config:SCRIPT_TYPES', 'template %s is %s, the standard script is %s' % (name, got_n, exp), None,
                    'outputs built for that destination carry a non-standard script / standard scripts are not recognised')


@PROP.obligation('C05.blueprint', canaries=[
    mut.replace_expr('scripts', '_get_script_types', 'op.op_1 <= item <= op.op_16', 'item in range(op.op_1, op.op_16)', 'OP_16 not recognised as OP_n'),
    mut.replace_expr('scripts', 'get_data_type', '69 <= len(data) <= 74', '9 <= len(data) <= 74', 'payloads starting with 0x30 classified as signatures'),
    mut.replace_expr('scripts', 'get_data_type', 'len(data) == 32', 'len(data) == 33', '32-byte payloads not typed by length'),
])
def blueprint(ctx):
    """The two steps between a parsed script and its template: get_data_type types a 20- or 32-byte push as data-20 / data-32 whatever its
    content (a hash can start with any byte), and _get_script_types maps the blueprints OP_n <32> for every n in 1..16, 0 <20>, 0 <32>,
    DUP HASH160 <20> EQUALVERIFY CHECKSIG and HASH160 <20> EQUAL to p2tr / p2wpkh / p2wsh / p2pkh / p2sh and nothing else."""
    q = 'scripts:get_data_type'
    fn = ctx.repo.func(q)
    d = ('var', 'data')
    it = Interp(ctx.repo, 'scripts', decide=lambda t: False if isinstance(t, tuple) and t[0] == 'isinstance' else None)
    exits = it.run_function(fn, {'data': S(d, 'bytes')})
    for L in (20, 32):
        vals = {}
        for e in exits:
            if not intv.exit_feasible(e, {('len', d): L}):
                continue
            if e.kind != 'return':
                vals['raises'] = e
                continue
            v = term(e.value)
            if isinstance(v, tuple) and v[0] == 'fmt' and v[2] == ('len', d):
                v = v[1] % L
            vals[v if isinstance(v, str) else show(v)] = e
        ctx.saw('get_data_type(%d bytes) -> %s' % (L, sorted(vals)))
        for v, e in sorted(vals.items()):
            if v != 'data-%d' % L:
                ctx.violate(q, 'a %d-byte push is typed %r when %s' % (L, v, ' and '.join(('' if pol else 'not ') + show(t) for t, pol in e.pc if 'startswith' in show(t) or 'index' in show(t))[:200] or 'always'), e.node or fn,
                            'a locking script whose %d-byte hash has that content matches no template: no address / another script type is reported for a standard output' % L)
        if 'data-%d' % L not in vals:
            ctx.violate(q, 'a %d-byte push is never typed data-%d' % (L, L), fn)
    q = 'scripts:_get_script_types'
    fn = ctx.repo.func(q)
    cases = [([0x50 + n, 'data-32'], 'p2tr') for n in range(1, 17)] + [([0, 'data-20'], 'p2wpkh'), ([0, 'data-32'], 'p2wsh'), ([0x76, 0xa9, 'data-20', 0x88, 0xac], 'p2pkh'),
                                                                   ([0xa9, 'data-20', 0x87], 'p2sh'), ([0x50, 'data-32'], None), ([0x61, 'data-32'], None), ([0x4f, 'data-32'], None)]
    n = 0
    for bp, exp in cases:
        it = Interp(ctx.repo, 'scripts')
        try:
            ex = it.run_function(fn, {'blueprint': list(bp), 'is_locking': True})
        except AnalysisError as e:
            ctx.undecided('_get_script_types(%s) not evaluable: %s' % (bp, str(e)[:80]))
        rets = [term(e.value) for e in ex if e.kind == 'return']
        if len(rets) != 1 or not (isinstance(rets[0], tuple) and rets[0][0] == 'list'):
            ctx.undecided('_get_script_types(%s): result %s' % (bp, rets))
        got = list(rets[0][1:])
        n += 1
        if exp is not None:
            ctx.require(got == [exp], q, 'blueprint %s is matched as %s, the standard template is %s' % ([('%#x' % x if isinstance(x, int) else x) for x in bp], got, exp), fn,
                        'a standard locking script of that form is reported without address / as another type')
        else:
            ctx.require('p2tr' not in got, q, 'blueprint %s is matched as %s: the opcode is not a witness version' % ([('%#x' % x if isinstance(x, int) else x) for x in bp], got), fn)
    ctx.saw('%d blueprints (witness versions 1..16 with a 32-byte program, v0 programs, p2pkh, p2sh, three non-version opcodes) matched' % n)


@PROP.obligation('C05.single-source')
def single_source(ctx):
    """Script.__init__ (instantiation from script_types) and _get_script_types (inference) both read SCRIPT_TYPES; the P2PKH bytes
    hard-coded in Input.update_scripts equal the p2pkh template."""
    repo = ctx.repo
    for q in ('scripts:Script.__init__', 'scripts:_get_script_types'):
        fn = repo.func(q)
        uses = [n for n in ast.walk(fn) if isinstance(n, ast.Name) and n.id == 'SCRIPT_TYPES']
        ctx.saw('%s reads SCRIPT_TYPES %d times' % (q, len(uses)))
        ctx.require(bool(uses), q, 'does not consult SCRIPT_TYPES: building and recognising scripts can diverge', fn)
    st = repo.consts('config.config').get('SCRIPT_TYPES', {})
    tpl = st.get('p2pkh', (None, [], []))[1]
    fn = repo.func('transactions:Input.update_scripts')
    consts = [n.value for n in ast.walk(fn) if isinstance(n, ast.Constant) and isinstance(n.value, bytes) and len(n.value) >= 2]
    pre = bytes(x for x in tpl[:2] if isinstance(x, int)) + b'\x14'
    post = bytes(x for x in tpl[3:] if isinstance(x, int))
    ctx.saw('update_scripts byte constants %s ; template prefix %s suffix %s' % ([c.hex() for c in consts][:6], pre.hex(), post.hex()))
    ctx.require(pre in consts and post in consts, 'transactions:Input.update_scripts', 'hard-coded P2PKH script bytes differ from the p2pkh template', fn)


@PROP.obligation('C05.netguard', canaries=[
    mut.replace_expr('transactions', 'Output.__init__', 'self.network.name not in network_guesses', 'network_guesses and self.network.name not in network_guesses', 'addresses whose network cannot be determined are accepted'),
    mut.drop_stmt('transactions', 'Output.__init__', 'if self.network.name not in network_guesses', 'network check removed'),
])
def netguard(ctx):
    """Output.__init__, address-string path: the assignment of public_hash from the decoded address is reachable only when the raise on
    `self.network.name not in <networks of the address>` did not fire; that test is true for an empty list and for a list of other networks."""
    q = 'transactions:Output.__init__'
    fn = ctx.repo.func(q)
    g = build_cfg(fn)
    assigns = [n for n in g.nodes if n.kind == 'stmt' and isinstance(n.ast, ast.Assign) and unparse(n.ast.targets[0]) == 'self.public_hash' and 'address_dict' in unparse(n.ast.value)]
    if len(assigns) != 1:
        ctx.undecided('Output.__init__: payload assignment from the decoded address not found')
    ifs = [n for n in walk_no_nested(fn) if isinstance(n, ast.If) and any(isinstance(s, ast.Raise) for s in n.body) and 'network_guesses' in unparse(n.test)]
    if not ifs:
        ctx.violate(q, 'no raise depends on the networks of the address: the payload of an address string is used without a network comparison', assigns[0].ast,
                    'an address of another network is silently re-interpreted on the transaction\'s network')
        return
    tests = [n.id for n in g.nodes if n.kind == 'test' and any(sub is n.ast for sub in ast.walk(ifs[0].test))]
    before = bool(tests) and assigns[0].id not in g.reach([g.entry], blocked_nodes=tests)
    ctx.saw('raise on `%s` lies on every path to the payload assignment: %s' % (norm(ifs[0].test), before))
    ctx.require(before, q, 'the payload of the address is assigned on a path that does not pass the network test', assigns[0].ast)
    test = ifs[0].test
    it = Interp(ctx.repo, 'transactions', self_cls='transactions:Output')
    for guesses, must_raise in (([], True), (['litecoin', 'litecoin_legacy'], True), (['bitcoin'], False), (['testnet', 'bitcoin'], False)):
        st = State(env={'network_guesses': list(guesses), 'self': S(SELF)})
        st.heap[A(A(SELF, 'network'), 'name')] = 'bitcoin'
        t = it.truth(it.eval(test, st), st)
        ctx.saw('transaction network bitcoin, address networks %s -> raise: %s' % (guesses, t))
        if not isinstance(t, bool):
            ctx.undecided('network guard `%s` not decidable' % norm(test))
        if must_raise and not t:
            ctx.violate(q, 'an address belonging to networks %s is accepted on a bitcoin transaction (guard `%s`)' % (guesses or '(none recognised)', norm(test)), ifs[0],
                        'the output silently pays the same hash on another network')
        if not must_raise and t:
            ctx.violate(q, 'an address valid for %s is refused on a bitcoin transaction' % guesses, ifs[0])
    src = unparse(ifs[0].test)
    ctx.require("address_dict['networks']" in unparse(fn) , q, 'the network list is not the one decoded from the address', fn)
    # the block that decodes (and thereby validates) an address STRING is entered whenever the caller did not also state the encoding:
    # an address handed over together with a locking script, or with hash + script type (how provider clients, the cache and the wallet
    # loader build outputs), is still decoded and tested against the network
    dblocks = [n for n in ast.walk(fn) if isinstance(n, ast.If) and any(isinstance(c, ast.Call) and norm(c.func) == 'deserialize_address' for x in n.body for c in ast.walk(x))]
    if not dblocks:
        ctx.undecided('Output.__init__: block that decodes the address string not found')
    for label, ph, stype, enc, want in (('address alone', b'', None, None, True), ('address + locking script / hash + script type, no encoding', b'\x11' * 20, 'p2pkh', None, True),
                                        ('address + hash, no script type', b'\x11' * 20, None, None, True)):
        it2 = Interp(ctx.repo, 'transactions', self_cls='transactions:Output')
        st = State(env={'self': S(SELF), 'script_type': stype, 'encoding': enc})
        for k, v in (('_address', 'some-address'), ('public_hash', ph), ('script_type', stype), ('encoding', enc), ('public_key', b'')):
            st.heap[A(SELF, k)] = v
        t = it2.truth(it2.eval(dblocks[0].test, st), st)
        ctx.saw('%s -> address string decoded and checked: %s' % (label, t))
        if not isinstance(t, bool):
            ctx.undecided('Output.__init__: guard of the address decoding `%s` not decidable' % norm(dblocks[0].test)[:80])
        ctx.require(t is want, q, '%s: the address string is adopted without being decoded (guard `%s`)' % (label, norm(dblocks[0].test)[:100]), dblocks[0],
                    'a testnet / litecoin address - or plain garbage - passed together with a locking script is accepted into a bitcoin transaction and reported as its address')


@PROP.obligation('C05.object-payload', canaries=[
    mut.drop_stmt('transactions', 'Output.__init__', 'self.public_hash = self._address_obj.hash_bytes', 'payload of Address / HDKey objects not taken from the object'),
])
def object_payload(ctx):
    """Output.__init__, Address / HDKey object path: public_hash is the object's hash_bytes (for p2sh-segwit keys that is the hash of the
    redeem script, not hash160 of the public key), encoding / witness type come from the object."""
    q = 'transactions:Output.__init__'
    fn = ctx.repo.func(q)
    blocks = [n for n in walk_no_nested(fn) if isinstance(n, ast.If) and unparse(n.test) == 'self._address_obj']
    if not blocks:
        ctx.undecided('Output.__init__: block for address objects not found')
    sets = {}
    for b in blocks:
        for s in b.body:
            if isinstance(s, ast.Assign):
                sets[unparse(s.targets[0])] = norm(s.value)
    ctx.saw('address-object block sets %s' % sets)
    ctx.require(sets.get('self.public_hash') == 'self._address_obj.hash_bytes', q, 'public_hash is %s on the Address/HDKey path, expected the object\'s hash_bytes' % sets.get('self.public_hash', 'not set'), blocks[0],
                'an output built from a p2sh-segwit HD key commits to hash160(pubkey) instead of the redeem-script hash')
    ctx.require(sets.get('self.encoding') == 'self._address_obj.encoding', q, 'encoding is not taken from the address object', blocks[0])


@PROP.obligation('C05.hdkey-fresh-address', canaries=[
    mut.replace_expr('transactions', 'Output.__init__', 'address.address()', 'address.address_obj.address', 'output address taken from the cached Address of the key'),
])
def hdkey_fresh_address(ctx):
    """Output.__init__, HDKey destination: HDKey.address_obj is a cache that holds whatever Address was computed last (possibly a
    non-default one the caller looked at before). The branch must first call address.address() - which recomputes the key's default
    address and refreshes the cache - and only then read address.address_obj; otherwise the output reports an address of one type and
    carries the script of another."""
    q = 'transactions:Output.__init__'
    fn = ctx.repo.func(q)
    br = [n for n in ast.walk(fn) if isinstance(n, ast.If) and norm(n.test) == 'isinstance(address, HDKey)']
    if len(br) != 1:
        ctx.undecided('Output.__init__: HDKey branch not found')
    order = []
    for i, st_ in enumerate(br[0].body):
        for c in ast.walk(st_):
            if isinstance(c, ast.Call) and norm(c.func) == 'address.address' and not c.args and not c.keywords:
                order.append((i, 'recompute'))
            elif isinstance(c, ast.Attribute) and norm(c) == 'address.address_obj':
                order.append((i, 'read-cache'))
    ctx.saw('HDKey branch: %s' % order)
    reads = [i for i, k in order if k == 'read-cache']
    calls = [i for i, k in order if k == 'recompute']
    if not reads:
        ctx.unsure('%s: the HDKey branch does not read address.address_obj' % q)
    elif not calls or min(calls) > min(reads):
        ctx.violate(q, 'the HDKey branch reads the cached address.address_obj without recomputing the default address first', br[0],
                    'after key.address(encoding=..., script_type=...) was viewed, Output(value, key) reports that address but carries the default script')


@PROP.obligation('C05.object-network', canaries=[
    mut.replace_expr('transactions', 'Transaction.add_output', 'address.network.name != self.network.name', 'False', 'network comparison for address objects disabled'),
])
def object_network(ctx):
    """An Address / HDKey object of a network other than the transaction's is refused: either Output.__init__ compares the object's
    network with the network argument, or Transaction.add_output raises on `address.network != self.network` before it builds the Output."""
    q = 'transactions:Output.__init__'
    fn = ctx.repo.func(q)
    adopt = [n for n in walk_no_nested(fn) if isinstance(n, ast.Assign) and unparse(n.targets[0]) == 'self.network' and '_address_obj.network' in unparse(n.value)]
    compares = [n for n in ast.walk(fn) if isinstance(n, ast.Compare) and ('_address_obj.network' in unparse(n) or 'address.network' in unparse(n))]
    ctx.saw('Output.__init__: network adopted from the object: %s ; comparisons with the object network: %d' % ([norm(a) for a in adopt], len(compares)))
    # transaction level guard
    q2 = 'transactions:Transaction.add_output'
    f2 = ctx.repo.func(q2)
    g = build_cfg(f2)
    builds = [n for n in g.nodes if n.ast is not None and n.kind in ('stmt', 'return') and any(isinstance(c, ast.Call) and unparse(c.func) == 'Output' for c in ast.walk(n.ast))]
    if not builds:
        ctx.undecided('Transaction.add_output: construction of the Output not found')
    guarded = False
    for iff in [n for n in walk_no_nested(f2) if isinstance(n, ast.If) and n.body and isinstance(n.body[0], ast.Raise)]:
        test = iff.test
        cmps = [c for c in ast.walk(test) if isinstance(c, ast.Compare) and 'address.network' in unparse(c) and 'self.network' in unparse(c)]
        if not cmps:
            continue
        # the other conjuncts may only select the kind of object
        conj = test.values if isinstance(test, ast.BoolOp) and isinstance(test.op, ast.And) else [test]
        others = [c for c in conj if c is not cmps[0]]
        kinds_only = all(isinstance(c, ast.Call) and unparse(c.func) == 'isinstance' and unparse(c.args[0]) == 'address' and
                         set(e.id for e in ast.walk(c.args[1]) if isinstance(e, ast.Name)) >= {'Address', 'HDKey'} for c in others)
        if cmps[0] not in conj or not kinds_only:
            ctx.saw('add_output guard `%s` has conjuncts besides the object kind: not counted' % norm(test))
            continue
        it = Interp(ctx.repo, 'transactions', self_cls='transactions:Transaction')
        verdict = {}
        for an, tn in (('litecoin', 'bitcoin'), ('bitcoin', 'bitcoin')):
            st = State(env={'self': S(SELF), 'address': S(('var', 'address'))})
            st.heap[A(A(SELF, 'network'), 'name')] = tn
            st.heap[A(A(('var', 'address'), 'network'), 'name')] = an
            verdict[(an, tn)] = it.truth(it.eval(cmps[0], st), st)
        ctx.saw('add_output guard `%s`: %s' % (norm(test), verdict))
        # every path to the construction passes the test nodes of this if
        tests = [n.id for n in g.nodes if n.kind == 'test' and any(sub is n.ast or n.ast is iff.test for sub in ast.walk(iff.test))]
        before = bool(tests) and builds[0].id not in g.reach([g.entry], blocked_nodes=tests)
        if verdict.get(('litecoin', 'bitcoin')) is True and verdict.get(('bitcoin', 'bitcoin')) is False and before:
            guarded = True
    ctx.saw('Transaction.add_output refuses objects of another network before building the Output: %s' % guarded)
    if adopt and not compares and not guarded:
        ctx.violate(q, 'the output adopts the network of the Address / HDKey object (`%s`) and neither Output.__init__ nor Transaction.add_output compares it with the transaction network' % norm(adopt[0]), adopt[0],
                    'Transaction(network=bitcoin).add_output(value, <litecoin Address object>) is accepted: the same hash is paid on another network')


@PROP.obligation('C05.deser', canaries=[
    mut.replace_expr('keys', 'deserialize_address', "'p2wsh' if not witver else 'p2tr'", "'p2wsh'", '32-byte v1 programs reported as p2wsh'),
    mut.replace_expr('keys', 'deserialize_address', 'len(public_key_hash) == 20', 'len(public_key_hash) <= 20', 'short programs reported as p2wpkh'),
    mut.replace_expr('keys', 'deserialize_address', 'len(public_key_hash) == 20 and (not witver)', 'len(public_key_hash) == 20', 'every 20-byte program is P2WPKH whatever its witness version'),
])
def deser(ctx):
    """deserialize_address: bech32 program of 20 bytes -> p2wpkh, otherwise version 0 -> p2wsh and version >= 1 -> p2tr (witness type
    taproot); base58: prefix found only among prefix_address -> p2pkh, among prefix_address_p2sh -> p2sh (table look-ups on the decoded
    version byte)."""
    q = 'keys:deserialize_address'
    fn = ctx.repo.func(q)
    it = Interp(ctx.repo, 'keys', hooks=LAYOUT_HOOKS)
    exits = it.run_function(fn, {'address': S(('var', 'address'), 'str'), 'encoding': 'bech32', 'network': None})
    rets = [e for e in exits if e.kind == 'return' and isinstance(e.value, dict)]
    if not rets:
        ctx.undecided('deserialize_address(bech32): no dictionary result')
    d = rets[-1].value
    stt = term(d.get('script_type'))
    call = [s for s in subterms(('w', stt)) if isinstance(s, tuple) and s[0] == 'len']
    wv = [s for s in subterms(('w', term(d.get('witver')))) if isinstance(s, tuple) and s[0] == 'index']
    if not call:
        ctx.undecided('script type of a bech32 address does not depend on the program length')
    L = call[0]
    raws = sorted(set(s for s in subterms(('w', stt)) if isinstance(s, tuple) and s[0] == 'index' and s[2] == 0), key=repr)
    if len(raws) > 1:
        ctx.undecided('script type of a bech32 address does not depend on the version byte of the decoded program')
    table = {}
    for ln in (20, 32, 2, 40):
        for ver in (0, 1, 16):
            try:
                sub = {L: ln}
                if raws:
                    sub[raws[0]] = 0 if not ver else 0x50 + ver
                table[(ln, ver)] = intv.tree_eval(stt, sub)
            except intv.Unknown as e:
                ctx.undecided('bech32 script type not decidable for a %d byte program of version %d: %s' % (ln, ver, str(e)[:80]))
    ctx.saw('bech32 (program length, version) -> script type: %s' % {k: v for k, v in sorted(table.items())})
    # a 20-byte program is P2WPKH under version 0 only: under versions 1..16 it is a witness-vN program like any other length
    exp = {(20, 0): 'p2wpkh', (32, 0): 'p2wsh', (32, 1): 'p2tr', (32, 16): 'p2tr', (2, 1): 'p2tr', (40, 1): 'p2tr', (20, 1): 'p2tr', (20, 16): 'p2tr', (2, 0): 'p2wsh'}
    for k, v in exp.items():
        ctx.require(table.get(k) == v, q, 'bech32 program of %d bytes with witness version %d is reported as %s, expected %s' % (k[0], k[1], table.get(k), v), fn,
                    'locking scripts are reported with the wrong address type')
    # base58 branch: table look-ups
    exits = it.run_function(fn, {'address': S(('var', 'address'), 'str'), 'encoding': 'base58', 'network': None})
    rets = [e for e in exits if e.kind == 'return' and isinstance(e.value, dict)]
    if not rets:
        ctx.undecided('deserialize_address(base58): no dictionary result')
    stt = term(rets[-1].value.get('script_type'))
    looks = sorted(set(s[2][0] for s in subterms(('w', stt)) if isinstance(s, tuple) and s[0] == 'call' and s[1] == 'network_by_value' and s[2]))
    ctx.saw('base58 script type decided by look-ups in %s' % looks)
    ctx.require(looks == ['prefix_address', 'prefix_address_p2sh'], q, 'base58 script type is decided by %s, expected the prefix_address / prefix_address_p2sh tables' % looks, fn)
    leaves = set()
    def lv(t):
        if isinstance(t, tuple) and t and t[0] == 'cond':
            lv(t[2]); lv(t[3])
        else:
            leaves.add(t)
    lv(stt)
    leaves = sorted(x for x in leaves if x != '')
    ctx.require(leaves == ['p2pkh', 'p2sh'], q, 'base58 addresses are classified as %s' % leaves, fn)


@PROP.obligation('C05.parse-fields', canaries=[
    mut.replace_expr('keys', 'Address.parse', "addr_dict['witver'] or 0", '0', 'witness version of a parsed address dropped'),
    mut.replace_stmt('keys', 'Address.parse', 'if network is None:', "network = addr_dict['network']", 'explicit network argument replaced by the decoded one'),
])
def parse_fields(ctx):
    """Address.parse hands every decoded field of deserialize_address to the Address it returns: payload, prefix, script type, witness type,
    encoding and the witness version (a parsed bc1p... address must not re-encode as version 0)."""
    q = 'keys:Address.parse'
    fn = ctx.repo.func(q)
    it = Interp(ctx.repo, 'keys', hooks=LAYOUT_HOOKS)
    fields = ('public_key_hash_bytes', 'prefix', 'script_type', 'witness_type', 'encoding', 'witver', 'network')
    hooks = dict(LAYOUT_HOOKS)
    hooks['deserialize_address'] = lambda interp, args, kwargs, st, node: {f: S(('decoded', f)) for f in fields}
    it = Interp(ctx.repo, 'keys', hooks=hooks, self_cls='keys:Address')
    exits = it.run_function(fn, {'cls': S(('global', 'Address')), 'address': S(('var', 'address'), 'str'), 'encoding': 'bech32', 'network': None})
    rets = [e for e in exits if e.kind == 'return']
    if not rets:
        ctx.undecided('Address.parse: no return')
    t = term(rets[-1].value)
    if not (isinstance(t, tuple) and t[0] == 'call' and t[1] == 'Address'):
        ctx.undecided('Address.parse does not return Address(...): %s' % show(t)[:100])
    kw = dict(t[3])
    want = {'hashed_data': 'public_key_hash_bytes', 'prefix': 'prefix', 'script_type': 'script_type', 'witness_type': 'witness_type', 'encoding': 'encoding', 'witver': 'witver', 'network': 'network'}
    got = {}
    for k, f in want.items():
        v = kw.get(k)
        src = sorted(set(s_[1] for s_ in subterms(('w', v)) if isinstance(s_, tuple) and len(s_) == 2 and s_[0] == 'decoded'))
        got[k] = src
        ctx.require(src == [f], q, 'Address(%s=...) is built from decoded fields %s, expected %s' % (k, src, f), fn,
                    'the parsed address re-encodes differently (a taproot address comes back as a version 0 address of the same program)' if k == 'witver' else 'the parsed Address does not describe the address string')
    ctx.saw('Address(...) arguments come from decoded fields %s' % got)
    # an address whose prefix belongs to no known network has decoded network None: nothing may be substituted for it
    consts = [s_ for s_ in subterms(('w', kw.get('network'))) if (isinstance(s_, str) and s_ not in ('decoded', 'network', 'cond', 'not', 'bool', 'or', 'and')) or (isinstance(s_, tuple) and s_ and s_[0] == 'global')]
    ctx.require(not consts, q, 'the network of the parsed address can fall back to %s when the address belongs to no known network' % [show(c) for c in consts][:2], fn,
                'a checksum-valid string with an unknown version byte / prefix parses as a bitcoin address')
    # an explicit network argument is kept: bech32 prefixes are shared (tb: testnet / testnet4 / signet, ltc: litecoin / litecoin_legacy)
    # and the decoder reports the first network of the family, whatever the caller named
    it = Interp(ctx.repo, 'keys', hooks=hooks, self_cls='keys:Address')
    exits = it.run_function(fn, {'cls': S(('global', 'Address')), 'address': S(('var', 'address'), 'str'), 'encoding': 'bech32', 'network': S(('var', 'network'), 'str')})
    rets = [e for e in exits if e.kind == 'return']
    if not rets:
        ctx.undecided('Address.parse(network=...): no return')
    t2 = term(rets[-1].value)
    nw = dict(t2[3]).get('network') if isinstance(t2, tuple) and t2[0] == 'call' and t2[1] == 'Address' else None
    ctx.saw('Address.parse(address, network=N) builds Address(network=%s)' % show(nw)[:80])
    ctx.require(nw == ('var', 'network'), q, 'with an explicit network argument the parsed Address gets network=%s' % show(nw)[:100], fn,
                'Address.parse(<tb1... address>, network="signet") is relabelled testnet: Transaction(network="signet").add_output(value, that address) raises, Output adopts the other network')


@PROP.obligation('C05.bare-program', canaries=[
    mut.replace_expr('encoding', 'pubkeyhash_to_addr_bech32', 'len(pubkeyhash) not in [20, 32, 40]', 'len(pubkeyhash) not in [20, 32, 40] or (81 <= pubkeyhash[0] <= 96 and pubkeyhash[1] == len(pubkeyhash) - 2)', 'bare witness programs sniffed for a script prefix'),
])
def bare_program(ctx):
    """encoding.pubkeyhash_to_addr_bech32 given a bare witness program of 20 / 32 / 40 bytes: evaluated with the length test decided that
    way and the program symbolic, no branch decision and not the witness version may depend on the BYTES of the program - a payload whose
    first bytes happen to look like `OP_n <len>` must not be stripped and re-versioned."""
    q = 'encoding:pubkeyhash_to_addr_bech32'
    fn = ctx.repo.func(q)

    def decide(t):
        if isinstance(t, tuple) and t[0] == 'cmp' and t[1] in ('not in', 'in') and isinstance(t[2], tuple) and t[2][0] == 'len' and isinstance(t[3], tuple) and set(t[3][1:]) == {20, 32, 40}:
            return t[1] == 'in'
        return None
    it = Interp(ctx.repo, 'encoding', decide=decide)
    exits = it.run_function(fn, {'pubkeyhash': S(('var', 'pubkeyhash'), 'bytes'), 'prefix': 'bc', 'witver': S(('var', 'witver'), 'int'), 'separator': '1', 'checksum_xor': 1})
    rets = [e for e in exits if e.kind == 'return']
    if not rets:
        ctx.undecided('pubkeyhash_to_addr_bech32: no return path for a bare program')

    def content_reads(t):
        out = []
        for s_ in subterms(('w', t)):
            if isinstance(s_, tuple) and s_ and s_[0] == 'index' and isinstance(s_[2], int) and 'pubkeyhash' in show(s_[1]):
                out.append(s_)
        return out
    bad = []
    for e in exits:
        for t, pol in e.pc:
            bad += content_reads(t)
    ctx.saw('bare program: %d exits, decisions that read bytes of the program: %s' % (len(exits), sorted(set(show(b)[:60] for b in bad))))
    if bad:
        ctx.violate(q, 'for a bare 20 / 32 / 40 byte program a branch decision reads %s of the payload' % sorted(set(show(b)[:40] for b in bad))[0], fn,
                    'a P2WPKH / P2WSH payload that starts with `51..60 <len-2>` is stripped of two bytes and encoded with another witness version')
    # the version that is encoded: the witver argument (or its bech32m default), never a byte of the program
    for e in rets:
        t = term(e.value)
        ver = [s_ for s_ in subterms(('w', t)) if isinstance(s_, tuple) and s_ and s_[0] == 'binop' and s_[1] == '-' and s_[3] == 0x50]
        ctx.require(not ver, q, 'the witness version of a bare program is computed from its first byte', fn)


@PROP.obligation('C05.address-obj-args', canaries=[
    mut.replace_expr('transactions', 'Output.address_obj', 'Address(hashed_data=self.public_hash, script_type=self.script_type, witver=self.witver, encoding=self.encoding, network=self.network)',
                     'Address(hashed_data=self.public_hash, script_type=self.script_type, witness_type=self.witness_type, witver=self.witver, encoding=self.encoding, network=self.network)', 'witness_type hint passed to the lazily built Address'),
])
def address_obj_args(ctx):
    """Output.address_obj builds the reported address from the output's own payload, script type, witness version, encoding and network -
    and from nothing else. Address.__init__ derives the witness type (and for p2tr the version 1 default, for p2sh-segwit the redeem
    script wrapping) only when no witness_type is passed, so handing it the output's witness_type hint makes a p2tr output built from a
    hash report a bc1q (version 0) address and a hinted P2SH output the address of another hash."""
    q = 'transactions:Output.address_obj'
    fn = ctx.repo.func(q)
    calls = [c for c in ast.walk(fn) if isinstance(c, ast.Call) and norm(c.func) == 'Address']
    if len(calls) != 1:
        ctx.undecided('Output.address_obj: construction of the Address not found')
    kw = {k.arg: norm(k.value) for k in calls[0].keywords}
    ctx.saw('Address(%s)' % ', '.join('%s=%s' % kv for kv in sorted(kw.items())))
    want = {'hashed_data': 'self.public_hash', 'script_type': 'self.script_type', 'witver': 'self.witver', 'encoding': 'self.encoding', 'network': 'self.network'}
    for k, v in want.items():
        if k not in kw:
            ctx.violate(q, 'the Address of an output is built without %s' % k, calls[0], 'the reported address does not correspond to the locking script')
        else:
            ctx.match(q, 'argument %s of the output Address' % k, [x.value for x in calls[0].keywords if x.arg == k][0], v, fn, calls[0])
    extra = sorted(set(kw) - set(want))
    if extra:
        ctx.violate(q, 'the Address of an output additionally receives %s: Address.__init__ then skips its own derivation of witness type / version' % extra, calls[0],
                    "Output(value, public_hash=h32, script_type='p2tr') carries 5120<h32> but reports a bc1q (version 0) address")
    ctx.require(not calls[0].args, q, 'positional arguments in the Address construction', calls[0])


@PROP.obligation('C05.payload', canaries=[
    mut.replace_expr('scripts', 'Script.parse_bytesio', 's.commands[2]', 's.commands[1]', 'p2pkh payload taken from the opcode position'),
])
def payload(ctx):
    """Script.parse_bytesio: the payload (public_hash) extracted per recognised type is the data command of its template: command 1 for
    p2sh / p2wpkh / p2wsh / p2tr, command 2 for p2pkh."""
    q = 'scripts:Script.parse_bytesio'
    fn = ctx.repo.func(q)
    st = ctx.repo.consts('config.config').get('SCRIPT_TYPES', {})
    found = {}
    for n in walk_no_nested(fn):
        if isinstance(n, ast.If):
            cur = n
            while isinstance(cur, ast.If):
                for s in cur.body:
                    if isinstance(s, ast.Assign) and unparse(s.targets[0]) == 's.public_hash' and isinstance(s.value, ast.Subscript) and unparse(s.value.value) == 's.commands':
                        try:
                            types = fold(cur.test.values[0].comparators[0]) if isinstance(cur.test, ast.BoolOp) and isinstance(cur.test.values[0].ops[0], ast.In) else [fold(cur.test.values[0].comparators[0])]
                        except Exception:
                            continue
                        for t in types:
                            found[t] = fold(s.value.slice)
                cur = cur.orelse[0] if len(cur.orelse) == 1 and isinstance(cur.orelse[0], ast.If) else None
    ctx.saw('payload command index per type: %s' % found)
    ctx.floor(len(found), 5, 'script types with payload extraction')
    for t, idx in found.items():
        tpl = st.get(t)
        if not tpl or t.endswith('_unlock'):
            continue
        want = list(tpl[1]).index('data') if 'data' in tpl[1] else None
        if want is None:
            continue
        ctx.require(idx == want, q, 'payload of %s is read from command %d, the template has its data at position %d' % (t, idx, want), fn,
                    'the address reported for a standard locking script is wrong')


@PROP.obligation('C05.witver', canaries=[
    mut.replace_expr('transactions', 'Output.__init__', "address_dict['witver'] or 0", '1', 'witness version of an address string ignored'),
])
def witver(ctx):
    """The witness version of a bech32(m) destination reaches the locking script: the value that instantiates the template's OP_n is
    derived from the witness version decoded from the address string / held by the Address object."""
    q = 'scripts:Script.__init__'
    fn = ctx.repo.func(q)
    opn = [n for n in walk_no_nested(fn) if isinstance(n, ast.If) and "tc == 'op_n'" in unparse(n.test)]
    if not opn:
        ctx.undecided("Script.__init__: handling of template element 'op_n' not found")
    body = ' '.join(norm(s) for s in opn[0].body)
    ctx.saw("template element 'op_n' -> %s" % body)
    qo = 'transactions:Output.__init__'
    out = ctx.repo.func(qo)
    calls = [c for c in ast.walk(out) if isinstance(c, ast.Call) and unparse(c.func) == 'Script' and any(k.arg == 'script_types' for k in c.keywords)]
    if not calls:
        ctx.undecided('Output.__init__: Script(script_types=...) construction not found')
    kws = {k.arg: k.value for k in calls[0].keywords}
    carrier = [k for k, v in kws.items() if 'witver' in unparse(v) or k == 'witver']
    ctx.saw('Output.__init__ passes a witness version to Script(...): %s' % ({k: norm(kws[k]) for k in carrier} or False))
    if 'witver' not in body and not carrier:
        ctx.violate(qo, 'the locking script of a witness destination is built with OP_n from `%s`; the witness version (witver) never reaches Script(...)' % body, calls[0],
                    'a bech32m address with witness version 2..16 gets an OP_1 script: funds go to a different witness program version')
        return
    # the version must come from the decoded address / the address object on both paths
    srcs = {}
    for n in ast.walk(out):
        if isinstance(n, ast.Assign) and unparse(n.targets[0]) == 'self.witver':
            srcs[norm(n.value)] = n
    ctx.saw('self.witver assigned from %s' % sorted(srcs))
    ctx.require(any("address_dict['witver']" in s for s in srcs), qo, 'the witness version decoded from an address string is not stored (self.witver is set from %s)' % sorted(srcs), out,
                'a bech32m address string with witness version 2..16 gets an OP_1 script')
    ctx.require(any('_address_obj.witver' in s for s in srcs), qo, 'the witness version of an Address object is not stored (self.witver is set from %s)' % sorted(srcs), out,
                'an Address object with witness version 2..16 gets an OP_1 script')
    # and the carrier must end in the op_n element: sigs_required -> sig_n_and_m.pop()
    if carrier and 'witver' not in body:
        k = carrier[0]
        ctx.require(k == 'sigs_required' and 'sig_n_and_m.pop()' in body and 'self.sigs_required' in unparse(fn), qo,
                    'the witness version is passed as `%s`, which does not instantiate the OP_n element of the template' % k, calls[0])


@PROP.obligation('C05.script-built', canaries=[
    mut.replace_expr('scripts', 'Script.__init__', 'sig_n_and_m.pop() + 80', 'sig_n_and_m.pop() + 81', 'OP_n of a built script off by one'),
    mut.replace_expr('transactions', 'Output.__init__', "self.witver if self.script_type == 'p2tr' else None", "None", 'witness version not handed to the script constructor'),
    mut.replace_expr('transactions', 'Output.__init__', "self.witver if self.script_type == 'p2tr' else None", "witver if self.script_type == 'p2tr' else None", 'the witness version handed to the script constructor is the parameter default, not the one of the address'),
    mut.replace_expr('scripts', 'Script.__init__', 'sigs_required if sigs_required else len(self.keys) if len(self.keys) else 1',
                     'min(sigs_required, max(len(self.keys), 1)) if sigs_required else len(self.keys) if len(self.keys) else 1',
                     'sigs_required clamped to the number of keys (the slot carries the witness version)'),
])
def script_built(ctx):
    """The Script(...) construction in Output.__init__ evaluated end to end: its keyword arguments are evaluated for an output that holds
    a 20- or 32-byte hash, no public key and script type p2pkh / p2sh / p2wpkh / p2wsh / p2tr with witness version 1..16, and
    Script.__init__ is run on them. The command list must be the standard locking script for every one of the 20 destinations, and the
    constructor must not refuse any of them."""
    qo = 'transactions:Output.__init__'
    out = ctx.repo.func(qo)
    calls = [c for c in ast.walk(out) if isinstance(c, ast.Call) and unparse(c.func) == 'Script' and any(k.arg == 'script_types' for k in c.keywords)]
    if len(calls) != 1 or calls[0].args:
        ctx.undecided('Output.__init__: %d Script(script_types=...) constructions with keyword arguments only, expected 1' % len(calls))
    q = 'scripts:Script.__init__'
    fn = ctx.repo.func(q)
    a = fn.args
    names = [x.arg for x in a.args]
    defaults = {}
    for n_, d in zip(names[len(names) - len(a.defaults):], a.defaults):
        try:
            defaults[n_] = ast.literal_eval(d)
        except Exception:
            defaults[n_] = S(('var', n_))
    H20, H32 = b'\x11' * 20, b'\x22' * 32
    cases = [('p2pkh', H20, 0, [0x76, 0xa9, H20, 0x88, 0xac]), ('p2sh', H20, 0, [0xa9, H20, 0x87]), ('p2wpkh', H20, 0, [0, H20]), ('p2wsh', H32, 0, [0, H32])]
    cases += [('p2tr', H32, v, [0x50 + v, H32]) for v in range(1, 17)]
    n = 0
    for stype, h, wv, want in cases:
        what = '%s%s' % (stype, ' witness version %d' % wv if stype == 'p2tr' else '')
        oi = Interp(ctx.repo, 'transactions')
        # the constructor's own parameters keep their declared defaults (the output is described by an address, whose witness version
        # Output.__init__ has stored in self.witver): an expression that reads the PARAMETER `witver` sees 0
        oenv = {'self': S(SELF)}
        oa = out.args
        onames = [x.arg for x in oa.args]
        for n_, d in zip(onames[len(onames) - len(oa.defaults):], oa.defaults):
            try:
                oenv[n_] = ast.literal_eval(d)
            except Exception:
                pass
        st = State(env=oenv, heap={A(SELF, 'script_type'): stype, A(SELF, 'public_hash'): h, A(SELF, 'public_key'): b'', A(SELF, 'witver'): wv})
        args = dict(defaults)
        args['self'] = S(('var', 'script'))
        try:
            for k in calls[0].keywords:
                if k.arg is None:
                    ctx.undecided('Output.__init__: Script(**...) not evaluable')
                args[k.arg] = oi.eval(k.value, st)
            it = Interp(ctx.repo, 'scripts', self_cls='scripts:Script')
            exits = it.run_function(fn, args)
        except AnalysisError as e:
            ctx.undecided('Script(...) for a %s output not evaluable: %s' % (what, str(e)[:100]))
        if any(e.pc for e in exits):
            ctx.undecided('Script(...) for a %s output: outcome depends on %s' % (what, [show(t)[:60] for e in exits for t, _ in e.pc][:3]))
        rets = [e for e in exits if e.kind == 'return']
        n += 1
        if not rets:
            r = [e for e in exits if e.kind == 'raise']
            ctx.violate(q, 'the constructor refuses the arguments Output.__init__ hands over for a %s destination (%s)' % (what, ', '.join('%s=%s' % (k.arg, show(term(args[k.arg]))[:24]) for k in calls[0].keywords)),
                        (r[0].node if r else None) or fn, 'no output can be built for a standard address of that kind, while a script of that form is still reported with the address: the two directions are no longer inverse')
            continue
        got = term(rets[0].heap.get(A(('var', 'script'), 'commands')))
        got = list(got[1:]) if isinstance(got, tuple) and got and got[0] == 'list' else got
        got = [term(x) for x in got] if isinstance(got, list) else got
        ctx.saw('%s -> commands %s' % (what, show(got)[:80]))
        ctx.require(got == want, q, 'an output to a %s destination is built with the commands %s, the standard script is %s' % (what, show(got)[:120], show(want)[:120]), fn,
                    'funds are locked to another script than the one the address stands for')
    ctx.floor(n, 20, 'destinations')


@PROP.obligation('C05.hash-defaults', canaries=[
    mut.replace_stmt('transactions', 'Output.__init__', "self.script_type = 'p2pkh'", "self.script_type = 'p2pkh' if self.witness_type == 'legacy' else 'p2wpkh'", 'script type of a bare hash follows the witness type argument instead of the encoding'),
])
def hash_defaults(ctx):
    """Output.__init__ evaluated as a whole for a destination given as a bare public-key hash: the script type and the encoding it ends
    with belong together for every way of selecting the form (encoding='base58' / 'bech32' / none, witness_type legacy / segwit / none):
    base58 -> p2pkh, bech32 -> p2wpkh. Otherwise the output carries the script of one form and reports the address of the other."""
    q = 'transactions:Output.__init__'
    fn = ctx.repo.func(q)
    a = fn.args
    names = [x.arg for x in a.args]
    defaults = {}
    for n_, d in zip(names[len(names) - len(a.defaults):], a.defaults):
        try:
            defaults[n_] = ast.literal_eval(d)
        except Exception:
            defaults[n_] = S(('var', n_))

    def decide(t):
        # parsing an empty locking script yields no script type
        if isinstance(t, tuple) and t and t[0] == 'mcall' and t[2] == 'parse_bytes' and t[3] and t[3][0] == b'':
            return False
        return None
    n = 0
    for enc, wt in (('base58', None), ('bech32', None), (None, None), ('base58', 'legacy'), (None, 'legacy'), (None, 'segwit'), ('bech32', 'segwit')):
        args = dict(defaults)
        args.update({'self': S(SELF), 'value': 1000, 'public_hash': S(('var', 'h'), 'bytes'), 'encoding': enc, 'witness_type': wt, 'strict': False, 'network': S(('var', 'network'))})
        it = Interp(ctx.repo, 'transactions', hooks=LAYOUT_HOOKS, self_cls='transactions:Output', decide=decide)
        try:
            exits = it.run_function(fn, args)
        except AnalysisError as e:
            ctx.undecided('Output.__init__(public_hash, encoding=%r, witness_type=%r) not evaluable: %s' % (enc, wt, str(e)[:80]))
        rets = [e for e in exits if e.kind == 'return']
        if len(rets) != 1:
            ctx.undecided('Output.__init__(public_hash, encoding=%r, witness_type=%r): %d normal exits' % (enc, wt, len(rets)))
        st_, en_ = term(rets[0].heap.get(A(SELF, 'script_type'))), term(rets[0].heap.get(A(SELF, 'encoding')))
        n += 1
        ctx.saw('public_hash, encoding=%s, witness_type=%s -> script type %s, encoding %s' % (enc, wt, show(st_)[:40], show(en_)[:40]))
        if not (isinstance(st_, str) and isinstance(en_, str)):
            ctx.undecided('Output.__init__(public_hash, encoding=%r, witness_type=%r): script type %s / encoding %s not decided' % (enc, wt, show(st_)[:60], show(en_)[:60]))
        ok = (en_ == 'base58' and st_ == 'p2pkh') or (en_ == 'bech32' and st_ == 'p2wpkh')
        ctx.require(ok, q, 'a bare hash with encoding=%r, witness_type=%r becomes a %s script with %s address encoding' % (enc, wt, st_, en_), fn,
                    'add_output(value, public_hash=h, encoding="base58") carries the script 0014<h> but reports the base58 P2PKH address: script and address are no longer inverse')
        if enc is not None:
            ctx.require(en_ == enc, q, 'the encoding asked for (%r) is replaced by %r' % (enc, en_), fn)
    ctx.floor(n, 7, 'form selections')


def network_by_value_exact(ctx):
    """networks.network_by_value evaluated on a small table (bitcoin: bech32 prefix bc / address version 00, regtest: bcrt / 6F, testnet: tb / 6F):
    a value selects exactly the networks whose field EQUALS it - `bcrt` is not also bitcoin because it starts with `bc`, an upper-case
    human-readable part `BC` matches nothing (the table is lower case; only the hexadecimal fields are retried in upper case), and the
    answer is ordered by priority."""
    q = 'networks:network_by_value'
    fn = ctx.repo.func(q)
    table = {'bitcoin': {'prefix_bech32': 'bc', 'prefix_address': '00', 'priority': 10},
             'testnet': {'prefix_bech32': 'tb', 'prefix_address': '6F', 'priority': 8},
             'regtest': {'prefix_bech32': 'bcrt', 'prefix_address': '6F', 'priority': 5}}
    cases = [('prefix_bech32', 'bc', ['bitcoin']), ('prefix_bech32', 'bcrt', ['regtest']), ('prefix_bech32', 'tb', ['testnet']), ('prefix_bech32', 'b', []),
             ('prefix_bech32', 'BC', []), ('prefix_bech32', 'TB', []), ('prefix_address', '6F', ['testnet', 'regtest']), ('prefix_address', '6f', ['testnet', 'regtest']),
             ('prefix_address', '00', ['bitcoin']), ('prefix_address', '6F00', []), ('prefix_bech32', 'bcx', [])]
    n = 0
    for field, value, want in cases:
        it = Interp(ctx.repo, 'networks')
        it.consts = dict(it.consts)
        it.consts['NETWORK_DEFINITIONS'] = table
        try:
            exits = it.run_function(fn, {'field': field, 'value': value})
        except AnalysisError as e:
            ctx.undecided('network_by_value(%r, %r) not evaluable: %s' % (field, value, str(e)[:80]))
        rets = [term(e.value) for e in exits if e.kind == 'return']
        if len(rets) != 1 or not (isinstance(rets[0], tuple) and rets[0][0] == 'list'):
            ctx.undecided('network_by_value(%r, %r) evaluates to %s' % (field, value, [show(r)[:60] for r in rets]))
        got = list(rets[0][1:])
        n += 1
        ctx.require(got == want, q, 'network_by_value(%r, %r) selects %s, the table says %s' % (field, value, got, want), fn,
                    'a bcrt1... address is accepted on a bitcoin transaction and re-read as bc1...; an upper-case BC1... address is given a network and re-encoded with a mixed-case string'
                    if field == 'prefix_bech32' else 'a version byte selects the wrong networks')
    ctx.saw('network_by_value: %d look-ups on a 3-network table select by equality, in priority order' % n)


PROP.obligation('C05.network-lookup', canaries=[
    mut.replace_expr('networks', 'network_by_value', 'NETWORK_DEFINITIONS[nv][field] == value', 'value.startswith(NETWORK_DEFINITIONS[nv][field])', 'prefixes matched by startswith', nth=0),
])(network_by_value_exact)


@PROP.obligation('C05.network-forwarded', canaries=[
    mut.replace_expr('transactions', 'Transaction.parse_bytesio', 'Output.parse(rawtx, output_n=n, strict=strict, network=network)', 'Output.parse(rawtx, output_n=n, strict=strict, network=cls.network)', 'outputs parsed with the network a class attribute remembers'),
])
def network_forwarded(ctx):
    """A parser or constructor of transactions.py / blocks.py / keys.py that takes a `network` argument reports addresses for THAT network:
    wherever it hands a network on (`network=...` in a call), the value is its own parameter (or, in a method, self.network) - not a
    class attribute or module variable that remembers the network of an earlier call."""
    n = 0
    for modname in ('transactions', 'blocks', 'keys', 'scripts'):
        m = ctx.repo.mod(modname)
        for qn, fn in sorted(m.functions.items()):
            ps = [a.arg for a in fn.args.posonlyargs + fn.args.args + fn.args.kwonlyargs]
            if 'network' not in ps:
                continue
            for c in ast.walk(fn):
                if not isinstance(c, ast.Call):
                    continue
                for k in c.keywords:
                    if k.arg != 'network':
                        continue
                    n += 1
                    names = set(x.id for x in ast.walk(k.value) if isinstance(x, ast.Name))
                    ok = 'network' in names or norm(k.value).startswith('self.network')
                    if not ok:
                        ctx.violate('%s:%s' % (modname, qn), '`%s` receives network=%s although the function was given its own `network`' % (norm(c.func)[:40], norm(k.value)[:40]), c,
                                    'a transaction parsed with a Network object after an earlier parse of another network reports every standard script with the earlier network\'s address (tb1q... shown as bc1q...)')
    ctx.saw('%d `network=` arguments inside functions that take a network: each passes the function\'s own' % n)
    ctx.floor(n, 20, 'network arguments')


from . import c04 as _c04
PROP.obligation('C05.address-cache', canaries=[
    mut.replace_expr('keys', 'Key.address', 'self._address_obj.network == self.network', 'True', 'an output to a key object reports the address of the network the key had before network_change'),
])(_c04.address_cache)


@PROP.obligation('C05.bech32-network-filter', canaries=[
    mut.drop_stmt('keys', 'deserialize_address', 'if network not in networks', 'bech32 addresses of another network pass the network filter', nth=1),
    mut.replace_expr('keys', 'deserialize_address', "network or ''", "'' if not networks else networks[0]", 'the first network that uses the prefix is reported instead of the requested one'),
])
def bech32_network_filter(ctx):
    """"An address belonging to a different network than the transaction is refused": Address.parse(addr, network=N) and every address
    argument of transactions go through deserialize_address(addr, network=N). Its Bech32 branch is evaluated on a decoded tb1...
    address whose prefix belongs to testnet and signet: network='bitcoin' raises, network='signet' reports signet, no network reports
    the first one (testnet). An ignored filter gives an Address object of network bitcoin that prints tb1... and is accepted as the
    output of a bitcoin transaction."""
    q = 'keys:deserialize_address'
    fn = ctx.repo.func(q)
    n = 0
    for net, want in (('bitcoin', 'raise'), ('litecoin', 'raise'), ('signet', 'signet'), ('testnet', 'testnet'), (None, 'testnet')):
        hooks = {'addr_bech32_to_pubkeyhash': lambda it, a, kw, st, node: b'\x00\x14' + bytes(range(20)),
                 'network_by_value': lambda it, a, kw, st, node: ['testnet', 'signet'] if a and a[0] == 'prefix_bech32' else [],
                 'addr_bech32_checksum': lambda it, a, kw, st, node: S(('var', 'checksum'))}
        it = Interp(ctx.repo, 'keys', hooks=hooks)
        try:
            exits = it.run_function(fn, {'address': 'tb1qw508d6qejxtdg4y5r3zarvary0c5xw7kxpjzsx', 'encoding': 'bech32', 'network': net})
        except AnalysisError as e:
            ctx.undecided('deserialize_address(bech32, network=%r) not evaluable: %s' % (net, str(e)[:100]))
        rets = [e for e in exits if e.kind == 'return']
        n += 1
        got = []
        for e in rets:
            v = e.value
            if isinstance(v, dict):
                got.append(v.get('network') if not isinstance(v.get('network'), S) else show(term(v.get('network'))))
            else:
                ctx.undecided('deserialize_address(bech32, network=%r) returns %s, not a dictionary the evaluator can read' % (net, show(term(v))[:60]))
        ctx.saw("deserialize_address('tb1q...', network=%r), prefix tb used by testnet and signet -> %s" % (net, 'refused' if not rets else 'network %s' % got))
        if want == 'raise':
            ctx.require(not rets, q, "deserialize_address('tb1q...', encoding='bech32', network=%r) returns network %s: the prefix tb is not used by %s" % (net, got, net), fn,
                        "Address.parse('tb1q...', network='bitcoin') is an Address of network bitcoin that prints tb1q...; Transaction(network='bitcoin').add_output(v, it) accepts the testnet address")
        else:
            ctx.require(bool(rets) and all(g == want for g in got), q, "deserialize_address('tb1q...', network=%r) %s, expected network %s" % (net, 'is refused' if not rets else 'reports %s' % got, want), fn)
    ctx.floor(n, 5, 'network filters')


@PROP.obligation('C05.wallet-parse-network', canaries=[
    mut.drop_kwarg('wallets', 'Wallet.transaction_import_raw', 'parse_bytes', 'network', 'a raw transaction imported into a wallet is parsed for the default network'),
])
def wallet_parse_network(ctx):
    """A wallet works on its own network (or the one of the account asked for). Where wallets.py parses raw bytes into a Transaction
    (Transaction.parse / parse_bytes / parse_hex) it passes network= - the outputs of a parsed transaction are ready-made Output
    objects that transaction_create takes over unchanged, so a raw transaction parsed without it reports bc1... addresses (and
    Output.network bitcoin) inside a transaction of another network, and store() persists those addresses."""
    mod = ctx.repo.mod('wallets')
    n = 0
    for name, fn in sorted(mod.functions.items()):
        q = 'wallets:' + name
        for c in walk_no_nested(fn):
            if not isinstance(c, ast.Call):
                continue
            f = norm(c.func)
            if not f.startswith('Transaction.parse'):
                continue
            n += 1
            kw = {k.arg: k.value for k in c.keywords if k.arg}
            ctx.saw('%s: %s(..., network=%s)' % (name, f, norm(kw['network']) if 'network' in kw else None))
            ctx.require('network' in kw and not isinstance(kw['network'], ast.Constant), q, '`%s(...)` is called without the network the wallet method works on' % f, c,
                        "transaction_import_raw(raw, network='testnet') reports the outputs with bitcoin addresses (bc1q...) and Output.network bitcoin inside a testnet transaction")
    ctx.floor(n, 1, 'raw transactions parsed in wallets.py')


@PROP.obligation('C05.key-object-script-type', canaries=[
    mut.replace_expr('transactions', 'Output.__init__', 'script_type_default(address.witness_type, address.multisig, True)', 'script_type_default(address.witness_type, locking_script=True)', 'the multisig flag of a key object is ignored when its script type is chosen'),
    mut.replace_expr('transactions', 'Output.__init__', 'script_type_default(address.witness_type, address.multisig, True)', "script_type_default('segwit', address.multisig, True)", 'the witness type of a key object is ignored when its script type is chosen'),
])
def key_object_script_type(ctx):
    """Output(value, <HDKey object>) reports HDKey.address(), which follows the key's witness type AND its multisig flag (P2SH / P2WSH for
    multisig keys). The statement of Output.__init__ that takes a key object over is evaluated: the locking-script type is chosen with
    script_type_default(<the key's witness_type>, <the key's multisig flag>, locking script). Without the flag a legacy multisig key is
    reported with its 3... address above a P2PKH script of the same hash - address and script are no longer inverse."""
    q = 'transactions:Output.__init__'
    fn = ctx.repo.func(q)
    stmt = [s_ for s_ in fn.body if isinstance(s_, ast.If) and norm(s_.test) == 'isinstance(address, Address)']
    if len(stmt) != 1:
        ctx.undecided('Output.__init__: the statement that takes over an address / key object was not found')
    AD = ('var', 'address')
    seen = []

    def decide(t):
        if isinstance(t, tuple) and t and t[0] == 'isinstance' and t[1] == AD:
            return 'HDKey' in show(t[2]) and 'Address' not in show(t[2])
        return None
    hooks = {'script_type_default': lambda it, a, kw, st, node: (seen.append(([term(x) if isinstance(x, S) else x for x in a], {k: (term(v) if isinstance(v, S) else v) for k, v in kw.items()}, node)), S(('var', 'chosen_type'), 'str'))[1]}
    it = Interp(ctx.repo, 'transactions', hooks=hooks, self_cls='transactions:Output', decide=decide)
    st = State(env={'self': S(SELF), 'address': S(AD), 'script_type': None, 'public_key': b'', 'network': 'bitcoin', 'encoding': None})
    it.frames.append([])
    try:
        it.exec_block(stmt, st)
    except AnalysisError as e:
        ctx.undecided('Output.__init__: key-object branch not evaluable: %s' % str(e)[:100])
    it.frames.pop()
    if len(seen) != 1:
        ctx.undecided('Output.__init__: script_type_default called %d times for a key object, expected 1' % len(seen))
    a, kw, node = seen[0]
    wt = kw.get('witness_type', a[0] if len(a) > 0 else None)
    ms = kw.get('multisig', a[1] if len(a) > 1 else None)
    ls = kw.get('locking_script', a[2] if len(a) > 2 else None)
    ctx.saw('key object: script_type_default(witness_type=%s, multisig=%s, locking_script=%s)' % tuple(show(x) if isinstance(x, tuple) else x for x in (wt, ms, ls)))
    ctx.require(wt == ('attr', AD, 'witness_type'), q, 'the script type of a key object is chosen for witness type %s, not the key\'s own' % (show(wt) if isinstance(wt, tuple) else wt), node)
    ctx.require(ms == ('attr', AD, 'multisig'), q, 'the script type of a key object is chosen with multisig=%s, not the key\'s own flag' % (show(ms) if isinstance(ms, tuple) else ms), node,
                "Output(v, HDKey(..., multisig=True, witness_type='legacy')) reports the P2SH address 3... and carries the P2PKH script 76a914..88ac, which parses back to 1...")
    ctx.require(ls is True, q, 'the script type of a key object is not chosen for a LOCKING script (locking_script=%s)' % (ls,), node)
