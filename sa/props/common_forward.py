"""Shared obligation: scope parameters are forwarded on delegation between Wallet methods.

A Wallet method that takes network / account_id / witness_type / change / cosigner_id and calls another Wallet method (self.m(...))
that has a parameter of the same name must bind it - otherwise the delegate silently works on the wallet default (default network,
default account, payment chain). The rule is exact: every call is checked, the exceptions confirmed by reading are listed in
EXCEPTIONS with their reason, and a new dropped parameter is reported."""
import ast

from ..core import norm

SCOPE = ('network', 'account_id', 'witness_type', 'change', 'cosigner_id')

# (caller, callee, parameter): reason
EXCEPTIONS = {
    ('scan', 'witness_types', 'account_id'): 'scan walks every witness type used on the network, across accounts',
    ('scan', 'keys_addresses', 'network'): 'single-key wallets have exactly one key; no scope to select',
    ('scan', 'keys_addresses', 'account_id'): 'single-key wallets have exactly one key; no scope to select',
    ('scan', 'keys_addresses', 'change'): 'single-key wallets have exactly one key; no scope to select',
    ('sweep', 'send', 'account_id'): 'sweep passes the explicit input list it selected for the account; send does not select inputs again',
}


def forwarding(ctx, modname, clsname, why, floor):
    m = ctx.repo.mod(modname)
    meths = {q.split('.')[1]: f for q, f in m.functions.items() if q.startswith(clsname + '.') and q.count('.') == 1}
    total = 0
    used_exc = set()
    for name, f in sorted(meths.items()):
        ps = [a.arg for a in f.args.args + f.args.kwonlyargs]
        for c in ast.walk(f):
            if not (isinstance(c, ast.Call) and isinstance(c.func, ast.Attribute) and isinstance(c.func.value, ast.Name) and c.func.value.id == 'self' and c.func.attr in meths):
                continue
            g = meths[c.func.attr]
            gps = [a.arg for a in g.args.args][1:]
            gkw = [a.arg for a in g.args.kwonlyargs]
            for p in SCOPE:
                if p not in ps or (p not in gps and p not in gkw):
                    continue
                total += 1
                bound = any(k.arg == p or k.arg is None for k in c.keywords) or (p in gps and gps.index(p) < len(c.args)) or any(isinstance(a, ast.Starred) for a in c.args)
                if bound:
                    continue
                key = (name, c.func.attr, p)
                if key in EXCEPTIONS:
                    used_exc.add(key)
                    continue
                ctx.violate('%s:%s.%s' % (modname, clsname, name), '`%s` does not pass its `%s` on to %s.%s, which then uses the wallet default' % (norm(c)[:90], p, clsname, c.func.attr), c, why)
    ctx.saw('%d delegations between %s methods that share a scope parameter: each forwards it (%d listed exceptions in use)' % (total, clsname, len(used_exc)))
    ctx.floor(total, floor, 'delegations with a shared scope parameter')
