"""C12 Key export formats import back to the same key — writer/reader layouts, prefix tables, format detection, caches, hints."""
import ast
import json
import os

from ..core import Property, AnalysisError, unparse, norm, walk_no_nested
from ..sym import Interp, S, term, show, subterms, State, rewrite, flatten_cat
from ..layout import LAYOUT_HOOKS, canon_layout
from ..cfg import build_cfg
from .. import mut, seg

PROP = Property(
    'C12', 'Key export / import: writer and reader layouts agree, prefix tables are unambiguous, detection keeps private and public apart',
    'Static: (1) the byte layouts written by Key.wif and HDKey.wif are extracted by abstract evaluation and the readers (Key.__init__ WIF branch, '
    'get_key_format, HDKey.from_wif, HDKey.__init__) are evaluated on exactly those layouts with the secret / chain code / key as symbolic '
    'fields of fixed width: every field must come back from its own position and no decision may depend on payload bytes; (2) the version '
    'prefix tables of networks.json are checked for the whole finite domain networks x witness types x multisig x private/public: the prefix '
    'Network.wif_prefix writes is found again by wif_prefix_search with the same privacy, witness type and network, and no prefix is private in '
    'one row and public in another; (3) get_key_format is evaluated for all table scenarios: the privacy it reports for WIF / extended / BIP38 '
    'formats is the one of the format; (4) the WIF cache is returned only for the cached version byte; the BIP38 branches take the compression '
    'flag from the decrypted flag byte; a valid network hint is returned unchanged by check_network_and_key. '
    'Equality of the re-imported secret for every 256-bit value is NOT decided beyond the positional argument.',
    ['base58 encode / decode are inverse (C18 covers the codec)', 'field widths: chain code 32, fingerprint 4, secret 32, compressed public key 33 bytes (BIP32)'])

SELF = ('var', 'self')


class _Stop(Exception):
    pass
A = lambda b, n: ('attr', b, n)


def _networks(ctx):
    path = os.path.join(ctx.repo.root, 'bitcoinlib', 'data', 'networks.json')
    try:
        return json.load(open(path))
    except Exception as e:
        ctx.undecided('networks.json unreadable: %r' % e)


# ---------------------------------------------------------------------------------------------- WIF
def _wif_writer_layout(ctx, compressed):
    fn = ctx.repo.func('keys:Key.wif')
    it = Interp(ctx.repo, 'keys', hooks=dict(LAYOUT_HOOKS), self_cls='keys:Key')
    st = State()
    st.heap[A(SELF, 'compressed')] = compressed
    st.heap[A(SELF, '_wif')] = None
    st.heap[A(SELF, 'secret')] = S(('var', 'secret'), 'int')
    exits = it.run_function(fn, {'self': S(SELF), 'prefix': None}, st=st)
    rets = [e for e in exits if e.kind == 'return']
    if not rets:
        ctx.undecided('Key.wif: no return')
    t = canon_layout(term(rets[-1].value))
    if not (isinstance(t, tuple) and t[0] == 'call' and t[1] == 'base58encode'):
        ctx.undecided('Key.wif does not return base58encode(...): %s' % show(t)[:120])
    parts = flatten_cat(t[2][0])
    lay = []
    for p in parts:
        if isinstance(p, bytes):
            lay.append(p)
        elif isinstance(p, tuple) and p[0] == 'int2bytes' and p[1] == ('var', 'secret'):
            if not isinstance(p[2], int) or p[3] != 'big':
                ctx.violate('keys:Key.wif', 'the secret is written as int2bytes(width=%s, %s); WIF holds a fixed 32 byte big-endian secret' % (show(p[2])[:60], p[3]), fn,
                            'secrets with leading zero bytes export to a shorter, non-standard WIF')
                raise _Stop()
            lay.append(('secret', p[2]))
        elif isinstance(p, tuple) and p[0] == 'slice' and isinstance(p[1], tuple) and p[1][0] == 'hash' and p[1][1] == 'dsha256' and p[2] is None and p[3] == 4:
            body = flatten_cat(p[1][2])
            if list(body) != list(parts[:len(body)]) or len(body) != len(parts) - 1:
                ctx.violate('keys:Key.wif', 'the checksum does not cover exactly the preceding bytes', fn)
            lay.append(('chk', 4))
        elif p == A(A(SELF, 'network'), 'prefix_wif'):
            lay.append(('version', 1))
        else:
            ctx.undecided('Key.wif writes a part outside the layout model: %s' % show(p)[:100])
    return lay


@PROP.obligation('C12.wif-layout', canaries=[
    mut.replace_expr('keys', 'Key.__init__', "len(key) == 34 and key[-1:] == b'\\x01'", "key[-1:] == b'\\x01'", 'compression flag decided by the last byte alone'),
    mut.replace_expr('keys', 'Key.wif', "self.secret.to_bytes(32, byteorder='big')", "self.secret.to_bytes((self.secret.bit_length() + 7) // 8, byteorder='big')", 'secret written without leading zero bytes'),
    mut.replace_expr('keys', 'Key.__init__', 'key[1:]', 'key[2:]', 'secret read from the wrong offset', nth=0),
])
def wif_layout(ctx):
    """Key.wif writes version(1) . secret(32, big endian, fixed width) [. 01 when compressed] . checksum(4). The WIF branch of Key.__init__,
    evaluated on both layouts with the secret symbolic, returns secret[0:32] and the right compression flag; no decision depends on
    payload bytes (an uncompressed key whose secret ends in 01 must not be read as compressed)."""
    fn = ctx.repo.func('keys:Key.__init__')
    blks = [n for n in ast.walk(fn) if isinstance(n, ast.If) and "'wif'" in unparse(n.test) and "'wif_compressed'" in unparse(n.test)]
    if len(blks) != 1:
        ctx.undecided('Key.__init__: WIF branch not found')
    for compressed in (False, True):
        try:
            lay = _wif_writer_layout(ctx, compressed)
        except _Stop:
            return
        ctx.saw('Key.wif(compressed=%s) writes %s' % (compressed, seg.fmt(seg.seg(*lay))))
        widths = [p[1] if isinstance(p, tuple) else len(p) for p in lay]
        exp = [1, 32] + ([1] if compressed else []) + [4]
        ctx.require(widths == exp and dict(x for x in lay if isinstance(x, tuple)).get('secret') == 32, 'keys:Key.wif',
                    'WIF layout (compressed=%s) is %s, expected widths %s with a fixed 32 byte secret' % (compressed, seg.fmt(seg.seg(*lay)), exp), None,
                    'secrets with leading zero bytes export to a shorter, non-standard WIF')
        it = Interp(ctx.repo, 'keys', hooks=dict(LAYOUT_HOOKS), self_cls='keys:Key')
        st = State(env={'self': S(SELF), 'import_key': S(('var', 'wif'), 'str')})
        it.frames.append([])
        end = it.exec_block(blks[0].body, st)
        if end is None:
            ctx.undecided('WIF branch of Key.__init__ always raises')
        B = ('call', 'change_base', (('var', 'wif'), 58, 256), ())
        env = {B: seg.seg(*lay)}
        try:
            flag = seg.seg_eval(term(end.heap.get(A(SELF, 'compressed'))), env)
            kb = seg.seg_eval(term(end.env.get('key_byte')), env)
            pre = seg.seg_eval(term(end.heap.get(A(SELF, '_wif_prefix'))), env) if A(SELF, '_wif_prefix') in end.heap else None
        except seg.SegUnknown as e:
            ctx.undecided('WIF reader not evaluable on the writer layout: %s' % e)
        ctx.saw('reader on that layout: compressed=%s key_byte=%s' % (flag, seg.fmt(kb) if seg.is_seg(kb) else kb))
        if isinstance(flag, seg.Dep) or isinstance(kb, seg.Dep):
            d = flag if isinstance(flag, seg.Dep) else kb
            ctx.violate('keys:Key.__init__', 'WIF import of a%s key: the compression flag depends on payload bytes of field %s (the test reads a byte of the secret)' % (' compressed' if compressed else 'n uncompressed', ','.join(d.fields)), blks[0],
                        'an uncompressed WIF whose secret ends in 01 imports as a different, compressed key with a 31 byte secret')
            continue
        ctx.require(flag is compressed, 'keys:Key.__init__', 'WIF written with compressed=%s is read with compressed=%s' % (compressed, flag), blks[0])
        ctx.require(kb == seg.seg(('secret', 32)), 'keys:Key.__init__', 'WIF reader takes the secret from %s, the writer put it at secret[0:32]' % (seg.fmt(kb) if seg.is_seg(kb) else kb), blks[0],
                    'the imported secret differs from the exported one')
        # checksum comparison covers the same bytes
        raises = [e for e in it.frames[-1] if e.kind == 'raise' and 'hecksum' in show(term(e.value))]
        ctx.require(bool(raises), 'keys:Key.__init__', 'WIF import does not verify the checksum', blks[0])


def _hex_layout(lay):
    out = []
    for p in lay:
        if isinstance(p, bytes):
            out.append(p.hex().encode())
        else:
            out.append((p[0], p[1] * 2))
    return seg.seg(*out)


def _to_seg_str(t):
    """string constants compared with hex layouts are their ASCII bytes"""
    def f(x):
        if isinstance(x, str):
            return x.encode()
        return None
    return rewrite(t, f)


def _gkf_scenario(ctx, prefix_rows, wif_networks, layout):
    """evaluate the base58 block of get_key_format with the table look-ups replaced by scenario values"""
    fn = ctx.repo.func('keys:get_key_format')
    tries = [n for n in ast.walk(fn) if isinstance(n, ast.Try) and any(isinstance(c, ast.Call) and unparse(c.func) == 'wif_prefix_search' for c in ast.walk(n))]
    if len(tries) != 1:
        ctx.undecided('get_key_format: base58 block not found')
    hooks = dict(LAYOUT_HOOKS)
    hooks['wif_prefix_search'] = lambda interp, args, kwargs, st, node: [dict(r) for r in prefix_rows]
    hooks['network_by_value'] = lambda interp, args, kwargs, st, node: list(wif_networks)
    it = Interp(ctx.repo, 'keys', hooks=hooks)
    st = State(env={'key': S(('var', 'key'), 'str'), 'is_private': None, 'key_format': '', 'networks': None, 'script_types': [],
                    'witness_types': ['segwit'], 'multisig': [False]})
    it.frames.append([])
    end = it.exec_block(tries[0].body, st)
    raises = [e for e in it.frames[-1] if e.kind == 'raise']
    if end is None:
        return ('raise', show(term(raises[-1].value))[:80] if raises else '?')
    H = ('call', 'change_base', (('var', 'key'), 58, 16), ())
    env = {H: layout} if layout is not None else {}
    out = []
    for name in ('key_format', 'is_private'):
        try:
            v = seg.seg_eval(term(end.env.get(name)), env)
        except seg.SegUnknown as e:
            ctx.undecided('get_key_format: %s not evaluable in a table scenario: %s' % (name, e))
        if seg.is_seg(v):
            v = b''.join(v).decode() if all(isinstance(p, bytes) for p in v) else v
        out.append(v)
    return tuple(out)


@PROP.obligation('C12.detect', canaries=[
    mut.replace_expr('keys', 'get_key_format', "prefix_data[0]['is_private']", 'True', 'extended public keys reported private'),
    mut.replace_expr('keys', 'get_key_format', "len(key_hex) == 76 and key_hex[-10:-8] == '01'", "key_hex[-10:-8] == '01'", 'compressed WIF detected by the last byte alone'),
    mut.drop_stmt('keys', 'get_key_format', "if is_private is None and len(set([n['is_private'] for n in prefix_data])) > 1", 'ambiguous private/public prefix not refused'),
])
def detect(ctx):
    """get_key_format, base58 block, evaluated for the table scenarios: a prefix that the tables list as private gives
    ('hdkey_private', True), as public ('hdkey_public', False), listed as both raises; a known WIF version byte gives is_private True with
    'wif_compressed' exactly for the compressed layout and 'wif' for the uncompressed one, never depending on the secret's bytes.
    The literal branches report wif_protected / mnemonic / decimal as private and public / public_uncompressed / point as public."""
    row = lambda priv: {'prefix': '0488ADE4', 'is_private': priv, 'prefix_str': 'x', 'network': 'bitcoin', 'witness_type': 'legacy', 'multisig': False, 'script_type': 'p2pkh'}
    want = [
        ('extended prefix listed private', [row(True)], [], None, ('hdkey_private', True)),
        ('extended prefix listed public', [row(False)], [], None, ('hdkey_public', False)),
        ('extended prefix listed private and public', [row(True), row(False)], [], None, ('raise',)),
    ]
    for name, rows, nets, lay, exp in want:
        got = _gkf_scenario(ctx, rows, nets, lay)
        ctx.saw('%s -> %s' % (name, got))
        ok = got[:len(exp)] == exp
        ctx.require(ok, 'keys:get_key_format', '%s: reported %s, expected %s' % (name, got, exp), None,
                    'private material is classified public or the reverse')
    for compressed in (False, True):
        try:
            lay = _wif_writer_layout(ctx, compressed)
        except _Stop:
            ctx.undecided('Key.wif layout is not fixed-width (reported by C12.wif-layout)')
        got = _gkf_scenario(ctx, [], ['bitcoin'], _hex_layout(lay))
        ctx.saw('WIF layout compressed=%s -> %s' % (compressed, got))
        if any(isinstance(x, seg.Dep) for x in got):
            ctx.violate('keys:get_key_format', 'WIF of a%s key: the reported format depends on payload bytes (%s)' % (' compressed' if compressed else 'n uncompressed', got), None,
                        'an uncompressed WIF whose secret ends in 01 is reported as wif_compressed')
            continue
        exp = ('wif_compressed' if compressed else 'wif', True)
        ctx.require(got == exp, 'keys:get_key_format', 'WIF layout compressed=%s reported as %s, expected %s' % (compressed, got, exp), None)
    # literal branches
    fn = ctx.repo.func('keys:get_key_format')
    lit = {}
    for n in ast.walk(fn):
        if isinstance(n, ast.If):
            fm = pv = None
            for s in n.body:
                if isinstance(s, ast.Assign) and isinstance(s.targets[0], ast.Name) and isinstance(s.value, ast.Constant):
                    if s.targets[0].id == 'key_format':
                        fm = s.value.value
                    if s.targets[0].id == 'is_private':
                        pv = s.value.value
            if fm is not None and pv is not None:
                lit.setdefault(fm, set()).add(pv)
    ctx.saw('literal (format, is_private) pairs: %s' % {k: sorted(v) for k, v in sorted(lit.items())})
    exp = {'wif_protected': {True}, 'mnemonic': {True}, 'decimal': {True}, 'hex_compressed': {True}, 'public': {False}, 'public_uncompressed': {False}, 'point': {False}}
    ctx.floor(len(lit), 8, 'literal format branches')
    for k, v in exp.items():
        ctx.require(lit.get(k) == v, 'keys:get_key_format', 'format %s is reported with is_private in %s, expected %s' % (k, sorted(lit.get(k, [])), sorted(v)), None)


# ---------------------------------------------------------------------------------------------- extended keys
WIDTHS = {'chain': 32, 'parent_fingerprint': 4, 'private_byte': 32, 'public_compressed_byte': 33}


def _xkey_writer_layout(ctx, private, compressed=True):
    fn = ctx.repo.func('keys:HDKey.wif')
    it = Interp(ctx.repo, 'keys', hooks=dict(LAYOUT_HOOKS), self_cls='keys:HDKey')
    st = State()
    st.heap[A(SELF, 'is_private')] = True
    st.heap[A(SELF, 'compressed')] = compressed
    exits = it.run_function(fn, {'self': S(SELF), 'is_private': private, 'child_index': None, 'prefix': None, 'witness_type': None, 'multisig': None}, st=st)
    rets = [e for e in exits if e.kind == 'return']
    if not rets:
        ctx.undecided('HDKey.wif: no return')
    t = canon_layout(term(rets[-1].value))
    if not (isinstance(t, tuple) and t[0] == 'call' and t[1] == 'change_base' and t[2][1:3] == (256, 58)):
        ctx.undecided('HDKey.wif does not return change_base(raw, 256, 58): %s' % show(t)[:100])
    parts = list(flatten_cat(t[2][0]))
    lay = []
    for i, p in enumerate(parts):
        if isinstance(p, bytes):
            lay.append(p)
        elif isinstance(p, tuple) and p[0] == 'int2bytes' and isinstance(p[1], tuple) and p[1][0] == 'attr' and p[1][1] == SELF and isinstance(p[2], int):
            ctx.require(p[3] == 'big', 'keys:HDKey.wif', 'field %s is written %s endian, BIP32 serializes big endian' % (p[1][2], p[3]), fn)
            lay.append((p[1][2], p[2]))
        elif isinstance(p, tuple) and p[0] == 'attr' and p[1] == SELF and p[2] in WIDTHS:
            lay.append((p[2], WIDTHS[p[2]]))
        elif p == ('field', 'private_byte'):
            lay.append(('private_byte', 32))
        elif isinstance(p, tuple) and p[0] == 'bool' and p[1] == 'or' and p[2] and p[2][0] in (('field', 'private_byte'), A(SELF, 'private_byte')):
            lay.append(('private_byte', 32))
        elif isinstance(p, tuple) and p[0] == 'attr' and p[1] == SELF and p[2] == 'public_byte':
            ctx.violate('keys:HDKey.wif', 'the public extended key writes self.public_byte, whose width (33 or 65) depends on the compression flag; the readers use fixed offsets (33 byte key)', fn,
                        'HDKey(compressed=False).wif_public() is a 110 byte string that no importer accepts')
            lay.append(('public_compressed_byte', 33))
        elif isinstance(p, tuple) and p[0] == 'mcall' and p[2] == 'wif_prefix' and i == 0:
            kws = dict(p[4])
            ctx.require(kws.get('is_private', False) is private, 'keys:HDKey.wif', 'the %s extended key is written with the prefix of is_private=%s' % ('private' if private else 'public', kws.get('is_private', False)), fn)
            lay.append(('prefix', 4))
        elif isinstance(p, tuple) and p[0] == 'slice' and isinstance(p[1], tuple) and p[1][0] == 'hash' and p[1][1] == 'dsha256' and p[3] == 4 and i == len(parts) - 1:
            ctx.require(list(flatten_cat(p[1][2])) == parts[:-1], 'keys:HDKey.wif', 'the checksum does not cover exactly the preceding bytes', fn)
            lay.append(('chk', 4))
        else:
            ctx.undecided('HDKey.wif writes a part outside the layout model: %s' % show(p)[:100])
    return lay


def _xkey_check_reader(ctx, q, fields, is_priv_term, lay, private, B, node):
    env = {B: seg.seg(*lay)}
    names = {'depth': 'depth', 'parent_fingerprint': 'parent_fingerprint', 'child_index': 'child_index', 'chain': 'chain'}
    keyname = 'private_byte' if private else 'public_compressed_byte'

    def unwrap(t, width):
        # ord(x) for 1 byte / bytes2int(x, 'big') are the inverses of int2bytes(.., w, 'big')
        if isinstance(t, tuple) and t[0] == 'call' and t[1] == 'ord' and len(t[2]) == 1 and width == 1:
            return t[2][0]
        if isinstance(t, tuple) and t[0] == 'bytes2int' and t[2] == 'big':
            return t[1]
        return t
    for f, w in [(x[0], x[1]) for x in lay if isinstance(x, tuple) and x[0] in names]:
        if f not in fields:
            ctx.violate(q, 'field %s of the extended key is not read back' % f, node)
            continue
        t = canon_layout(fields[f])
        conv = f in ('depth', 'child_index')
        inner = unwrap(t, w) if conv else t
        if conv and inner is t:
            ctx.violate(q, 'field %s is written as a %d byte big-endian integer but read as %s' % (f, w, show(t)[:80]), node)
            continue
        try:
            got = seg.seg_eval(inner, env)
        except seg.SegUnknown as e:
            ctx.undecided('%s: field %s not evaluable on the writer layout: %s' % (q, f, e))
        ctx.require(got == seg.seg((f, w)), q, '%s extended key: field %s is read from %s, the writer put it at %s[0:%d]' % ('private' if private else 'public', f, seg.fmt(got) if seg.is_seg(got) else got, f, w), node,
                    'the re-imported key has a different %s' % f)
    try:
        key = seg.seg_eval(canon_layout(fields['key']), env)
        priv = seg.seg_eval(is_priv_term, env) if is_priv_term is not None else None
    except seg.SegUnknown as e:
        ctx.undecided('%s: key field not evaluable on the writer layout: %s' % (q, e))
    if isinstance(key, seg.Dep) and not private:
        # the public branch is selected by the first key byte being non-zero: 02 / 03 of a compressed point
        env2 = {B: seg.seg(*[x if not (isinstance(x, tuple) and x[0] == keyname) else None for x in lay if True])} if False else None
        lay2 = []
        for x in lay:
            if isinstance(x, tuple) and x[0] == keyname:
                lay2 += [b'\x02', (keyname + '_x', 32)]
            else:
                lay2.append(x)
        envp = {B: seg.seg(*lay2)}
        key = seg.seg_eval(canon_layout(fields['key']), envp)
        priv = seg.seg_eval(is_priv_term, envp) if is_priv_term is not None else None
        want = seg.seg(b'\x02', (keyname + '_x', 32))
    else:
        want = seg.seg((keyname, 32 if private else 33))
    ctx.saw('%s on the %s layout: key=%s is_private=%s' % (q, 'private' if private else 'public', seg.fmt(key) if seg.is_seg(key) else key, priv))
    ctx.require(key == want, q, '%s extended key: key material is read from %s, expected %s' % ('private' if private else 'public', seg.fmt(key) if seg.is_seg(key) else key, seg.fmt(want)), node,
                'the re-imported key differs from the exported one')
    if is_priv_term is not None:
        ctx.require(priv is private, q, '%s extended key is imported with is_private=%s' % ('private' if private else 'public', priv), node)


@PROP.obligation('C12.xkey-layout', canaries=[
    mut.replace_expr('keys', 'HDKey.from_wif', 'bkey[13:45]', 'bkey[12:44]', 'chain code read one byte early'),
    mut.replace_expr('keys', 'HDKey.__init__', 'bkey[9:13]', 'bkey[9:12]', 'child index read from 3 bytes'),
    mut.replace_expr('keys', 'HDKey.wif', "self.child_index.to_bytes(4, 'big')", "self.child_index.to_bytes(4, 'little')", 'child index written little endian'),
    mut.replace_expr('keys', 'HDKey.wif', 'self.public_compressed_byte', 'self.public_byte', 'public extended key written with the uncompressed point', nth=1),
])
def xkey_layout(ctx):
    """HDKey.wif writes prefix(4) . depth(1) . fingerprint(4) . child(4, big endian) . chain(32) . [00 . secret(32) | compressed point(33)] .
    checksum(4) = 82 bytes. HDKey.from_wif and the extended-key branch of HDKey.__init__, evaluated on both layouts, read every field back
    from its own position with the inverse conversion, select private / public by the 00 marker and require 82 bytes and the checksum."""
    B = ('call', 'change_base', (('var', 'wif'), 58, 256), ())
    lays = {p: _xkey_writer_layout(ctx, p) for p in (True, False)}
    # an uncompressed key (non-standard, but accepted) must export the same layouts
    for p in (True, False):
        u = _xkey_writer_layout(ctx, p, compressed=False)
        if u != lays[p]:
            names = [x[0] for x in u if isinstance(x, tuple)]
            ctx.violate('keys:HDKey.wif', 'an uncompressed key writes another %s extended key layout: %s' % ('private' if p else 'public', seg.fmt(seg.seg(*u))), None,
                        'the public extended key of an uncompressed HDKey carries the private key' if (not p and 'private_byte' in names) else 'extended keys of uncompressed keys cannot be imported')
    for p, lay in lays.items():
        ctx.saw('HDKey.wif(is_private=%s) writes %s' % (p, seg.fmt(seg.seg(*lay))))
        ctx.require(seg.seg_len(seg.seg(*lay)) == 82, 'keys:HDKey.wif', 'extended %s key is %d bytes long, BIP32 says 82' % ('private' if p else 'public', seg.seg_len(seg.seg(*lay))), None)
    # reader 1: from_wif
    fn = ctx.repo.func('keys:HDKey.from_wif')
    it = Interp(ctx.repo, 'keys', hooks=dict(LAYOUT_HOOKS), self_cls='keys:HDKey')
    exits = it.run_function(fn, {'wif': S(('var', 'wif'), 'str'), 'network': None, 'compressed': True, 'multisig': None})
    rets = [e for e in exits if e.kind == 'return']
    if not rets:
        ctx.undecided('HDKey.from_wif: no return')
    t = term(rets[-1].value)
    if not (isinstance(t, tuple) and t[0] == 'call' and t[1] == 'HDKey'):
        ctx.undecided('HDKey.from_wif does not return HDKey(...)')
    kw = dict(t[3])
    raises = [show(term(e.value)) for e in exits if e.kind == 'raise']
    ctx.require(any('82' in r for r in raises) and any('hecksum' in r for r in raises), 'keys:HDKey.from_wif', 'length (82) or checksum of the extended key is not verified', fn)
    for p, lay in lays.items():
        _xkey_check_reader(ctx, 'keys:HDKey.from_wif', kw, kw.get('is_private'), lay, p, B, fn)
    # reader 2: the branch in HDKey.__init__ (sibling of from_wif)
    fn2 = ctx.repo.func('keys:HDKey.__init__')
    blks = [n for n in ast.walk(fn2) if isinstance(n, ast.If) and "'hdkey_private'" in unparse(n.test) and "'hdkey_public'" in unparse(n.test)]
    if len(blks) != 1:
        ctx.undecided('HDKey.__init__: extended key branch not found')
    guard = [norm(s.test) for s in blks[0].body if isinstance(s, ast.If) and any(isinstance(x, ast.Raise) for x in s.body)]
    ctx.require(any('82' in g for g in guard), 'keys:HDKey.__init__', 'the extended key branch does not require 82 bytes', blks[0])
    for p, lay in lays.items():
        # `kf` is what get_key_format said about the version bytes of this layout (the branch may or may not consult it)
        it = Interp(ctx.repo, 'keys', hooks=dict(LAYOUT_HOOKS), self_cls='keys:HDKey')
        st = State(env={'self': S(SELF), 'import_key': S(('var', 'wif'), 'str'), 'is_private': True,
                        'kf': {'format': 'hdkey_private' if p else 'hdkey_public', 'is_private': p, 'networks': ['bitcoin'], 'script_types': [], 'witness_types': ['segwit'], 'multisig': [False]}})
        it.frames.append([])
        try:
            end = it.exec_block(blks[0].body, st)
        except AnalysisError as e:
            ctx.undecided('HDKey.__init__: extended key branch not evaluable: %s' % str(e)[:100])
        if end is None:
            ctx.undecided('HDKey.__init__: extended key branch always raises')
        raises = [show(term(e.value)) for e in it.frames[-1] if e.kind == 'raise']
        ctx.require(any('hecksum' in r for r in raises), 'keys:HDKey.__init__', 'length / checksum of the extended key is not verified', blks[0])
        fields = {k: (term(end.env[k]) if isinstance(end.env[k], S) else end.env[k]) for k in ('key', 'depth', 'parent_fingerprint', 'child_index', 'chain') if k in end.env}
        ip = end.env.get('is_private')
        _xkey_check_reader(ctx, 'keys:HDKey.__init__', fields, term(ip) if isinstance(ip, S) else ip, lay, p, B, blks[0])


# ---------------------------------------------------------------------------------------------- prefix tables
def _script_type_default(ctx, wt, ms):
    fn = ctx.repo.func('main:script_type_default')
    it = Interp(ctx.repo, 'main')
    exits = it.run_function(fn, {'witness_type': wt, 'multisig': ms, 'locking_script': True})
    rets = [e for e in exits if e.kind == 'return']
    if len(rets) != 1 or not isinstance(rets[0].value, (str, type(None))):
        ctx.undecided('script_type_default(%r, %r, True) not decidable' % (wt, ms))
    return rets[0].value


def _wif_prefix(ctx, rows, is_private, wt, ms):
    fn = ctx.repo.func('networks:Network.wif_prefix')
    hooks = {'script_type_default': lambda interp, args, kwargs, st, node: _script_type_default(ctx, args[0], args[1])}
    it = Interp(ctx.repo, 'networks', hooks=hooks, self_cls='networks:Network')
    st = State()
    st.heap[A(SELF, 'prefixes_wif')] = [list(r) for r in rows]
    exits = it.run_function(fn, {'self': S(SELF), 'is_private': is_private, 'witness_type': wt, 'multisig': ms}, st=st)
    rets = [e for e in exits if e.kind == 'return']
    if not rets:
        return None
    v = rets[0].value
    if not isinstance(v, bytes):
        ctx.undecided('Network.wif_prefix not decidable on the table: %s' % show(term(v))[:100])
    return v


def _prefix_search(ctx, data, prefix_hex, network=None, wt=None, ms=None):
    fn = ctx.repo.func('networks:wif_prefix_search')
    it = Interp(ctx.repo, 'networks')
    it.consts = dict(it.consts)
    it.consts['NETWORK_DEFINITIONS'] = data
    exits = it.run_function(fn, {'wif': prefix_hex, 'witness_type': wt, 'multisig': ms, 'network': network})
    rets = [e for e in exits if e.kind == 'return']
    if not rets or not isinstance(rets[0].value, list) or not all(isinstance(x, dict) for x in rets[0].value):
        ctx.undecided('wif_prefix_search not decidable on the table')
    return rets[0].value


@PROP.obligation('C12.prefix-table', canaries=[
    mut.replace_expr('networks', 'wif_prefix_search', "True if pf[2] == 'private' else False", "True if pf[2] != 'public' else True", 'every prefix reported private'),
    mut.replace_expr('networks', 'Network.wif_prefix', 'pf[2] == ip and script_type == pf[5]', 'script_type == pf[5]', 'writer ignores private/public'),
])
def prefix_table(ctx):
    """For every network and every (private/public, witness type, multisig): the prefix Network.wif_prefix writes (evaluated on the
    network's own table) is 4 bytes and wif_prefix_search(prefix, network) returns rows that all have the same privacy as written and
    include the written witness type; across ALL networks no prefix is private in one row and public in another; WIF version bytes are
    one byte."""
    data = _networks(ctx)
    n = n_ok = 0
    privacy = {}
    unsupported = []
    for net, d in data.items():
        rows = d.get('prefixes_wif')
        if not isinstance(rows, list):
            ctx.undecided('networks.json: %s has no prefixes_wif table' % net)
        ctx.require(isinstance(d.get('prefix_wif'), str) and len(d['prefix_wif']) == 2, 'bitcoinlib/data/networks.json', 'network %s: WIF version byte is %r, expected one byte' % (net, d.get('prefix_wif')), None)
        for r in rows:
            privacy.setdefault(r[0].upper(), set()).add(r[2])
        for priv in (True, False):
            for wt in ('legacy', 'p2sh-segwit', 'segwit'):
                for ms in (False, True):
                    n += 1
                    pre = _wif_prefix(ctx, rows, priv, wt, ms)
                    if pre is None:
                        unsupported.append((net, priv, wt, ms))
                        continue
                    ctx.require(len(pre) == 4, 'bitcoinlib/data/networks.json', 'network %s: prefix %s is not 4 bytes' % (net, pre.hex()), None)
                    found = _prefix_search(ctx, data, pre.hex().upper(), network=net)
                    privs = set(x['is_private'] for x in found)
                    wts = [x['witness_type'] for x in found]
                    mss = [x['multisig'] for x in found]
                    ctx.require(privs == {priv}, 'networks:wif_prefix_search', 'network %s: prefix %s written for a %s key is found as is_private=%s' % (net, pre.hex(), 'private' if priv else 'public', sorted(privs)), None,
                                'private material is classified public or the reverse')
                    # where the prefix is shared by several witness types / multisig flags the format does not encode them: the written one
                    # must be among the candidates (a hint selects it) and selected by the hint
                    ctx.require(wt in wts, 'networks:wif_prefix_search', 'network %s: prefix %s written for witness type %s is found as %s' % (net, pre.hex(), wt, wts), None,
                                'the re-imported key has a different witness type')
                    ctx.require(ms in mss, 'networks:wif_prefix_search', 'network %s: prefix %s written for multisig=%s is found as %s' % (net, pre.hex(), ms, mss), None)
                    hinted = _prefix_search(ctx, data, pre.hex().upper(), network=net, wt=wt, ms=ms)
                    ctx.require(len(hinted) == 1 and hinted[0]['witness_type'] == wt and hinted[0]['multisig'] == ms and hinted[0]['is_private'] == priv, 'networks:wif_prefix_search',
                                'network %s: prefix %s with hints witness_type=%s multisig=%s selects %d rows' % (net, pre.hex(), wt, ms, len(hinted)), None)
                    n_ok += 1
    ctx.saw('combinations without a prefix in their network (export raises): %s' % sorted(set((u[0], u[2]) for u in unsupported)))
    ctx.require(all(u[2] != 'legacy' for u in unsupported), 'bitcoinlib/data/networks.json', 'a network has no prefix for legacy keys: %s' % [u for u in unsupported if u[2] == 'legacy'][:3], None)
    ctx.floor(n_ok, 100, 'prefix combinations written and found again')
    ctx.saw('%d (network, privacy, witness type, multisig) combinations written and found again over %d networks' % (n, len(data)))
    both = sorted(p for p, s in privacy.items() if len(s) > 1)
    ctx.saw('%d distinct extended key prefixes, private and public at once: %s' % (len(privacy), both))
    ctx.require(not both, 'bitcoinlib/data/networks.json', 'prefixes %s are listed as private and as public' % both, None, 'format detection cannot tell private from public extended keys')


# ---------------------------------------------------------------------------------------------- caches, flags, hints
@PROP.obligation('C12.wif-cache', canaries=[
    mut.replace_expr('keys', 'Key.wif', 'self._wif and self._wif_prefix == versionbyte', 'self._wif', 'cached WIF returned for any version byte'),
])
def wif_cache(ctx):
    """Key.wif returns the cached string only when the cached version byte equals the version byte requested by this call (explicit
    prefix or network default), and every store of the cache stores that version byte with it."""
    q = 'keys:Key.wif'
    fn = ctx.repo.func(q)
    for cached_prefix, prefix_arg, net_prefix, reuse in ((b'\x80', None, b'\x80', True), (b'\xef', None, b'\x80', False), (b'\x80', b'\xef', b'\x80', False), (b'\xef', b'\xef', b'\x80', True),
                                                        (b'\x80', None, b'\xb0', False)):
        it = Interp(ctx.repo, 'keys', hooks=dict(LAYOUT_HOOKS), self_cls='keys:Key')
        st = State()
        st.heap[A(SELF, '_wif')] = 'CACHED'
        st.heap[A(SELF, '_wif_prefix')] = cached_prefix
        st.heap[A(A(SELF, 'network'), 'prefix_wif')] = net_prefix
        st.heap[A(SELF, 'compressed')] = True
        st.heap[A(SELF, 'secret')] = S(('var', 'secret'), 'int')
        exits = it.run_function(fn, {'self': S(SELF), 'prefix': prefix_arg}, st=st)
        rets = [e for e in exits if e.kind == 'return']
        if len(rets) != 1:
            ctx.undecided('Key.wif: cache scenario not decidable (%d returns)' % len(rets))
        got = rets[0].value
        reused = got == 'CACHED'
        ctx.saw('cached for %s, call prefix=%s, network default %s -> %s' % (cached_prefix.hex(), prefix_arg.hex() if prefix_arg else None, net_prefix.hex(), 'cached string' if reused else 'rebuilt'))
        if reused and not reuse:
            ctx.violate(q, 'a WIF cached for version byte %s is returned for a call that asks for %s' % (cached_prefix.hex(), (prefix_arg or net_prefix).hex()), fn,
                        'after k.wif(prefix=..) or a network change the export carries the wrong version byte and imports on another network')
        if not reused:
            want = prefix_arg or net_prefix
            t = canon_layout(term(got))
            parts = flatten_cat(t[2][0]) if isinstance(t, tuple) and t[0] == 'call' and t[2] else ()
            ctx.require(bool(parts) and parts[0] == want, q, 'rebuilt WIF starts with %s, requested version byte %s' % (show(parts[0])[:40] if parts else '?', want.hex()), fn)
            ctx.require(rets[0].heap.get(A(SELF, '_wif_prefix')) == want, q, 'the cache is stored without the version byte it was built for', fn)


@PROP.obligation('C12.bip38-flag', canaries=[
    mut.replace_stmt('keys', 'HDKey.__init__', 'key, compressed = self._bip38_decrypt(', 'key = self._bip38_decrypt(import_key, password, network.name, witness_type)[0]', 'HDKey ignores the BIP38 compression flag'),
    mut.replace_expr('keys', 'Key._bip38_decrypt', 'Key(priv, compressed=compressed, network=network)', 'Key(priv, network=network)', 'address hash verified with the default compression', ),
])
def bip38_flag(ctx):
    """BIP38 import: bip38_decrypt returns the compression flag decoded from the flag byte; Key._bip38_decrypt / HDKey._bip38_decrypt pass
    it on (and verify the address hash with it), and both constructors assign it to the key's compression flag."""
    for q, cls in (('keys:Key._bip38_decrypt', 'Key'), ('keys:HDKey._bip38_decrypt', 'HDKey')):
        fn = ctx.repo.func(q)
        asg = [n for n in walk_no_nested(fn) if isinstance(n, ast.Assign) and isinstance(n.value, ast.Call) and unparse(n.value.func) == 'bip38_decrypt']
        if not asg or not isinstance(asg[0].targets[0], ast.Tuple):
            ctx.undecided('%s: unpacking of bip38_decrypt(...) not found' % q)
        names = [unparse(e) for e in asg[0].targets[0].elts]
        ctx.saw('%s unpacks bip38_decrypt into %s' % (q, names))
        if len(names) < 3:
            ctx.undecided('%s: bip38_decrypt result has an unexpected shape' % q)
        flag = names[2]
        rets = [n for n in walk_no_nested(fn) if isinstance(n, ast.Return) and isinstance(n.value, ast.Tuple)]
        ctx.require(bool(rets) and len(rets[0].value.elts) == 2 and unparse(rets[0].value.elts[1]) == flag and unparse(rets[0].value.elts[0]) == names[0], q,
                    'does not return (key, compression flag) of the decrypted key', fn, 'uncompressed BIP38 keys import as compressed keys')
        mk = [c for c in ast.walk(fn) if isinstance(c, ast.Call) and unparse(c.func) == cls]
        ctx.require(bool(mk) and any(k.arg == 'compressed' and unparse(k.value) == flag for k in mk[0].keywords), q,
                    'the address hash is verified with a key built without the decrypted compression flag', fn)
    # bip38_decrypt itself: third result derives from the flag byte
    fn = ctx.repo.func('keys:bip38_decrypt')
    it = Interp(ctx.repo, 'keys', hooks=dict(LAYOUT_HOOKS))
    rets = [n for n in walk_no_nested(fn) if isinstance(n, ast.Return) and isinstance(n.value, ast.Tuple)]
    if not rets or len(rets[-1].value.elts) < 3:
        ctx.undecided('bip38_decrypt: result tuple not found')
    from ..dfa import ReachingDefs
    rd = ReachingDefs(fn)
    nid = rd.node_of_ast(rets[-1])
    lv = rd.leaves(rets[-1].value.elts[2], nid)
    ctx.saw('bip38_decrypt: compression flag derives from %s' % sorted(map(str, lv))[:8])
    ctx.require(any('flagbyte' in str(x) or 'flag' in str(x).lower() for x in lv) or any(x[0] == 'const' and x[1] in (True, False) for x in lv), 'keys:bip38_decrypt',
                'the compression flag returned does not derive from the flag byte', fn)
    # the constructors assign it
    for q, pat in (('keys:Key.__init__', 'self.compressed'), ('keys:HDKey.__init__', 'compressed')):
        fn = ctx.repo.func(q)
        asg = [n for n in ast.walk(fn) if isinstance(n, ast.Assign) and isinstance(n.value, ast.Call) and unparse(n.value.func) == 'self._bip38_decrypt']
        ok = bool(asg) and isinstance(asg[0].targets[0], ast.Tuple) and len(asg[0].targets[0].elts) == 2 and unparse(asg[0].targets[0].elts[1]) == pat
        ctx.saw('%s: %s' % (q, norm(asg[0]) if asg else 'no BIP38 branch'))
        ctx.require(ok, q, 'the BIP38 branch does not assign the decrypted compression flag to %s' % pat, asg[0] if asg else fn,
                    'an uncompressed BIP38 key (6PR...) imports silently as a compressed key with another address')
    # HDKey passes `compressed` on to Key.__init__
    fn = ctx.repo.func('keys:HDKey.__init__')
    calls = [c for c in ast.walk(fn) if isinstance(c, ast.Call) and unparse(c.func) == 'Key.__init__']
    if not calls:
        ctx.undecided('HDKey.__init__: call of Key.__init__ not found')
    passed = unparse(calls[0].args[3]) if len(calls[0].args) >= 4 else dict((k.arg, unparse(k.value)) for k in calls[0].keywords).get('compressed')
    ctx.require(passed == 'compressed', 'keys:HDKey.__init__', 'Key.__init__ is called with compression flag `%s`' % passed, fn)


@PROP.obligation('C12.network-hint', canaries=[
    mut.replace_expr('keys', 'check_network_and_key', 'network is None and len(kf_networks) > 1', 'len(kf_networks) > 1', 'a valid hint is replaced when several networks share the prefix'),
])
def network_hint(ctx):
    """check_network_and_key evaluated over hint x candidate-network scenarios: a hint that is among the networks of the key is returned
    unchanged, a hint that is not raises, without a hint a single candidate is returned, and several candidates fall back to the default
    network / testnet / raise."""
    q = 'keys:check_network_and_key'
    fn = ctx.repo.func(q)
    cases = [
        ('signet', ['testnet', 'testnet4', 'signet', 'regtest'], 'signet'),
        ('testnet4', ['testnet', 'testnet4'], 'testnet4'),
        ('regtest', ['bitcoin', 'regtest'], 'regtest'),
        ('bitcoin', ['bitcoin'], 'bitcoin'),
        ('litecoin', ['bitcoin', 'regtest'], 'raise'),
        (None, ['litecoin'], 'litecoin'),
        (None, ['bitcoin', 'regtest'], 'bitcoin'),
        (None, ['testnet', 'signet'], 'testnet'),
        (None, ['litecoin', 'dogecoin'], 'raise'),
        ('dogecoin', None, 'dogecoin-nokf'),
    ]
    for hint, kfn, exp in cases:
        hooks = {'get_key_format': lambda interp, args, kwargs, st, node: {'networks': None, 'format': 'hex', 'is_private': True}}
        it = Interp(ctx.repo, 'keys', hooks=hooks)
        exits = it.run_function(fn, {'key': S(('var', 'key')), 'network': hint, 'kf_networks': kfn, 'default_network': 'bitcoin'})
        first = exits[0] if exits else None
        got = 'raise' if first is None or first.kind == 'raise' else first.value
        if exp == 'dogecoin-nokf':
            exp = 'dogecoin'
        ctx.saw('hint=%s, networks of the key=%s -> %s' % (hint, kfn, got))
        if not isinstance(got, str):
            ctx.undecided('check_network_and_key not decidable for hint=%s networks=%s' % (hint, kfn))
        ctx.require(got == exp, q, 'hint %s with key networks %s gives %s, expected %s' % (hint, kfn, got, exp), fn,
                    'a signet / testnet4 / regtest key imported with its network comes back on another network')
    # the constructors use it
    for qq in ('keys:HDKey.__init__', 'keys:Key.__init__'):
        f = ctx.repo.func(qq)
        calls = [c for c in ast.walk(f) if isinstance(c, ast.Call) and unparse(c.func) == 'check_network_and_key']
        ctx.require(bool(calls), qq, 'the network of an imported key is not checked against the hint', f)


@PROP.obligation('C12.meta-independent', canaries=[
    mut.replace_expr('keys', 'HDKey.__init__', "len(kf['multisig']) == 1", "len(kf['multisig']) == 1 and not witness_type", 'multisig flag of the prefix honoured only without a witness type argument'),
])
def meta_independent(ctx):
    """HDKey.__init__ on a formatted key: each piece of metadata that the version prefix encodes unambiguously (script type, witness type,
    multisig flag) is taken over independently of the other arguments. The detection block is evaluated with a prefix that says
    (p2wsh, segwit, multisig) once with and once without a witness_type argument: multisig must come out True in both."""
    q = 'keys:HDKey.__init__'
    fn = ctx.repo.func(q)
    holder = None
    for n in ast.walk(fn):
        for field in ('body', 'orelse'):
            stmts = getattr(n, field, None)
            if isinstance(stmts, list) and any(isinstance(s, ast.Assign) and norm(s) == 'kf = get_key_format(import_key)' for s in stmts):
                holder = stmts
    if holder is None:
        ctx.undecided('HDKey.__init__: format detection block not found')
    for wt_arg, ms_arg in ((None, False), ('segwit', False), ('p2sh-segwit', False)):
        hooks = dict(LAYOUT_HOOKS)
        hooks['get_key_format'] = lambda interp, args, kwargs, st, node: {'format': 'hex', 'networks': ['bitcoin'], 'is_private': True, 'script_types': ['p2wsh'], 'witness_types': ['segwit'], 'multisig': [True]}
        hooks['check_network_and_key'] = lambda interp, args, kwargs, st, node: 'bitcoin'
        hooks['Network'] = lambda interp, args, kwargs, st, node: S(('net', term(args[0])))
        it = Interp(ctx.repo, 'keys', hooks=hooks, self_cls='keys:HDKey')
        st = State(env={'self': S(SELF), 'import_key': S(('var', 'import_key'), 'str'), 'witness_type': wt_arg, 'multisig': ms_arg, 'network': None, 'script_type': None,
                        'chain': None, 'is_private': True, 'key_type': 'bip32', 'password': '', 'compressed': True})
        it.frames.append([])
        try:
            end = it.exec_block(holder, st)
        except AnalysisError as e:
            ctx.undecided('HDKey.__init__: detection block not evaluable: %s' % str(e)[:100])
        it.frames.pop()
        if end is None:
            ctx.undecided('HDKey.__init__: detection block always raises in the scenario')
        got = {k: end.env.get(k) for k in ('multisig', 'witness_type', 'script_type')}
        ctx.saw('prefix says (p2wsh, segwit, multisig); arguments witness_type=%s multisig=%s -> %s' % (wt_arg, ms_arg, {k: (v if not isinstance(v, S) else show(term(v))[:30]) for k, v in got.items()}))
        ctx.require(got['multisig'] is True, q, 'with witness_type=%s the multisig flag of the prefix is not taken over (multisig=%s)' % (wt_arg, got['multisig']), fn,
                    "HDKey('Zprv...', witness_type='segwit') comes back with multisig=False and re-exports as zprv")
        ctx.require(got['script_type'] == 'p2wsh', q, 'with witness_type=%s the script type of the prefix is not taken over (%s)' % (wt_arg, got['script_type']), fn)
        exp_wt = wt_arg or 'segwit'
        ctx.require(got['witness_type'] == exp_wt, q, 'witness type is %s, expected %s' % (got['witness_type'], exp_wt), fn)


@PROP.obligation('C12.detect-hex', canaries=[
    mut.replace_expr('keys', 'get_key_format', "len(key) == 66 and key[-2:] in ['01'] and (not is_private is False)", "len(key) == 66 and key[-2:] in ['01'] and key[:2] not in ['02', '03'] and (not is_private is False)", 'no-op guard') if False else
    mut.replace_expr('keys', 'get_key_format', "key[:2] in ['02', '03']", "key[:2] in ['02']", 'public keys with prefix 03 fall through to the private hex forms'),
])
def detect_hex(ctx):
    """get_key_format on hexadecimal strings, evaluated on SHAPES (length, two-character prefix, two-character suffix, the middle symbolic):
    66 characters starting 02 / 03 are a compressed PUBLIC key whatever the last byte is (1 in 256 public keys ends in 01, the suffix of
    the private hex_compressed form); 66 characters ending 01 and not starting 02 / 03 are a private key; 130 characters starting 04 are an
    uncompressed public key; 64 and 128 characters are private hex. No verdict may depend on the symbolic middle."""
    q = 'keys:get_key_format'
    fn = ctx.repo.func(q)
    it = Interp(ctx.repo, 'keys', hooks=dict(LAYOUT_HOOKS))
    exits = it.run_function(fn, {'key': S(('var', 'key'), 'str'), 'is_private': None})
    rets = [e for e in exits if e.kind == 'return' and isinstance(e.value, dict)]
    if not rets:
        ctx.undecided('get_key_format: no dictionary result')
    K = ('var', 'key')

    def prep(t):
        def f(x):
            if isinstance(x, tuple) and x and x[0] == 'isinstance' and x[1] == K:
                return 'TYPE_TEXT' in show(x[2]) or show(x[2]).endswith("'str')")
            if x == ('not', K):
                return False
            return None
        return rewrite(t, f)
    fmt_t, priv_t = prep(term(rets[-1].value['format'])), prep(term(rets[-1].value['is_private']))
    cases = [
        ('66 chars 02..01', [b'02', ('mid', 62), b'01'], ('public', False)),
        ('66 chars 03..01', [b'03', ('mid', 62), b'01'], ('public', False)),
        ('66 chars 02..ab', [b'02', ('mid', 62), b'ab'], ('public', False)),
        ('66 chars ab..01', [b'ab', ('mid', 62), b'01'], ('hex_compressed', True)),
        ('64 chars', [b'ab', ('mid', 60), b'01'], ('hex', True)),
        ('130 chars 04..', [b'04', ('mid', 126), b'01'], ('public_uncompressed', False)),
        ('128 chars', [b'ab', ('mid', 124), b'cd'], ('hex', True)),
    ]
    for name, lay, exp in cases:
        env = {K: seg.seg(*lay)}
        try:
            f = seg.seg_eval(fmt_t, env)
            p_ = seg.seg_eval(priv_t, env)
        except seg.SegUnknown as e:
            ctx.undecided('get_key_format: verdict for %s not evaluable: %s' % (name, str(e)[:100]))
        ctx.saw('%s -> %s' % (name, (f, p_)))
        if isinstance(f, seg.Dep) or isinstance(p_, seg.Dep):
            ctx.violate(q, 'the verdict for a hex string of shape %s depends on its middle characters' % name, fn)
            continue
        ctx.require((f, p_) == exp, q, 'a hex string of shape %s is classified %s, expected %s' % (name, (f, p_), exp), fn,
                    'a compressed public key that ends in 01 is imported as a private key (its first 32 bytes become the secret)' if 'public' in exp[0] else 'private key hex is classified as public')


@PROP.obligation('C12.secret-width', canaries=[
    mut.replace_expr('keys', 'Key.__init__', 'change_base(self.secret, 10, 16, 64)', 'change_base(self.secret, 10, 16)', 'secret of an integer import rendered without leading zeros'),
])
def secret_width(ctx):
    """Key.__init__, integer import: private_byte / private_hex are the secret in FIXED width (32 bytes / 64 hex digits). The branch is
    evaluated with the secret symbolic; the stored forms must be int2bytes(secret, 32, big) or change_base(secret, 10, 16, 64) and its
    bytes - a minimal-length rendering drops the leading zero bytes of 1 in 256 secrets and the exported xprv / bytes no longer import."""
    q = 'keys:Key.__init__'
    fn = ctx.repo.func(q)
    blks = [n for n in ast.walk(fn) if isinstance(n, ast.If) and "self.key_format == 'decimal'" in unparse(n.test)]
    if len(blks) != 1:
        ctx.undecided('Key.__init__: integer import branch not found')
    it = Interp(ctx.repo, 'keys', hooks=dict(LAYOUT_HOOKS), self_cls='keys:Key')
    st = State(env={'self': S(SELF), 'import_key': S(('var', 'n'), 'int')})
    it.frames.append([])
    end = it.exec_block(blks[0].body, st)
    if end is None:
        ctx.undecided('Key.__init__: integer import branch always raises')
    N = ('var', 'n')
    hx = ('call', 'change_base', (N, 10, 16, 64), ())
    ok_hex = {hx, ('hex', ('int2bytes', N, 32, 'big')), ('mcall', ('int2bytes', N, 32, 'big'), 'hex', (), ())}
    ok_bytes = {('fromhex', hx), ('int2bytes', N, 32, 'big')}
    ph, pb = term(end.heap.get(A(SELF, 'private_hex'))), term(end.heap.get(A(SELF, 'private_byte')))
    ctx.saw('integer import: private_hex = %s ; private_byte = %s' % (show(ph)[:70], show(pb)[:70]))
    for name, got, ok in (('private_hex', ph, ok_hex), ('private_byte', pb, ok_bytes)):
        if got in ok:
            continue
        widths = [s_ for s_ in subterms(('w', got)) if isinstance(s_, tuple) and s_ and ((s_[0] == 'int2bytes' and s_[2] not in (32,)) or (s_[0] == 'call' and s_[1] == 'change_base' and len(s_[2]) < 4))]
        if widths or 'bit_length' in show(got):
            ctx.violate(q, 'an integer secret is stored as %s = %s: not a fixed 32 byte / 64 digit form' % (name, show(got)[:100]), blks[0],
                        'secrets below 2**248 get a short private_byte: HDKey(int).wif_private() is a truncated string that cannot be imported')
        else:
            ctx.unsure('%s: form of %s not recognised: %s' % (q, name, show(got)[:100]))


@PROP.obligation('C12.bin-suffix', canaries=[
    mut.replace_expr('keys', 'Key.__init__', "len(import_key) in [33, 65, 129] and import_key[-1:] == b'\\x01'", "import_key[-1:] == b'\\x01'", 'trailing 01 stripped from a bare 32-byte secret'),
])
def bin_suffix(ctx):
    """Key.__init__, binary private-key branch (`bin_compressed`, also used for the 32 bytes a BIP38 decryption returns): evaluated on a bare
    32-byte secret and on secret . 01 with the secret symbolic. The key bytes are secret[0:32] in both cases and no decision reads a byte
    of the secret: the compression suffix is recognised by the LENGTH of the input."""
    fn = ctx.repo.func('keys:Key.__init__')
    blks = [n for n in ast.walk(fn) if isinstance(n, ast.If) and "self.key_format == 'bin_compressed'" == norm(n.test)]
    if len(blks) != 1:
        ctx.undecided('Key.__init__: bin_compressed branch not found')
    for lay, label in (([('secret', 32)], 'a bare 32-byte secret'), ([('secret', 32), b'\x01'], 'secret . 01')):
        it = Interp(ctx.repo, 'keys', hooks=dict(LAYOUT_HOOKS), self_cls='keys:Key')
        K = ('var', 'import_key')
        st = State(env={'self': S(SELF), 'import_key': S(K, 'bytes')})
        it.frames.append([])
        try:
            end = it.exec_block(blks[0].body, st)
        except AnalysisError as e:
            ctx.undecided('bin_compressed branch not evaluable: %s' % str(e)[:100])
        if end is None:
            ctx.undecided('bin_compressed branch always raises')
        env = {K: seg.seg(*lay), ('len', K): sum(p[1] if isinstance(p, tuple) else len(p) for p in lay)}
        try:
            kb = seg.seg_eval(term(end.env.get('key_byte')), env)
        except seg.SegUnknown as e:
            ctx.undecided('bin_compressed branch not evaluable on %s: %s' % (label, e))
        ctx.saw('binary import of %s: key bytes = %s' % (label, seg.fmt(kb) if seg.is_seg(kb) else kb))
        if isinstance(kb, seg.Dep):
            ctx.violate('keys:Key.__init__', 'binary import of %s: what is taken as the key depends on payload bytes of field %s' % (label, ','.join(kb.fields)), blks[0],
                        'a BIP38 key (or raw 32-byte key) whose secret ends in 01 imports as another key with a 31-byte secret: 1 in 256 keys')
            continue
        ctx.require(kb == seg.seg(('secret', 32)), 'keys:Key.__init__', 'binary import of %s takes %s as the key, expected secret[0:32]' % (label, seg.fmt(kb) if seg.is_seg(kb) else kb), blks[0])


@PROP.obligation('C12.candidate-order', canaries=[
    mut.replace_expr('keys', 'HDKey.from_wif', "list(dict.fromkeys([n['network'] for n in prefix_data]))", "sorted(set((n['network'] for n in prefix_data)))", 'candidate networks of an extended key in alphabetical order'),
    mut.replace_expr('keys', 'get_key_format', "list(dict.fromkeys([n['network'] for n in prefix_data]))", "list(set([n['network'] for n in prefix_data]))", 'candidate networks of an extended key in hash order'),
])
def candidate_order(ctx):
    """Version bytes shared by several networks (tprv: testnet, testnet4, signet, dogecoin_testnet, ...) give a LIST of candidate networks;
    without a hint the first one is taken, and the order of that list is the priority order of the network definitions (bitcoin before
    its testnets, testnet before signet). Wherever keys.py picks `<candidates>[0]`, the list is not rebuilt through set() / sorted() /
    frozenset(), which replace the priority order by hash or alphabetical order."""
    from ..dfa import ReachingDefs
    m = ctx.repo.mod('keys')
    n = 0
    for q, f in sorted(m.functions.items()):
        picks = [x for x in ast.walk(f) if isinstance(x, ast.Subscript) and isinstance(x.value, ast.Name) and 'network' in x.value.id and isinstance(x.slice, ast.Constant) and x.slice.value == 0]
        if not picks:
            continue
        rd = ReachingDefs(f)
        for pk in picks:
            nid = rd.node_of_ast(pk)
            if nid is None:
                continue
            n += 1
            for d in rd.reaching(nid, pk.value.id):
                if d.value is None or d.kind == 'aug':
                    continue
                calls = [norm(c.func) for c in ast.walk(d.value) if isinstance(c, ast.Call)]
                bad = [c for c in calls if c in ('set', 'sorted', 'frozenset')]
                ctx.saw('%s: %s[0] <- %s' % (q, pk.value.id, norm(d.value)[:70]))
                if bad:
                    ctx.violate('keys:' + q, 'the first candidate network is taken from `%s`: %s() replaces the priority order of the network definitions' % (norm(d.value)[:80], bad[0]), d.ast,
                                'a tprv / vprv imported without a network hint becomes a dogecoin_testnet / signet key: other WIF version byte and addresses than the testnet key it is')
    ctx.floor(n, 3, 'first-candidate picks')
    # the candidate lists that are handed on (get_key_format returns one under 'networks'; its callers take [0]) keep the order too
    nd = 0
    for q, f in sorted(m.functions.items()):
        for s_ in ast.walk(f):
            if isinstance(s_, ast.Assign) and len(s_.targets) == 1 and isinstance(s_.targets[0], ast.Name) and s_.targets[0].id.endswith('networks'):
                nd += 1
                bad = [norm(c.func) for c in ast.walk(s_.value) if isinstance(c, ast.Call) and norm(c.func) in ('set', 'sorted', 'frozenset')]
                if bad:
                    ctx.violate('keys:' + q, 'the candidate list `%s` is rebuilt through %s(): the priority order of the network definitions is lost' % (norm(s_)[:90], bad[0]), s_,
                                'a tprv / vprv imported without a network hint becomes a dogecoin_testnet / signet key')
    ctx.saw('%d candidate-network lists are built without set() / sorted()' % nd)


@PROP.obligation('C12.detect-bytes', canaries=[
    mut.replace_expr('keys', 'get_key_format', 'len(key) == 33', 'len(key) in [33, 65]', '65 bytes with a compressed prefix taken for a public key', nth=0),
    mut.replace_expr('keys', 'get_key_format', 'len(key) == 65', 'len(key) in [33, 65]', '33 bytes starting 04 (a private key with compression suffix) taken for a public key', nth=0),
])
def detect_bytes(ctx):
    """get_key_format on BYTE strings, evaluated on shapes like C12.detect-hex and held to the same table as the hex forms: 33 bytes
    starting 02 / 03 are a compressed public key, 65 bytes starting 04 an uncompressed one; 33 bytes that start with anything else and
    end in 01 are a private key with compression suffix (1 in 256 of them starts with 04), 32 bytes a private key; 65 bytes starting
    02 / 03 and 33 bytes starting 04 without the suffix are no key at all. No verdict may depend on the symbolic middle."""
    q = 'keys:get_key_format'
    fn = ctx.repo.func(q)
    it = Interp(ctx.repo, 'keys', hooks=dict(LAYOUT_HOOKS))
    try:
        exits = it.run_function(fn, {'key': S(('var', 'key'), 'bytes'), 'is_private': None})
    except AnalysisError as e:
        ctx.undecided('get_key_format on a byte string not evaluable: %s' % str(e)[:100])
    rets = [e for e in exits if e.kind == 'return' and isinstance(e.value, dict)]
    if not rets:
        ctx.undecided('get_key_format: no dictionary result')
    K = ('var', 'key')

    def prep(t):
        def f(x):
            if isinstance(x, tuple) and x and x[0] == 'isinstance' and x[1] == K:
                return show(x[2]).endswith("'bytes')") or show(x[2]) == 'bytes' or "global('bytes')" in show(x[2])
            if x == ('not', K):
                return False
            return None
        return rewrite(t, f)
    fmt_t, priv_t = prep(term(rets[-1].value['format'])), prep(term(rets[-1].value['is_private']))
    cases = [
        ('33 bytes 02..01', [b'\x02', ('mid', 31), b'\x01'], ('bin_compressed', False)),
        ('33 bytes 03..ab', [b'\x03', ('mid', 31), b'\xab'], ('bin_compressed', False)),
        ('65 bytes 04..', [b'\x04', ('mid', 63), b'\xab'], ('bin', False)),
        ('33 bytes 04..01', [b'\x04', ('mid', 31), b'\x01'], ('bin_compressed', True)),
        ('33 bytes ab..01', [b'\xab', ('mid', 31), b'\x01'], ('bin_compressed', True)),
        ('32 bytes', [b'\x04', ('mid', 30), b'\x01'], ('bin', True)),
        ('65 bytes 02..', [b'\x02', ('mid', 63), b'\xab'], None),
        ('65 bytes 03..01', [b'\x03', ('mid', 63), b'\x01'], None),
    ]
    n = 0
    for name, lay, exp in cases:
        env = {K: seg.seg(*lay)}
        try:
            f = seg.seg_eval(fmt_t, env)
            p_ = seg.seg_eval(priv_t, env)
        except seg.SegUnknown as e:
            if exp is None:
                # shapes that are no key fall through to the string forms, which the byte-shape evaluation does not follow
                ctx.saw('%s -> falls through to the text forms (%s)' % (name, str(e)[:40]))
                n += 1
                continue
            ctx.undecided('get_key_format: verdict for %s not evaluable: %s' % (name, str(e)[:100]))
        n += 1
        ctx.saw('%s -> %s' % (name, (f, p_)))
        if isinstance(f, seg.Dep) or isinstance(p_, seg.Dep):
            if exp is None:
                continue
            ctx.violate(q, 'the verdict for a byte string of shape %s depends on its middle bytes' % name, fn)
            continue
        if exp is None:
            ctx.require(p_ is not False or not f, q, 'a byte string of shape %s is classified as the public key form %r' % (name, f), fn,
                        'a 65-byte string with a compressed-key prefix is accepted as a public key: the verifier takes an encoding no other implementation accepts')
        else:
            ctx.require((f, p_) == exp, q, 'a byte string of shape %s is classified %s, expected %s' % (name, (f, p_), exp), fn,
                        'a private key in the 33-byte form (secret + 01) whose secret starts with 04 is imported as a PUBLIC key made of its own bytes' if exp[1] else 'a public key is not recognised')
    ctx.floor(n, 8, 'byte shapes')


from . import c03 as _c03
PROP.obligation('C12.depth-domain', canaries=[
    mut.insert_before('keys', 'HDKey.__init__', 'if witness_type is None:', "if not 0 <= depth < 0xff or not 0 <= child_index <= 0xffffffff:\n    raise BKeyError('Invalid depth or child index')", 'an extended key of depth 255 no longer imports'),
])(_c03.depth_domain)


@PROP.obligation('C12.wif-network-hint', canaries=[
    mut.replace_expr('keys', 'Key.from_wif', 'network or next(iter(networks), DEFAULT_NETWORK)', 'next(iter(networks), network or DEFAULT_NETWORK)', 'the supplied network only serves as fallback'),
    mut.replace_expr('keys', 'Key.from_wif', 'network or next(iter(networks), DEFAULT_NETWORK)', 'next(iter(networks), DEFAULT_NETWORK)', 'the supplied network is dropped'),
])
def wif_network_hint(ctx):
    """A WIF version byte is shared by several networks (0x80 bitcoin / regtest, 0xef testnet / testnet4 / signet / litecoin_testnet, 0xb0
    litecoin / litecoin_legacy). Key.from_wif(wif, network=X) is evaluated with a version byte that two networks share: the Key is built
    on X when X is supplied and on the first network of the lookup when it is not."""
    q = 'keys:Key.from_wif'
    fn = ctx.repo.func(q)
    n = 0
    for hint, exp in (('regtest', 'regtest'), ('bitcoin', 'bitcoin'), (None, 'bitcoin')):
        seen = []
        hooks = {'change_base': lambda it, a, kw, st, node: S(('var', 'key_hex'), 'str'),
                 'network_by_value': lambda it, a, kw, st, node: ['bitcoin', 'regtest'],
                 'Key': lambda it, a, kw, st, node: (seen.append((a, kw)), S(('var', 'the_key')))[1]}
        it = Interp(ctx.repo, 'keys', hooks=hooks)
        try:
            exits = it.run_function(fn, {'wif': S(('var', 'wif'), 'str'), 'network': hint})
        except AnalysisError as e:
            ctx.undecided('Key.from_wif(network=%r) not evaluable: %s' % (hint, str(e)[:100]))
        if not seen:
            ctx.undecided('Key.from_wif(network=%r): no Key(...) construction reached' % (hint,))
        for a, kw in seen:
            n += 1
            got = kw.get('network', a[1] if len(a) > 1 else None)
            gv = got if isinstance(got, str) else show(term(got))
            ctx.saw('from_wif(<0x80 WIF>, network=%r) -> Key(..., network=%s)' % (hint, gv))
            ctx.require(gv == exp, q, 'Key.from_wif(wif, network=%r) with a version byte shared by bitcoin and regtest builds the key on network %s, expected %s' % (hint, gv, exp), fn,
                        "Key.from_wif(wif, network='regtest').address() is a bc1... address: the supplied network is lost on import")
    ctx.floor(n, 3, 'Key constructions')


@PROP.obligation('C12.supplied-options', canaries=[
    mut.replace_expr('keys', 'HDKey.__init__', "len(kf['multisig']) == 1 and kf['multisig'][0]", "len(kf['multisig']) == 1", 'a key format that does not encode the multisig flag resets a supplied multisig=True'),
    mut.replace_stmt('keys', 'HDKey.__init__', 'network = import_key.network', 'network = None', 'the network of a wrapped Key object is dropped'),
    mut.drop_stmt('keys', 'HDKey.__init__', 'if isinstance(network, Network)', 'a Network object given as network is wrapped in another Network'),
])
def supplied_options(ctx):
    """"... and - when the format encodes it or it is supplied - the same network, witness type and multisig flag." The part of
    HDKey.__init__ that looks at the imported key is evaluated for (a) a hex secret (get_key_format says multisig [False], networks
    None) with multisig=True supplied: the flag stays True; (b) a Key object of network litecoin and no network argument: the network
    is the one of the Key object; (c) an extended key with a Network OBJECT as network argument (the documented type is str or
    Network): what reaches Network(...) / Key.__init__ is its name or the object itself, never Network(<Network object>)."""
    q = 'keys:HDKey.__init__'
    fn = ctx.repo.func(q)
    top = [i for i, s_ in enumerate(fn.body) if isinstance(s_, ast.If) and norm(s_.test) == 'not key']
    if len(top) != 1:
        ctx.undecided('HDKey.__init__: the block that looks at the imported key (`if not key:`) was not found')
    stmts = [s_ for s_ in fn.body[:top[0] + 1] if not (isinstance(s_, ast.Expr) and isinstance(s_.value, ast.Constant))]
    IK = ('var', 'import_key')
    NETOBJ = ('var', 'network_object')
    n = 0

    def run(env, hooks, decide, what):
        it = Interp(ctx.repo, 'keys', hooks=hooks, self_cls='keys:HDKey', decide=decide)
        base = {'self': S(SELF), 'key': None, 'chain': None, 'depth': 0, 'parent_fingerprint': b'\0\0\0\0', 'child_index': 0, 'is_private': True, 'network': None, 'key_type': 'bip32',
                'password': '', 'compressed': True, 'encoding': None, 'witness_type': None, 'multisig': False}
        base.update(env)
        st = State(env=base)
        it.frames.append([])
        try:
            end = it.exec_block(stmts, st)
        except AnalysisError as e:
            ctx.undecided('HDKey.__init__ (%s): not evaluable: %s' % (what, str(e)[:100]))
        it.frames.pop()
        if end is None:
            ctx.undecided('HDKey.__init__ (%s): raises' % what)
        return end
    # (a)
    hooks = dict(LAYOUT_HOOKS)
    hooks['get_key_format'] = lambda it, a, kw, st, node: {'format': 'hex', 'networks': None, 'is_private': True, 'script_types': [], 'witness_types': ['segwit'], 'multisig': [False]}
    hooks['check_network_and_key'] = lambda it, a, kw, st, node: 'bitcoin'
    hooks['Network'] = lambda it, a, kw, st, node: S(('net', term(a[0]) if isinstance(a[0], S) else a[0]))
    for given in (True, False):
        end = run({'import_key': S(IK, 'str'), 'multisig': given}, hooks, lambda t: True if t == IK else (False if isinstance(t, tuple) and t and t[0] == 'isinstance' else None), 'hex secret, multisig=%s' % given)
        got = end.env.get('multisig')
        n += 1
        ctx.saw('HDKey(<hex secret>, multisig=%s) -> multisig %s' % (given, got))
        ctx.require(got is given, q, 'HDKey(<hex secret>, multisig=%s) ends with multisig=%s: the default of a format that does not encode the flag wins over the argument' % (given, got), fn.body[top[0]],
                    'HDKey(secret, multisig=True).wif_public() carries the single-signature prefix (zpub instead of Zpub): an import of it is no multisig key')
    # (b)
    def decide_key(t):
        if t == IK:
            return True
        if isinstance(t, tuple) and t and t[0] == 'isinstance' and t[1] == IK:
            return 'Key' in show(t[2]) and 'bytes' not in show(t[2])
        return None
    end = run({'import_key': S(IK)}, {}, decide_key, 'Key object')
    got = term(end.env.get('network')) if isinstance(end.env.get('network'), S) else end.env.get('network')
    n += 1
    ctx.saw('HDKey(<Key object>) without network -> network %s' % (show(got) if isinstance(got, tuple) else got))
    ok = got in (('attr', IK, 'network'), ('attr', ('attr', IK, 'network'), 'name'))
    ctx.require(ok, q, 'HDKey(<Key object>) without a network argument continues with network %s, not the network of the Key object' % (show(got) if isinstance(got, tuple) else got), fn.body[top[0]],
                "HDKey(Key(secret, network='litecoin')).network.name is 'bitcoin'")
    # (c)
    seen = []
    hooks2 = dict(hooks)
    hooks2['get_key_format'] = lambda it, a, kw, st, node: {'format': 'hex', 'networks': ['bitcoin'], 'is_private': True, 'script_types': [], 'witness_types': ['segwit'], 'multisig': [False]}
    hooks2['check_network_and_key'] = lambda it, a, kw, st, node: a[1]
    hooks2['Network'] = lambda it, a, kw, st, node: (seen.append(term(a[0]) if isinstance(a[0], S) else a[0]), S(('net', 'x')))[1]

    def decide_net(t):
        if t == IK:
            return True
        if isinstance(t, tuple) and t and t[0] == 'isinstance':
            return t[1] == NETOBJ and 'Network' in show(t[2])
        return None
    run({'import_key': S(IK, 'str'), 'network': S(NETOBJ)}, hooks2, decide_net, 'Network object as network')
    n += 1
    ctx.saw('HDKey(<key text>, network=<Network object>) -> Network(%s)' % [show(x) if isinstance(x, tuple) else x for x in seen])
    ctx.require(bool(seen) and all(x == ('attr', NETOBJ, 'name') for x in seen), q,
                'with a Network object as network argument the constructor builds Network(%s)' % ([show(x) if isinstance(x, tuple) else x for x in seen][:1]), fn.body[top[0]],
                "HDKey(xprv, network=Network('bitcoin')).network.name is a Network object: as_json() raises TypeError")
    ctx.floor(n, 4, 'supplied-option scenarios')


@PROP.obligation('C12.public-export-prefix', canaries=[
    mut.Canary('a public export with an explicit prefix serialises the private bytes', 'keys', lambda tree: _rkey_only_without_prefix(tree)),
])
def public_export_prefix(ctx):
    """"... extended private or public key with every network and witness-type prefix": HDKey.wif(is_private=False, prefix=P) and
    wif_public(prefix=P) are the documented way to export under any version prefix. Both are evaluated on a private key with an explicit
    prefix: the serialised payload contains the compressed PUBLIC key and no private attribute - with the private bytes under a
    public prefix the string is an 81-byte payload that no importer reads back as the same key (and it discloses the secret)."""
    from . import c16 as _c16
    T = _c16.compute_taint(ctx)
    PUB = ('attr', SELF, 'public_compressed_byte')
    n = 0
    for meth, args in (('wif', {'is_private': False, 'prefix': b'\x04\x88\xb2\x1e'}), ('wif_public', {'prefix': b'\x04\x88\xb2\x1e'}), ('wif', {'is_private': False, 'prefix': '04b24746'}),
                       ('wif', {'is_private': False}), ('wif_public', {})):
        try:
            q, fn, outs = _c16._eval_view(ctx, T, 'keys:HDKey', meth, args)
        except AnalysisError as e:
            ctx.undecided('HDKey.%s(%s) not evaluable: %s' % (meth, args, str(e)[:80]))
        n += 1
        for t, node in outs:
            has_pub = PUB in list(subterms(('w', t)))
            hit = T.contains(t, 'keys:HDKey')
            ctx.saw('HDKey.%s(%s): public key in the payload: %s, private material: %s' % (meth, ', '.join('%s=%r' % kv for kv in args.items()), has_pub, show(hit)[:40] if hit else 'none'))
            ctx.require(has_pub and not hit, q, 'HDKey.%s(%s) serialises %s' % (meth, ', '.join('%s=%r' % kv for kv in args.items()), ('the private ' + show(hit)[:40]) if hit else 'no public key'), node or fn,
                        "k.wif_public(prefix='0488B21E') on a private key is not the xpub: it carries the 32 secret bytes and cannot be imported")
    ctx.floor(n, 5, 'public exports')


def _rkey_only_without_prefix(tree):
    """move `rkey = self.public_compressed_byte` of HDKey.wif under `if not prefix:`"""
    for cls in tree.body:
        if isinstance(cls, ast.ClassDef) and cls.name == 'HDKey':
            for f in cls.body:
                if isinstance(f, ast.FunctionDef) and f.name == 'wif':
                    for i_ in ast.walk(f):
                        if isinstance(i_, ast.If) and norm(i_.test) == 'not is_private' and any('rkey' in norm(x) for x in i_.body):
                            for blk in ast.walk(f):
                                for field in ('body', 'orelse'):
                                    stmts = getattr(blk, field, None)
                                    if isinstance(stmts, list) and i_ in stmts:
                                        k = stmts.index(i_)
                                        tgt = [s_ for s_ in stmts[:k] if isinstance(s_, ast.If) and norm(s_.test) == 'not prefix']
                                        if not tgt:
                                            return False
                                        tgt[-1].body.extend(i_.body)
                                        stmts.remove(i_)
                                        return True
    return False
