"""C03 HD key derivation conforms to BIP32 — guards, formula shape, bookkeeping (structural part)."""
import ast

from ..core import Property, AnalysisError, unparse, norm, walk_no_nested
from ..sym import Interp, S, term, show, subterms, flatten_cat, State
from ..layout import LAYOUT_HOOKS, normalize
from .. import intv, mut

PROP = Property(
    'C03', 'BIP32 derivation: guards, CKD formula shape, metadata',
    'Static: child_public / child_private are evaluated abstractly; the index ranges that reach the HMAC, the HMAC '
    'data layout per range (0x00||k||ser32(i) for hardened, serP(K)||ser32(i) otherwise), the I_L/I_R split, the '
    'range checks, scalar/point addition operands and the child metadata (depth+1, parent fingerprint, child number, '
    'chain code) are compared with BIP32 CKDpriv/CKDpub. subkey_for_path must let the hardened marker reach the '
    'derivation or raise; the marker alphabet must agree between the three path parsers. Equality of derived key '
    'VALUES (commutation of public and private derivation) is delegated to HMAC/EC arithmetic and NOT decided.',
    ['hmac/hashlib and the EC point addition of fastecdsa/ecdsa are correct', 'Python int.to_bytes/from_bytes semantics'])

N = 0xFFFFFFFFFFFFFFFFFFFFFFFFFFFFFFFEBAAEDCE6AF48A03BBFD25E8CD0364141
SELF = ('var', 'self')
INDEX = ('var', 'index')
HARD = ('var', 'hardened')


def _interp(repo):
    return Interp(repo, 'keys', hooks=LAYOUT_HOOKS, self_cls='keys:HDKey', inline={'self._key_derivation'})


def _hmacs(t):
    out = []
    for s in subterms(t):
        if isinstance(s, tuple) and len(s) >= 4 and s[0] == 'mcall' and s[1] == ('global', 'hmac') and s[2] == 'new':
            if s not in out:
                out.append(s)
    return out


def _kw(call_term, name):
    for k, v in call_term[3]:
        if k == name:
            return v
    return None


@PROP.obligation('C03.pub-guard', canaries=[
    mut.cmpop('keys', 'HDKey.child_public', 'index >= 2147483648', ast.Gt, 'child_public guard >= back to >'),
    mut.drop_stmt('keys', 'HDKey.child_public', 'if index >= 2147483648', 'child_public guard removed'),
])
def pub_guard(ctx):
    """HDKey.child_public: the index values that reach the HMAC / return a key are within [0, 2^31-1]."""
    q = 'keys:HDKey.child_public'
    fn = ctx.repo.func(q)
    it = _interp(ctx.repo)
    exits = it.run_function(fn, {'index': S(INDEX, 'int')})
    pts = intv.breakpoints(exits, 0, 2 ** 32 - 1, extra=[2 ** 31])
    for p in pts:
        feas = [e for e in exits if intv.exit_feasible(e, {INDEX: p})]
        kinds = sorted(set(e.kind for e in feas))
        ctx.saw('child_public(index=%#x): feasible exits %s' % (p, kinds))
        if p >= 2 ** 31 and any(e.kind == 'return' for e in feas):
            ctx.violate(q, 'index %#x (hardened range) is accepted and a child key is returned' % p, fn,
                        'a hardened child can never be derived from a public parent; some other key is returned instead')
        if p < 2 ** 31 and not any(e.kind == 'return' for e in feas):
            ctx.violate(q, 'non-hardened index %#x is refused' % p, fn)


@PROP.obligation('C03.priv-branch', canaries=[
    mut.replace_expr('keys', 'HDKey.child_private', 'hardened or index >= 2147483648', 'hardened', 'child_private: index>=2^31 no longer forces hardened formula'),
    mut.replace_expr('keys', 'HDKey.child_private', "b'\\x00' + self.private_byte + index.to_bytes(4, 'big')", "self.private_byte + index.to_bytes(4, 'big')", 'child_private: 0x00 pad dropped'),
    mut.const('keys', 'HDKey.child_private', 'big', 'little', 'child_private: ser32 little-endian', nth=0),
    mut.drop_stmt('keys', 'HDKey.child_private', 'index |= 2147483648', 'child_private: hardened bit not set in serialized index'),
    mut.replace_expr('keys', 'HDKey.child_private', 'self.public_compressed_byte + index.to_bytes(4, \'big\')', 'self.private_byte + index.to_bytes(4, \'big\')', 'child_private: non-hardened data uses private key'),
    mut.replace_expr('keys', 'HDKey.child_private', 'self.public_compressed_byte + index.to_bytes(4, \'big\')', 'self.public_byte + index.to_bytes(4, \'big\')', 'child_private: serP is the public key as stored (65 bytes for an uncompressed parent)'),
])
def priv_branch(ctx):
    """HDKey.child_private: HMAC data is 00||ser256(k)||ser32(i|2^31) exactly when hardened or i >= 2^31, else
    serP(K)||ser32(i) with i < 2^31; the child number stored is the serialized index."""
    q = 'keys:HDKey.child_private'
    fn = ctx.repo.func(q)
    it = _interp(ctx.repo)
    exits = it.run_function(fn, {'index': S(INDEX, 'int'), 'hardened': S(HARD, 'bool')})
    rets = [e for e in exits if e.kind == 'return']
    if len(rets) != 1:
        ctx.undecided('child_private has %d return paths' % len(rets))
    rv = term(rets[0].value)
    if not (isinstance(rv, tuple) and rv[0] == 'call' and rv[1] == 'HDKey'):
        ctx.undecided('child_private does not return HDKey(...)')
    priv = ('attr', SELF, 'private_byte')
    pub = ('attr', SELF, 'public_compressed_byte')         # serP(K) is the COMPRESSED point, also for a parent created with compressed=False
    for hard in (True, False):
        for p in (0, 1, 2 ** 31 - 1, 2 ** 31, 2 ** 31 + 1, 2 ** 32 - 1):
            sub = {INDEX: p, HARD: hard}
            sp = normalize(intv.specialise(rv, sub))
            hm = _hmacs(sp)
            if len(hm) != 1:
                ctx.undecided('child_private: expected one HMAC term, found %d' % len(hm))
            data = hm[0][3][1]
            ci = _kw(sp, 'child_index')
            ctx.saw('child_private(index=%#x, hardened=%s): HMAC data %s, child_index %s' % (p, hard, show(data), show(ci)))
            is_h = hard or p >= 2 ** 31
            ser = p | 2 ** 31 if is_h else p
            parts = flatten_cat(data)
            if is_h:
                exp = [b'\x00', priv, ('int2bytes', ser, 4, 'big')]
                why = 'hardened child: data must be 0x00 || ser256(k_par) || ser32(i) with i >= 2^31'
            else:
                exp = [pub, ('int2bytes', ser, 4, 'big')]
                why = 'normal child: data must be serP(K_par) || ser32(i), serP being the compressed public key (self.public_byte is the 65-byte key for an HDKey created with compressed=False: its children are not the BIP32 children)'
            if parts != exp:
                ctx.violate(q, 'index=%#x hardened=%s: HMAC data is %s, BIP32 requires %s' % (p, hard, show(data), show(('cat', tuple(exp)))), fn, why)
            if ci != ser:
                ctx.violate(q, 'index=%#x hardened=%s: child number stored is %s, serialized index is %#x' % (p, hard, show(ci), ser), fn)


@PROP.obligation('C03.hmac', canaries=[
    mut.replace_expr('keys', 'HDKey._key_derivation', 'i[:32]', 'i[32:]', 'I_L / I_R swapped in _key_derivation', nth=0),
    mut.replace_expr('keys', 'HDKey._key_derivation', 'hashlib.sha512', 'hashlib.sha256', 'HMAC-SHA256 instead of SHA512'),
    mut.cmpop('keys', 'HDKey._key_derivation', 'key_int >= secp256k1_n', ast.Gt, '_key_derivation: I_L >= n check weakened to >'),
    mut.const('keys', 'HDKey.from_seed', b'Bitcoin seed', b'bitcoin seed', 'from_seed HMAC key changed'),
    mut.drop_stmt('keys', 'HDKey.from_seed', 'if key_int >= secp256k1_n', 'from_seed range check dropped'),
])
def hmac_split(ctx):
    """_key_derivation = HMAC-SHA512(key=chain code, data), I_L = [:32], I_R = [32:], raise if I_L >= n;
    from_seed uses key b'Bitcoin seed' with the same split and guard."""
    repo = ctx.repo
    q = 'keys:HDKey._key_derivation'
    fn = repo.func(q)
    it = Interp(repo, 'keys', hooks=LAYOUT_HOOKS, self_cls='keys:HDKey')
    seed = ('var', 'seed')
    exits = it.run_function(fn, {'seed': S(seed, 'bytes')})
    _check_split(ctx, q, fn, exits, seed, chain_must_be_self=True)
    q = 'keys:HDKey.from_seed'
    fn = repo.func(q)
    it = Interp(repo, 'keys', hooks=LAYOUT_HOOKS, self_cls='keys:HDKey')
    exits = it.run_function(fn, {'import_seed': S(('var', 'import_seed'), 'bytes')})
    _check_split(ctx, q, fn, exits, ('var', 'import_seed'), chain_must_be_self=False)


def _check_split(ctx, q, fn, exits, data, chain_must_be_self):
    rets = [e for e in exits if e.kind == 'return']
    if len(rets) != 1:
        ctx.undecided('%s: %d return paths' % (q, len(rets)))
    rv = normalize(term(rets[0].value))
    hm = _hmacs(('wrap', rv) + tuple(t for e in exits for (t, pol) in e.pc))
    if len(hm) != 1:
        ctx.undecided('%s: expected one HMAC term, found %d' % (q, len(hm)))
    h = hm[0]
    ctx.saw('%s: %s' % (q, show(h)))
    key, dat, dig = h[3][0], h[3][1], (h[3][2] if len(h[3]) > 2 else _kw(('x', 'x', (), h[4]), 'digestmod'))
    ctx.require(dig == ('attr', ('global', 'hashlib'), 'sha512'), q, 'HMAC digest is %s, BIP32 uses SHA512' % show(dig), fn)
    ctx.require(dat == data, q, 'HMAC message is %s, expected the data argument' % show(dat), fn)
    if chain_must_be_self:
        # chain code of this key (the repo falls back to b"Bitcoin seed" for a key without chain)
        ok = any(isinstance(s, tuple) and s == ('attr', SELF, 'chain') for s in subterms(key))
        ctx.require(ok, q, 'HMAC key is %s, expected the parent chain code' % show(key), fn)
    else:
        ctx.require(key == b'Bitcoin seed', q, 'master HMAC key is %s, BIP32 uses "Bitcoin seed"' % show(key), fn)
    digest = ('mcall', h, 'digest', (), ())
    il, ir = ('slice', digest, None, 32, None), ('slice', digest, 32, None, None)
    if rv[0] in ('tuple', 'list'):
        got_l, got_r = rv[1], rv[2]
    elif rv[0] == 'call':
        got_l, got_r = _kw(rv, 'key'), _kw(rv, 'chain')
    else:
        ctx.undecided('%s: result shape' % q)
    ctx.require(got_l == il, q, 'key part is %s, expected I_L = digest[:32]' % show(got_l), fn)
    ctx.require(got_r == ir, q, 'chain code is %s, expected I_R = digest[32:]' % show(got_r), fn)
    # range guard I_L >= n raises
    guard = ('cmp', '>=', ('bytes2int', il, 'big'), N)
    raises = [e for e in exits if e.kind == 'raise' and (guard, True) in e.pc]
    if not raises:
        alt = [e for e in exits if e.kind == 'raise']
        ctx.violate(q, 'no raise guarded by parse256(I_L) >= n (raises found: %s)' % '; '.join(show(pc[0]) for e in alt for pc in e.pc[-1:]), fn,
                    'BIP32: in case parse256(I_L) >= n the resulting key is invalid')


@PROP.obligation('C03.add', canaries=[
    mut.replace_expr('keys', 'HDKey.child_private', '(key + self.secret) % secp256k1_n', '(key + self.secret) % secp256k1_p', 'child_private: addition modulo p'),
    mut.drop_stmt('keys', 'HDKey.child_private', 'if newkey == 0', 'child_private: zero check dropped'),
    mut.const('keys', 'HDKey.child_private', 'big', 'little', 'child_private: parse256(I_L) little-endian', nth=2),
    mut.replace_expr('keys', 'HDKey.child_public', 'fastecdsa_point.Point(x, y, fastecdsa_secp256k1)', 'fastecdsa_point.Point(y, x, fastecdsa_secp256k1)', 'child_public: parent point coordinates swapped'),
])
def add(ctx):
    """private child = (parse256(I_L) + k_par) mod n with raise on 0 and on I_L >= n; public child = point(I_L) + K_par."""
    repo = ctx.repo
    q = 'keys:HDKey.child_private'
    fn = repo.func(q)
    it = _interp(repo)
    exits = it.run_function(fn, {'index': S(INDEX, 'int'), 'hardened': S(HARD, 'bool')})
    rets = [e for e in exits if e.kind == 'return']
    rv = normalize(term(rets[0].value))
    hm = _hmacs(rv)
    if len(hm) != 1:
        ctx.undecided('child_private: HMAC term')
    il = ('bytes2int', ('slice', ('mcall', hm[0], 'digest', (), ()), None, 32, None), 'big')
    exp = ('int2bytes', ('binop', '%', ('binop', '+', il, ('attr', SELF, 'secret')), N), 32, 'big')
    exp2 = ('int2bytes', ('binop', '%', ('binop', '+', ('attr', SELF, 'secret'), il), N), 32, 'big')
    got = _kw(rv, 'key')
    ctx.saw('child_private key = %s' % show(got)[:200])
    ctx.require(got in (exp, exp2), q, 'child secret is %s, expected ser256((parse256(I_L) + k_par) mod n)' % show(got)[:300], fn)
    zero = ('cmp', '==', exp[1], 0)
    zero2 = ('cmp', '==', exp2[1], 0)
    ctx.require(any(e.kind == 'raise' and ((zero, True) in e.pc or (zero2, True) in e.pc) for e in exits), q,
                'no raise when the child secret is 0', fn)
    ctx.require(any(e.kind == 'raise' and (('cmp', '>=', il, N), True) in e.pc for e in exits), q,
                'no raise when parse256(I_L) >= n', fn)
    q = 'keys:HDKey.child_public'
    fn = repo.func(q)
    it = _interp(repo)
    exits = it.run_function(fn, {'index': S(INDEX, 'int')})
    rets = [e for e in exits if e.kind == 'return']
    if len(rets) != 1:
        ctx.undecided('child_public return paths')
    rv = normalize(term(rets[0].value))
    hm = _hmacs(rv)
    if len(hm) != 1:
        ctx.undecided('child_public: HMAC term')
    data = flatten_cat(hm[0][3][1])
    ctx.require(data == [('attr', SELF, 'public_compressed_byte'), ('int2bytes', INDEX, 4, 'big')], q,
                'HMAC data is %s, BIP32 CKDpub requires serP(K_par) || ser32(i) with the compressed public key' % show(hm[0][3][1]), fn)
    il = ('bytes2int', ('slice', ('mcall', hm[0], 'digest', (), ()), None, 32, None), 'big')
    ctx.require(any(e.kind == 'raise' and (('cmp', '>=', il, N), True) in e.pc for e in exits), q,
                'no raise when parse256(I_L) >= n', fn)
    px = ('index', ('mcall', SELF, 'public_point', (), ()), 0)
    py = ('index', ('mcall', SELF, 'public_point', (), ()), 1)
    sums = [s for s in subterms(rv) if isinstance(s, tuple) and s[0] == 'binop' and s[1] == '+' and
            isinstance(s[2], tuple) and s[2][:2] == ('call', 'ec_point')]
    if not sums:
        ctx.undecided('child_public: point addition not found')
    for s in set(sums):
        ctx.saw('child_public point addition: %s' % show(s)[:160])
        ctx.require(s[2] == ('call', 'ec_point', (il,), ()), q, 'first summand is %s, expected point(parse256(I_L))' % show(s[2])[:200], fn)
        other = s[3]
        args = other[3] if other[0] == 'mcall' else ()
        ok = other[0] == 'mcall' and other[2] == 'Point' and ((args[0] == px and args[1] == py) or (len(args) > 2 and args[1] == px and args[2] == py))
        ctx.require(ok, q, 'second summand is %s, expected the parent public point (x, y)' % show(other)[:200], fn)
    # compressed encoding of the sum: prefix by parity of y, x as 32-byte hex
    key = _kw(rv, 'key')
    conds = [s for s in subterms(key) if isinstance(s, tuple) and s[0] == 'cond' and s[2] == '03' and s[3] == '02']
    ctx.require(bool(conds) and all(isinstance(c[1], tuple) and c[1][0] == 'binop' and c[1][1] == '%' and c[1][3] == 2 for c in conds), q,
                'compressed prefix is not 03 for odd y / 02 for even y', fn)
    ctx.require(_kw(rv, 'is_private') is False, q, 'child of child_public is not marked public', fn)


@PROP.obligation('C03.meta', canaries=[
    mut.replace_expr('keys', 'HDKey.child_private', 'self.depth + 1', 'self.depth', 'child_private: depth not incremented'),
    mut.replace_expr('keys', 'HDKey.child_public', 'self.fingerprint', 'self.parent_fingerprint', 'child_public: parent fingerprint copied from parent'),
    mut.replace_expr('keys', 'HDKey.fingerprint', 'self.hash160[:4]', 'self.hash160[-4:]', 'fingerprint: last 4 bytes'),
    mut.replace_expr('keys', 'HDKey.fingerprint', 'not self.compressed', 'False', 'fingerprint of the key as stored (uncompressed form for compressed=False)'),
    mut.replace_stmt('keys', 'HDKey.__init__', 'self.chain = chain', 'self.chain = to_bytes(chain)', 'chain code passed through the hex-sniffing normaliser'),
])
def meta(ctx):
    """child_private / child_public build the child with depth+1, parent_fingerprint = this key's fingerprint, chain = I_R;
    fingerprint = first 4 bytes of hash160 of the public key."""
    repo = ctx.repo
    for name, args in (('child_private', {'index': S(INDEX, 'int'), 'hardened': S(HARD, 'bool')}), ('child_public', {'index': S(INDEX, 'int')})):
        q = 'keys:HDKey.' + name
        fn = repo.func(q)
        it = _interp(repo)
        exits = it.run_function(fn, args)
        rets = [e for e in exits if e.kind == 'return']
        if len(rets) != 1:
            ctx.undecided('%s return paths' % q)
        rv = normalize(term(rets[0].value))
        hm = _hmacs(rv)
        if len(hm) != 1 or rv[:2] != ('call', 'HDKey'):
            ctx.undecided('%s: shape' % q)
        ir = ('slice', ('mcall', hm[0], 'digest', (), ()), 32, None, None)
        ctx.saw('%s -> HDKey(depth=%s, parent_fingerprint=%s, chain=I_R:%s)' % (name, show(_kw(rv, 'depth')), show(_kw(rv, 'parent_fingerprint')), _kw(rv, 'chain') == ir))
        ctx.require(_kw(rv, 'depth') == ('binop', '+', ('attr', SELF, 'depth'), 1), q, 'child depth is %s, expected parent depth + 1' % show(_kw(rv, 'depth')), fn)
        ctx.require(_kw(rv, 'parent_fingerprint') == ('attr', SELF, 'fingerprint'), q, 'parent_fingerprint is %s, expected the fingerprint of the deriving key' % show(_kw(rv, 'parent_fingerprint')), fn)
        ctx.require(_kw(rv, 'chain') == ir, q, 'child chain code is %s, expected I_R' % show(_kw(rv, 'chain'))[:200], fn)
        if name == 'child_public':
            ctx.require(_kw(rv, 'child_index') == INDEX, q, 'child number is %s' % show(_kw(rv, 'child_index')), fn)
    # the constructor stores what derivation hands it: chain code, depth, parent fingerprint and child number unchanged (no normaliser in
    # between - to_bytes() re-reads bytes that spell hexadecimal text)
    q = 'keys:HDKey.__init__'
    fn = repo.func(q)
    stores = {}
    for n in ast.walk(fn):
        if isinstance(n, ast.Assign) and len(n.targets) == 1 and norm(n.targets[0]) in ('self.chain', 'self.depth', 'self.parent_fingerprint', 'self.child_index'):
            stores.setdefault(norm(n.targets[0]), []).append(n)
    for attr in ('self.chain', 'self.depth', 'self.parent_fingerprint', 'self.child_index'):
        if len(stores.get(attr, [])) != 1:
            ctx.unsure('%s: %s is assigned in %d places' % (q, attr, len(stores.get(attr, []))))
            continue
        ctx.match(q, 'stored %s' % attr[5:], stores[attr][0].value, attr[5:], fn, stores[attr][0],
                  'a chain code whose 32 bytes all are ASCII hex digits is replaced by the 16 bytes it spells: master and every child key differ from BIP32' if attr == 'self.chain' else 'the serialised extended key carries other metadata than the derivation produced')
    ctx.saw('HDKey.__init__ stores chain / depth / parent_fingerprint / child_index as given')
    q = 'keys:HDKey.fingerprint'
    fn = repo.func(q)
    # serP(K) is the compressed point: self.hash160 is the hash of the key AS STORED, which is the 65-byte form when compressed=False
    of_compressed = ('slice', ('call', 'hash160', (('attr', SELF, 'public_compressed_byte'),), ()), None, 4, None)
    for compressed in (True, False):
        def attr_hook(interp, base, name, st, compressed=compressed):
            if term(base) == SELF and name == 'compressed':
                return compressed
            return NotImplemented
        it = Interp(repo, 'keys', self_cls='keys:HDKey', attr_hook=attr_hook)
        exits = it.run_function(fn, {})
        rets = [e for e in exits if e.kind == 'return']
        if len(rets) != 1:
            ctx.undecided('HDKey.fingerprint (compressed=%s): %d return paths' % (compressed, len(rets)))
        rv = term(rets[0].value)
        ctx.saw('fingerprint of a key with compressed=%s = %s' % (compressed, show(rv)))
        allowed = [of_compressed] + ([('slice', ('attr', SELF, 'hash160'), None, 4, None)] if compressed else [])
        ctx.require(rv in allowed, q, 'fingerprint of a key with compressed=%s is %s, BIP32 uses the first 32 bits of HASH160(serP(K)) with the compressed point' % (compressed, show(rv)), fn,
                    'children of an HDKey created with compressed=False carry a parent fingerprint no other implementation computes')


@PROP.obligation('C03.priv-required', canaries=[
    mut.drop_stmt('keys', 'HDKey.child_private', 'if not self.is_private', 'child_private: is_private check dropped'),
])
def priv_required(ctx):
    """child_private raises when the key is not private."""
    q = 'keys:HDKey.child_private'
    fn = ctx.repo.func(q)
    it = _interp(ctx.repo)
    exits = it.run_function(fn, {'index': S(INDEX, 'int'), 'hardened': S(HARD, 'bool')})
    isp = ('attr', SELF, 'is_private')
    ctx.saw('child_private exits: %s' % [e.kind for e in exits])
    for e in exits:
        if e.kind == 'return' and not ((isp, True) in e.pc or (('not', isp), False) in e.pc):
            ctx.violate(q, 'returns a child without having established that the key is private', fn)


@PROP.obligation('C03.hardened-flow', canaries=[
    mut.drop_stmt('keys', 'HDKey.subkey_for_path', 'if hardened:', 'subkey_for_path: public branch ignores hardened marker again', nth=1),
    mut.replace_expr('keys', 'HDKey.subkey_for_path', 'key.child_private(index=index, hardened=hardened, network=network)', 'key.child_private(index=index, network=network)', 'subkey_for_path: hardened not passed to child_private'),
])
def hardened_flow(ctx):
    """HDKey.subkey_for_path: on every branch that derives, the hardened flag parsed from the path level either is
    passed to the derivation call or makes the method raise."""
    q = 'keys:HDKey.subkey_for_path'
    fn = ctx.repo.func(q)
    calls = []

    def rec(kind):
        def h(interp, base, args, kwargs, st, node):
            calls.append((kind, list(st.pc), args, dict(kwargs), node))
            return NotImplemented
        return h
    it = Interp(ctx.repo, 'keys', hooks={'.child_public': rec('public'), '.child_private': rec('private')}, self_cls='keys:HDKey')
    it.run_function(fn, {'path': S(('var', 'path'), 'list')})
    ctx.floor(len(calls), 2, 'derivation calls in subkey_for_path')
    for kind, pc, args, kwargs, node in calls:
        hard_tests = [(t, pol) for (t, pol) in pc if isinstance(t, tuple) and t[0] == 'cmp' and t[1] == 'in' and isinstance(t[3], str) and "'" in t[3]]
        passed = kwargs.get('hardened', args[1] if len(args) > 1 else None)
        ctx.saw('%s derivation at line %d: hardened passed=%s, path condition on marker=%s' % (kind, node.lineno, show(term(passed)) if passed is not None else None, [(show(t)[-40:], p) for t, p in hard_tests]))
        passed_ok = passed is not None and any(isinstance(s, tuple) and s[0] == 'cmp' and s[1] == 'in' and isinstance(s[3], str) and "'" in s[3] for s in subterms(('w', term(passed))))
        marker_atoms = []
        for (t, pol) in pc:
            for s_ in subterms(('w', t)):
                if isinstance(s_, tuple) and s_[0] == 'cmp' and s_[1] == 'in' and isinstance(s_[3], str) and "'" in s_[3] and s_ not in marker_atoms:
                    marker_atoms.append(s_)
        # refused = the path condition of the call is unsatisfiable together with "this level carries a hardened marker"
        refused = bool(marker_atoms) and all(not intv.satisfiable(pc, [(a, True)]) for a in marker_atoms)
        if not passed_ok and not refused:
            ctx.violate(q, '%s derivation call `%s` neither receives the hardened flag nor is restricted to non-hardened levels' % (kind, norm(node)), node,
                        "a level spelled hardened (0') silently yields the non-hardened child")


@PROP.obligation('C03.markers', canaries=[
    mut.const('keys', 'HDKey.subkey_for_path', "'HhPp", "'Hh", 'subkey_for_path: marker alphabet loses p/P'),
    mut.const('wallets', 'normalize_path', "'HhPp", "'HhP", 'normalize_path: marker alphabet loses p'),
])
def markers(ctx):
    """The hardened-marker alphabet (' h H p P) is the same in HDKey.subkey_for_path, keys.path_expand and
    wallets.normalize_path (a marker one parser accepts and another ignores derives a different key)."""
    sets = {}
    for q in ('keys:HDKey.subkey_for_path', 'keys:path_expand', 'wallets:normalize_path'):
        fn = ctx.repo.func(q)
        chars = set()
        loopvars = set(t.id for f in walk_no_nested(fn) if isinstance(f, ast.For) for t in ast.walk(f.target) if isinstance(t, ast.Name))
        for n in walk_no_nested(fn):
            if isinstance(n, ast.Compare) and len(n.ops) == 1 and isinstance(n.left, ast.Subscript) and \
                    isinstance(n.left.value, ast.Name) and n.left.value.id in loopvars:
                sl = n.left.slice
                last = (isinstance(sl, ast.UnaryOp) and isinstance(sl.op, ast.USub)) or (isinstance(sl, ast.Slice) and sl.lower is not None and sl.upper is None)
                if not last:
                    continue
                c = n.comparators[0]
                if isinstance(c, ast.Constant) and isinstance(c.value, str) and isinstance(n.ops[0], (ast.In, ast.Eq)):
                    # only the tests on the *input* level, not on the template
                    if 'template' in unparse(n.left):
                        continue
                    chars |= set(c.value)
        ctx.saw('%s marker alphabet %s' % (q, sorted(chars)))
        if not chars:
            ctx.undecided('%s: marker test not found' % q)
        sets[q] = chars
    ref = set("'HhPp")
    for q, s in sets.items():
        if s != ref:
            ctx.violate(q, 'hardened-marker alphabet is %s, the other path parsers and the documentation use %s' % (''.join(sorted(s)), ''.join(sorted(ref))), ctx.repo.func(q))


@PROP.obligation('C03.cache-keys')
def cache_keys(ctx):
    """Memoisation (BIP32 derivation results): every container that a function both looks up and stores into is found (none exists on the reference tree; a
    fixture self-test keeps the detector honest) and the key that is looked up must carry every parameter - and for containers shared
    between objects every attribute of self - that the cached value depends on through data or control flow."""
    from .common_cache import cache_keys as run
    run(ctx, [('keys', lambda q: q.startswith('HDKey.'))], 'HDKey methods')


@PROP.obligation('C03.arg-binding')
def arg_binding(ctx):
    """Calls inside keys that pass two or more positional arguments: a variable passed positionally must not land on a parameter of another
    name while the callee has a parameter of the variable's own name elsewhere (argument inserted / dropped / swapped)."""
    from .common_argsel import arg_binding as run
    run(ctx, ['keys'], 'a value meant as network / index ends up as the hardened flag (or the reverse): another child key is derived')


@PROP.obligation('C03.fixed-width')
def fixed_width_mods(ctx):
    """Every int.to_bytes of keys.py / encoding.py (child keys, chain codes, fingerprints, indexes) uses a width that does not depend on the value: BIP32 fields are fixed width (32-byte keys, 4-byte indexes)."""
    from .common_width import fixed_width_modules as run
    run(ctx, ['keys', 'encoding'], 'a derived key or index with leading zero bytes is serialised shorter: HMAC input and extended-key layout shift, another child key results', 25)


@PROP.obligation('C03.seed-lengths', canaries=[
    mut.insert_before('keys', 'HDKey.from_seed', 'i = hmac.new', "if len(seed) not in [16, 32, 64]:\n    raise BKeyError('seed length')", 'master key refused for seeds of 17..31 and 33..63 bytes'),
])
def seed_lengths(ctx):
    """HDKey.from_seed produces the BIP32 master key for every seed of 128 to 512 bits: evaluated with the seed symbolic, no raising path
    is decided by the LENGTH of the seed for any length in 16..64 bytes (the only refusal is the one BIP32 prescribes: I_L = 0 or >= n)."""
    q = 'keys:HDKey.from_seed'
    fn = ctx.repo.func(q)
    it = Interp(ctx.repo, 'keys', hooks=LAYOUT_HOOKS)
    try:
        exits = it.run_function(fn, {'import_seed': S(('var', 'seed'), 'bytes')})
    except AnalysisError as e:
        ctx.undecided('from_seed not evaluable: %s' % str(e)[:100])
    n = 0
    for e in exits:
        if e.kind != 'raise':
            continue
        n += 1
        lens = set(s_ for t, pol in e.pc for s_ in subterms(('w', t)) if isinstance(s_, tuple) and s_ and s_[0] == 'len')
        if not lens:
            continue
        for size in (16, 17, 20, 24, 28, 31, 32, 33, 48, 63, 64):
            sub = {l: size for l in lens}
            decided = []
            for t, pol in e.pc:
                try:
                    v = intv.truth_eval(intv.specialise(t, sub), {})
                    decided.append(None if isinstance(v, tuple) else bool(v) == pol)
                except (intv.Unknown, KeyError, TypeError, ZeroDivisionError):
                    decided.append(None)
            if decided and all(d is True for d in decided):
                ctx.violate(q, 'a seed of %d bytes is refused (%s)' % (size, ' and '.join(('' if pol else 'not ') + show(t) for t, pol in e.pc)[:140]), e.node or fn,
                            'BIP32 allows any seed of 128..512 bits: no master key, no derivation for such a seed')
                break
    ctx.saw('from_seed: %d raising path(s), none decided by a seed length in 16..64' % n)
    ctx.floor(len(exits), 2, 'exits of from_seed')


@PROP.obligation('C03.history-free')
def history_free(ctx):
    """The key identifier (hash160 / fingerprint) that child keys record as parent fingerprint is a function of the key alone: no method of
    Key / HDKey fills that memo - or reads one - from state that depends on the arguments of an earlier, unrelated call
    (Key._address_obj holds the address for the compressed flag / prefix asked for last)."""
    from .common_cache import history_reads as run
    run(ctx, 'keys', [['Key', 'HDKey']], 'Key / HDKey',
        'after k.address_uncompressed() the children of k carry a parent fingerprint computed over the uncompressed point: their extended keys are not the BIP32 ones')


@PROP.obligation('C03.index-domain', canaries=[
    mut.insert_before('keys', 'HDKey.child_private', 'if hardened or index >= 2147483648:', "if not 0 <= index < 4294967295:\n    raise BKeyError('index out of range')", 'last child number 2^32-1 refused'),
])
def index_domain(ctx):
    """Every child number 0 .. 2^32-1 can be derived: HDKey.child_private (private parent) and HDKey.child_public (indexes below 2^31),
    evaluated with the index symbolic, have no raising path that is decided by the index alone for the boundary numbers 0, 1, 2^31-1, 2^31,
    2^32-2 and 2^32-1 (the only index-dependent refusal is child_public for hardened numbers)."""
    for name, values, args in (('child_private', (0, 1, 2 ** 31 - 1, 2 ** 31, 2 ** 32 - 2, 2 ** 32 - 1), {'index': S(INDEX, 'int'), 'hardened': False}),
                               ('child_public', (0, 1, 2 ** 31 - 2, 2 ** 31 - 1), {'index': S(INDEX, 'int')})):
        q = 'keys:HDKey.' + name
        fn = ctx.repo.func(q)
        it = _interp(ctx.repo)
        try:
            exits = it.run_function(fn, dict(args))
        except AnalysisError as e:
            ctx.undecided('%s not evaluable: %s' % (q, str(e)[:100]))
        n = 0
        for e in exits:
            if e.kind != 'raise':
                continue
            n += 1
            for v in values:
                decided = []
                for t, pol in e.pc:
                    try:
                        r = intv.truth_eval(intv.specialise(t, {INDEX: v}), {})
                        decided.append(None if isinstance(r, tuple) else bool(r) == pol)
                    except (intv.Unknown, KeyError, TypeError, ZeroDivisionError):
                        decided.append(None)
                # only conjuncts about the index count; the others (is_private, result of the HMAC) are the caller's / the data's business
                about_index = [d for (t, pol), d in zip(e.pc, decided) if any(s_ == INDEX for s_ in subterms(('w', t)))]
                if about_index and all(d is True for d in about_index) and not any(d is False for d in decided):
                    others = [show(t)[:50] for (t, pol), d in zip(e.pc, decided) if d is None]
                    if others and not all('is_private' in o for o in others):
                        continue
                    ctx.violate(q, 'child number %d is refused (%s)' % (v, ' and '.join(('' if pol else 'not ') + show(t) for t, pol in e.pc)[:140]), e.node or fn,
                                "m/0/4294967295 (= 2147483647', the last child number, which BIP32 test vector 2 passes through) cannot be derived")
                    break
        ctx.saw('%s: %d raising path(s), none decided by a child number of its domain' % (name, n))


_DEPTH_FIXTURE = """
def bad(depth):
    if not 0 <= depth < 0xff:
        raise ValueError('depth')

def good(depth):
    if not 0 <= depth <= 255:
        raise ValueError('depth')
    if depth > 255:
        raise ValueError('depth')

def unrelated(depth, key):
    if not key:
        raise ValueError('key')

def mixed(depth, child_index):
    if not 0 <= depth < 0xff or not 0 <= child_index <= 0xffffffff:
        raise ValueError('depth or index')

def mixed_good(depth, child_index):
    if not 0 <= depth <= 0xff or not 0 <= child_index <= 0xffffffff:
        raise ValueError('depth or index')
    if depth == 255 and child_index:
        raise ValueError('both')
"""


def _depth_refusals(fn, names=('depth', 'self.depth')):
    """[(If node, refused value)] for raises guarded by a test that reads only the depth and is true for a depth of 0..255"""
    out = []
    for n in ast.walk(fn):
        if not (isinstance(n, ast.If) and any(isinstance(x, ast.Raise) for x in n.body)):
            continue
        def disjuncts(t):
            if isinstance(t, ast.BoolOp) and isinstance(t.op, ast.Or):
                return [d for v_ in t.values for d in disjuncts(v_)]
            return [t]
        hit = False
        for test in disjuncts(n.test):           # any disjunct that is true raises, whatever the other ones read
            free = set(norm(x) for x in ast.walk(test) if isinstance(x, ast.Name) and x.id != 'self') | set(norm(x) for x in ast.walk(test) if isinstance(x, ast.Attribute))
            free = set(f for f in free if f not in ('self',))
            if not free or not free <= set(names):
                continue
            for v in (0, 1, 254, 255):
                src = norm(test)
                try:
                    r = eval(compile(ast.Expression(ast.parse(src.replace('self.depth', 'depth'), mode='eval').body), '<depth>', 'eval'), {'__builtins__': {}}, {'depth': v})
                except Exception:
                    r = None
                if r:
                    out.append((n, v))
                    hit = True
                    break
            if hit:
                break
    return out


@PROP.obligation('C03.depth-domain', canaries=[
    mut.insert_before('keys', 'HDKey.__init__', 'if witness_type is None:', "if not 0 <= depth < 0xff:\n    raise BKeyError('Invalid depth')", 'depth 255 refused'),
])
def depth_domain(ctx):
    """The depth of an extended key is one byte: 0 .. 255 are all valid (a 255-level path is derivable and its keys import). No raise of
    HDKey.__init__ / child_private / child_public / subkey_for_path is decided by the depth alone for a depth of 0, 1, 254 or 255."""
    res = {f.name: [v for _, v in _depth_refusals(f)] for f in ast.parse(_DEPTH_FIXTURE).body}
    if res != {'bad': [255], 'good': [], 'unrelated': [], 'mixed': [255], 'mixed_good': []}:
        raise AnalysisError('depth-domain fixture classified %s' % res)
    ctx.saw('depth-domain self-test on the embedded fixture: %s' % res)
    n = 0
    for name in ('__init__', 'child_private', 'child_public', 'subkey_for_path', 'wif', 'from_seed'):
        q = 'keys:HDKey.' + name
        try:
            fn = ctx.repo.func(q)
        except Exception:
            ctx.undecided('%s vanished' % q)
        n += 1
        for node, v in _depth_refusals(fn):
            ctx.violate(q, 'an extended key of depth %d is refused (`%s`)' % (v, norm(node.test)[:60]), node,
                        'a key at depth 254 cannot produce its children and a valid depth-255 xprv / xpub cannot be imported: the path stops one level short of what BIP32 serialises')
    ctx.floor(n, 6, 'HDKey methods')


@PROP.obligation('C03.public-master-derives', canaries=[
    mut.insert_before('keys', 'HDKey.public_master', 'pm_depth = ', 'if not self.is_private:\n    return self', 'a public-only key answers the account-key request with itself'),
    mut.replace_expr('keys', 'HDKey.public_master', 'self.subkey_for_path(path).public()', 'self.public()', 'the account key is the key itself'),
])
def public_master_derives(ctx):
    """HDKey.public_master / public_master_multisig answer "the key at m/purpose'/coin'/account'": three hardened levels below the key. For
    a private key and for a public-only key, every way out is the result of self.subkey_for_path(<expanded path>) (optionally .public()),
    which derives the levels or refuses hardened levels on a public key - never self or another key that skips the derivation."""
    from ..core import AnalysisError as AE
    n = 0
    for meth in ('public_master', 'public_master_multisig'):
        q = ctx.repo.resolve_method('keys:HDKey', meth)
        if q is None:
            ctx.undecided('HDKey.%s vanished' % meth)
        fn = ctx.repo.func(q)
        for priv in (True, False):
            for ms, wt, asp in ((False, None, False), (True, None, False), (False, 'segwit', True), (True, 'p2sh-segwit', False)):
                def attr_hook(interp, base, name, st, priv=priv):
                    if term(base) == SELF:
                        if name == 'is_private':
                            return priv
                        if name == 'key_type':
                            return 'bip32'
                    return NotImplemented
                hooks = {'get_key_structure_data': lambda it, a, kw, st, node: (["m", "purpose'", "coin_type'", "account'", 'change', 'address_index'], 44, 'base58'),
                         'path_expand': lambda it, a, kw, st, node: S(('var', 'path'), 'list')}
                it = Interp(ctx.repo, 'keys', hooks=hooks, self_cls='keys:HDKey', attr_hook=attr_hook, inline=['self.public_master'])
                args = {'self': S(SELF), 'account_id': 0, 'purpose': None, 'witness_type': wt, 'as_private': asp}
                if meth == 'public_master':
                    args['multisig'] = ms
                try:
                    exits = it.run_function(fn, args)
                except AE as e:
                    ctx.undecided('HDKey.%s on a %s key not evaluable: %s' % (meth, 'private' if priv else 'public-only', str(e)[:100]))
                n += 1
                rets = [e for e in exits if e.kind == 'return']
                for e in rets:
                    v = term(e.value)
                    derived = any(isinstance(s_, tuple) and len(s_) >= 4 and s_[0] == 'mcall' and s_[1] == SELF and s_[2] == 'subkey_for_path' and s_[3] and s_[3][0] == ('var', 'path')
                                  for s_ in subterms(('w', v)))
                    if not derived:
                        ctx.violate(q, 'on a %s key, %s(multisig=%s, witness_type=%r) returns `%s`, which is not derived with self.subkey_for_path(<expanded path>)' % (
                            'private' if priv else 'public-only', meth, ms, wt, show(v)[:60]), e.node or fn,
                            "xpub.public_master() hands back the parent itself (depth 0) as the key at m/44'/0'/0': a wallet built on it derives every address from the wrong level")
                ctx.saw('%s on a %s key, multisig=%s, witness_type=%s -> %s' % (meth, 'private' if priv else 'public-only', ms, wt, sorted(set('%s %s' % (e.kind, show(term(e.value))[:50]) for e in exits))))
    ctx.floor(n, 16, 'public-master scenarios')


@PROP.obligation('C03.public-master-account', canaries=[
    mut.replace_expr('keys', 'HDKey.public_master_multisig', 'self.public_master(account_id, purpose, True, witness_type, as_private)', 'self.public_master(purpose=purpose, multisig=True, witness_type=witness_type, as_private=as_private)', 'the multisig wrapper always exports account 0'),
    mut.Canary('the account key is always the one of account 0', 'keys', lambda tree: _const_account(tree)),
])
def public_master_account(ctx):
    """HDKey.public_master(account_id=N) / public_master_multisig(account_id=N) export the key at m/purpose'/coin'/N'. Both are evaluated
    for account 3 (and 0): the path they derive is expanded with account_id = 3 - the wrapper hands its argument on. An export that is
    always account 0 gives a multisig wallet for account 3 whose own key is on .../3'/... and whose cosigner keys are on .../0'/...:
    none of its addresses is what the cosigners' master keys give for that path."""
    n = 0
    for meth in ('public_master', 'public_master_multisig'):
        q = ctx.repo.resolve_method('keys:HDKey', meth)
        if q is None:
            ctx.undecided('HDKey.%s vanished' % meth)
        fn = ctx.repo.func(q)
        for account, wt_req in ((3, None), (0, None), (3, 'p2sh-segwit')):
            seen = []

            def h_expand(it, a, kw, st, node):
                seen.append(dict(kw))
                return S(('var', 'path'), 'list')

            def attr_hook(interp, base, name, st):
                if term(base) == SELF and name == 'is_private':
                    return True
                return NotImplemented
            hooks = {'get_key_structure_data': lambda it, a, kw, st, node: (["m", "purpose'", "coin_type'", "account'", 'change', 'address_index'], 44, 'base58'), 'path_expand': h_expand}
            it = Interp(ctx.repo, 'keys', hooks=hooks, self_cls='keys:HDKey', attr_hook=attr_hook, inline=['self.public_master'])
            try:
                it.run_function(fn, {'self': S(SELF), 'account_id': account, 'purpose': None, 'witness_type': wt_req, 'as_private': False})
            except AnalysisError as e:
                ctx.undecided('HDKey.%s(account_id=%d) not evaluable: %s' % (meth, account, str(e)[:100]))
            if not seen:
                ctx.undecided('HDKey.%s: the path is not expanded with path_expand' % meth)
            for kw in seen:
                n += 1
                wt_got = kw.get('witness_type')
                wt_got = wt_got if not isinstance(wt_got, S) else term(wt_got)
                ctx.require(wt_req is None or wt_got == wt_req, q, '%s(witness_type=%r) expands the path for witness type %s' % (meth, wt_req, show(wt_got) if isinstance(wt_got, tuple) else wt_got), fn,
                            "public_master_multisig(witness_type='p2sh-segwit') on a key whose own witness type is segwit exports the key at m/48'/coin'/0'/2' instead of .../1': the cosigner wallets build different scripts for the same path")
                got = kw.get('account_id')
                got = got if not isinstance(got, S) else show(term(got))
                ctx.saw('%s(account_id=%d) expands the path with account_id=%s' % (meth, account, got))
                ctx.require(got == account, q, '%s(account_id=%d) derives the key of account %s' % (meth, account, got), fn,
                            "a cosigner exports public_master_multisig(account_id=3) and hands over the key of account 0: the multisig wallet built on it pays to scripts the cosigners' seeds do not give for m/48'/0'/3'/2'/...")
    ctx.floor(n, 6, 'account scenarios')


def _const_account(tree):
    for cls in tree.body:
        if isinstance(cls, ast.ClassDef) and cls.name == 'HDKey':
            for f in cls.body:
                if isinstance(f, ast.FunctionDef) and f.name == 'public_master':
                    for c in ast.walk(f):
                        if isinstance(c, ast.Call) and norm(c.func) == 'path_expand':
                            for k in c.keywords:
                                if k.arg == 'account_id':
                                    k.value = ast.Constant(0)
                                    return True
    return False


@PROP.obligation('C03.prefix-is-relative', canaries=[
    mut.replace_expr('keys', 'HDKey.subkey_for_path', 'path[1:]', 'path[self.depth + 1:]', 'an m / M prefix makes the path absolute from the master: levels are dropped on a deeper key', nth=0),
])
def prefix_is_relative(ctx):
    """subkey_for_path derives "along any path" from the key it is called on: a leading m / M only says private / public, every level
    after it is derived. The method is evaluated on a PRIVATE key of depth 3 (an account key) and on a master key for the paths
    m/1/2', ['m', '5'], 1/2' and M/7: the derivation calls made are exactly one per level, in order, with the hardened flag of the level.
    Skipping depth+1 elements turns account_key.subkey_for_path("m/1/2'") into m/.../2' or the key itself - another key, no error."""
    q = 'keys:HDKey.subkey_for_path'
    fn = ctx.repo.func(q)
    n = 0
    for depth in (3, 0):
        for path, want in (("m/1/2'", [('private', 1, False), ('private', 2, True)]), (['m', '5'], [('private', 5, False)]), ("1/2'", [('private', 1, False), ('private', 2, True)]),
                           ('M/7', [('public*', 7, False)]), ("m/0'/1/2", [('private', 0, True), ('private', 1, False), ('private', 2, False)])):
            calls = []

            def rec(kind):
                def h(interp, base, args, kwargs, st, node, kind=kind):
                    idx = kwargs.get('index', args[0] if args else None)
                    hard = kwargs.get('hardened', args[1] if len(args) > 1 else False)
                    calls.append((kind, idx if not isinstance(idx, S) else show(term(idx)), hard if not isinstance(hard, S) else show(term(hard))))
                    return S(('derived', len(calls)))
                return h

            def attr_hook(interp, base, name, st, depth=depth):
                if name == 'is_private':
                    return True
                if name == 'depth' and term(base) == SELF:
                    return depth
                if name == 'network':
                    return S(('var', 'network_obj'))
                return NotImplemented
            hooks = {'.child_public': rec('public'), '.child_private': rec('private'), '.public': lambda it_, b, a, kw, st, node: (calls.append(('to-public', None, None)), S(('pub', term(b) if isinstance(b, S) else b)))[1],
                     'deepcopy': lambda it_, a, kw, st, node: a[0]}
            it = Interp(ctx.repo, 'keys', hooks=hooks, self_cls='keys:HDKey', attr_hook=attr_hook)
            st = State()
            st.heap[('attr', SELF, '_memo_subkeys')] = {}
            try:
                it.run_function(fn, {'self': S(SELF), 'path': list(path) if isinstance(path, list) else path, 'network': None}, st=st)
            except AnalysisError as e:
                ctx.undecided('subkey_for_path(%r) on a key of depth %d not evaluable: %s' % (path, depth, str(e)[:100]))
            derive = [c for c in calls if c[0] in ('private', 'public')]
            n += 1
            ctx.saw('depth %d, path %r -> %s' % (depth, path, calls))
            exp = [(k.rstrip('*'), i, h) for k, i, h in want]
            ok = len(derive) == len(exp) and all(d[1] == e[1] and bool(d[2]) == e[2] and (e[0] == d[0] or want[0][0].endswith('*')) for d, e in zip(derive, exp))
            ctx.require(ok, q, 'on a key of depth %d, subkey_for_path(%r) derives %s, expected one step per level: %s' % (depth, path, [(d[1], d[2]) for d in derive], [(e[1], e[2]) for e in exp]), fn,
                        'account_key.subkey_for_path(<m/1/2h>) silently drops the first levels of the path: the result has the wrong depth, child number and key, no error is raised')
    ctx.floor(n, 10, 'path scenarios')


@PROP.obligation('C03.path-argument-untouched', canaries=[
    mut.replace_stmt('keys', 'HDKey.subkey_for_path', 'path = path[1:]', 'path.pop(0)', 'the master marker is popped out of the caller\'s list', nth=0),
])
def path_argument_untouched(ctx):
    """subkey_for_path accepts its path as a list as well as text. A list is the CALLER's object: the method never changes it in place (pop /
    remove / insert / del / item assignment on `path`) unless it has first replaced it by a copy on every path. Popping the 'M' marker
    out of the caller's list makes a second call with the same list - a retry, a loop over several keys - a relative PRIVATE derivation:
    ['M', "0'"] on a private key raises the first time and returns the hardened private child the second time."""
    q = 'keys:HDKey.subkey_for_path'
    fn = ctx.repo.func(q)
    copies = [a for a in fn.body if isinstance(a, ast.Assign) and any(isinstance(t, ast.Name) and t.id == 'path' for t in a.targets) and
              ((isinstance(a.value, ast.Call) and norm(a.value.func) in ('list', 'copy.copy', 'copy.deepcopy', 'deepcopy')) or
               (isinstance(a.value, ast.Subscript) and isinstance(a.value.slice, ast.Slice) and norm(a.value.value) == 'path' and a.value.slice.lower is None and a.value.slice.upper is None))]
    first_copy = min((a.lineno for a in copies), default=None)
    n = 0
    for x in ast.walk(fn):
        bad = None
        if isinstance(x, ast.Call) and isinstance(x.func, ast.Attribute) and norm(x.func.value) == 'path' and x.func.attr in ('pop', 'remove', 'insert', 'append', 'extend', 'clear', 'sort', 'reverse'):
            bad = norm(x)
        elif isinstance(x, ast.Delete) and any(isinstance(t, ast.Subscript) and norm(t.value) == 'path' for t in x.targets):
            bad = norm(x)
        elif isinstance(x, (ast.Assign, ast.AugAssign)) and any(isinstance(t, ast.Subscript) and norm(t.value) == 'path' for t in (x.targets if isinstance(x, ast.Assign) else [x.target])):
            bad = norm(x)
        if bad is None:
            continue
        n += 1
        ctx.require(first_copy is not None and first_copy < x.lineno, q, '`%s` changes the path list the caller passed in' % bad[:50], x,
                    'p = [M, 0h]; k.subkey_for_path(p) raises as it must; the same call again returns the private hardened child: the marker is gone from the list of the caller')
    ctx.saw('%d in-place changes of `path` in subkey_for_path; copies of the argument at the top level: %d' % (n, len(copies)))
