"""Shared obligation: serialisers compute from the current fields, not from a stored serialisation."""
import ast

STORED_SERIALISATIONS = {'transactions:Transaction': ('rawtx', ('raw', 'raw_hex', 'as_bytes', 'as_hex')),
                         'scripts:Script': ('_raw', ('serialize', 'serialize_list'))}


def serialisers_fresh(ctx):
    """The serialisers - Transaction.raw / raw_hex / as_bytes / as_hex and Script.serialize / serialize_list - compute their answer from the
    current fields: none of them reads the serialisation stored on the object (Transaction.rawtx is filled by the parsers, the block
    readers, the wallet import and the providers; Script._raw by parse and by `+`). Nothing invalidates those stores when inputs,
    outputs, locktime or commands change, so an accessor that answers from them returns the bytes of an earlier state."""
    n = 0
    for cq, (attr, methods) in STORED_SERIALISATIONS.items():
        for mname in methods:
            q = ctx.repo.resolve_method(cq, mname)
            if q is None:
                ctx.undecided('%s.%s vanished' % (cq, mname))
            fn = ctx.repo.func(q)
            n += 1
            reads = [a for a in ast.walk(fn) if isinstance(a, ast.Attribute) and isinstance(a.value, ast.Name) and a.value.id == 'self' and a.attr == attr and isinstance(a.ctx, ast.Load)]
            if reads:
                ctx.violate(q, 'the serialiser reads the stored serialisation self.%s' % attr, reads[0],
                            'parse a transaction / script, change it through the API (add_output, sign, set_locktime, append a command), serialise: the bytes of the state before the change come back')
    ctx.saw('%d serialisers of Transaction and Script compute from the current fields (no read of rawtx / _raw)' % n)
