"""C07 Wallet-created transactions conserve value — guards, provenance and query shape."""
import ast

from ..core import Property, AnalysisError, unparse, norm, walk_no_nested, fold, NotConst
from ..cfg import build_cfg
from ..sym import Interp, S, term, show, State
from ..dfa import guards_of, ReachingDefs
from ..query import resolved_filters, queries_in, parse_chain
from .. import mut

PROP = Property(
    'C07', 'Wallet transaction creation: conservation / fee / non-negativity guards dominate the result, selection and change provenance',
    'Static: in Wallet.transaction_create every path to `return transaction` passes the raising guards input_total == fee + '
    'output_total (totals recomputed from the final input/output lists), fee >= 0, change >= 0 and fee_min <= fee_per_kb <= fee_max; '
    'an empty coin selection raises; select_inputs returns a selection only when it covers the amount (the guard is evaluated at '
    'the boundary) and its query filters unconditionally on unspent / wallet / network / account / confirmations; each requested '
    'recipient is added once with value_to_satoshi(amount) and change=False, change outputs go to keys obtained with change=1; '
    'explicit inputs keep their outpoint index; sweep balances; bumpfee only reduces change outputs and never reuses an input. '
    'Exact fee rates and behaviour under concurrent spends are NOT decided.',
    ['SQLAlchemy filter()/is_() semantics', 'Transaction.add_output / add_input append exactly one element'])

W = 'wallets'


def _ret_nodes(g, text):
    return [n for n in g.nodes if n.kind == 'return' and n.ast.value is not None and norm(n.ast.value) == text]


def _raise_guard(g, ret_id, needle, pol_needed):
    """is ret_id only reachable through polarity `pol_needed` of a test whose text contains needle, the other edge leading to a raise?"""
    for t, pol in guards_of(g, ret_id):
        if needle in norm(g[t].ast) and pol == pol_needed:
            other = 'T' if pol_needed == 'F' else 'F'
            succ = [s for s, l in g[t].succ if l == other]
            if succ and all(_leads_to_raise(g, s) for s in succ):
                return True
    return False


def _leads_to_raise(g, nid):
    seen = g.reach([nid])
    return g.exit_return not in seen or all(g[i].kind != 'return' for i in seen) and any(g[i].kind == 'raise' for i in seen) and not any(g[i].kind == 'return' for i in seen)


@PROP.obligation('C07.conserve', canaries=[
    mut.drop_stmt(W, 'Wallet.transaction_create', 'if transaction.input_total != transaction.fee + transaction.output_total', 'conservation check removed'),
    mut.replace_expr(W, 'Wallet.transaction_create', 'sum([o.value for o in transaction.outputs])', 'amount_total_output', 'output total taken from the request, not from the final outputs'),
    mut.cmpop(W, 'Wallet.transaction_create', 'transaction.input_total != transaction.fee + transaction.output_total', ast.Lt, 'conservation check weakened to <'),
])
def conserve(ctx):
    """Every path to `return transaction` passes the raise on input_total != fee + output_total, where both totals are recomputed from
    transaction.inputs / transaction.outputs after the last add_input / add_output / shuffle."""
    q = W + ':Wallet.transaction_create'
    fn = ctx.repo.func(q)
    g = build_cfg(fn)
    rets = _ret_nodes(g, 'transaction')
    ctx.floor(len(rets), 1, '`return transaction` statements')
    for r in rets:
        ok = _raise_guard(g, r.id, 'transaction.input_total != transaction.fee + transaction.output_total', 'F')
        ctx.saw('return transaction at line %d guarded by the conservation raise: %s' % (r.ast.lineno, ok))
        ctx.require(ok, q, '`return transaction` is reachable without passing the raise on input_total != fee + output_total', r.ast,
                    'a transaction whose inputs do not equal outputs plus the reported fee is handed out')
    tot = {}
    for n in g.nodes:
        if n.kind == 'stmt' and isinstance(n.ast, ast.Assign):
            t = unparse(n.ast.targets[0])
            if t in ('transaction.input_total', 'transaction.output_total'):
                tot[t] = n
    for name, want in (('transaction.input_total', 'sum([i.value for i in transaction.inputs])'), ('transaction.output_total', 'sum([o.value for o in transaction.outputs])')):
        if name not in tot:
            ctx.violate(q, '%s is not recomputed before the conservation check' % name, fn)
            continue
        v = norm(tot[name].ast.value)
        ctx.saw('%s = %s' % (name, v))
        ctx.require(v == want, q, '%s is computed as `%s`, expected `%s`' % (name, v, want), tot[name].ast, 'the check compares requested instead of actual amounts')
        # no mutation of the lists after the recomputation
        seen = g.reach([tot[name].id])
        muts = [g[i] for i in seen if i != tot[name].id and g[i].ast is not None and g[i].kind == 'stmt' and
                any(x in unparse(g[i].ast) for x in ('.add_output(', '.add_input(', '.outputs.append', '.inputs.append', '.outputs.remove', 'transaction.shuffle'))]
        ctx.require(not muts, q, 'inputs/outputs are modified after %s was computed (%s)' % (name, norm(muts[0].ast)[:80] if muts else ''), tot[name].ast)


@PROP.obligation('C07.guards', canaries=[
    mut.replace_expr(W, 'Wallet.transaction_create', 'transaction.change < 0 or transaction.fee < 0', 'transaction.change < 0', 'negative fee accepted again'),
    mut.drop_stmt(W, 'Wallet.transaction_create', 'if transaction.fee_per_kb < transaction.network.fee_min', 'fee rate limits not enforced', nth=1),
    mut.drop_stmt(W, 'Wallet.transaction_create', 'if not selected_utxos', 'empty selection accepted'),
])
def guards(ctx):
    """`return transaction` is reachable only when transaction.change < 0 and transaction.fee < 0 were both false (raise otherwise), and
    fee_per_kb < fee_min / > fee_max were both false (raise otherwise); an empty automatic selection raises."""
    q = W + ':Wallet.transaction_create'
    fn = ctx.repo.func(q)
    g = build_cfg(fn)
    for r in _ret_nodes(g, 'transaction'):
        for needle, what in (('transaction.change < 0', 'negative change'), ('transaction.fee < 0', 'negative fee'),
                             ('transaction.fee_per_kb < transaction.network.fee_min', 'fee rate below the network minimum'),
                             ('transaction.fee_per_kb > transaction.network.fee_max', 'fee rate above the network maximum')):
            ok = _raise_guard(g, r.id, needle, 'F')
            ctx.saw('guard `%s` dominates the result: %s' % (needle, ok))
            ctx.require(ok, q, 'a transaction with %s can be returned (no raising guard `%s` on every path)' % (what, needle), r.ast,
                        'the wallet hands out a transaction violating that limit')
    sel = [n for n in g.nodes if n.kind == 'stmt' and isinstance(n.ast, ast.Assign) and unparse(n.ast.targets[0]) == 'selected_utxos']
    if len(sel) != 1:
        ctx.undecided('automatic selection call not found')
    adds = [n.id for n in g.nodes if n.ast is not None and n.kind == 'stmt' and 'transaction.add_input(utxo.transaction.txid' in unparse(n.ast)]
    tests = [n for n in g.nodes if n.kind == 'test' and norm(n.ast) == 'selected_utxos']
    ok = bool(tests) and all(_leads_to_raise(g, s) for t in tests for s, l in t.succ if l == 'F')
    ctx.saw('empty selection raises: %s' % ok)
    ctx.require(ok, q, 'an empty coin selection does not raise', sel[0].ast, 'a transaction without inputs is built when funds are insufficient')


def _eval_guard(expr, env):
    try:
        return bool(fold(expr, env))
    except NotConst:
        return None


@PROP.obligation('C07.selection', canaries=[
    mut.replace_expr(W, 'Wallet.select_inputs', 'total_amount < amount', 'total_amount < amount - variance', 'selection may fall short by the variance', nth=1),
    mut.replace_expr(W, 'Wallet.select_inputs', 'DbTransactionOutput.spent.is_(False)', 'DbTransactionOutput.spent.isnot(None)', 'spent outputs selectable', nth=0),
    mut.replace_expr(W, 'Wallet.select_inputs', 'DbTransaction.confirmations >= min_confirms', 'DbTransaction.confirmations >= 0', 'unconfirmed outputs selectable'),
    mut.replace_expr(W, 'Wallet.select_inputs', 'DbTransactionOutput.value >= amount', 'DbTransactionOutput.value >= amount - variance', 'single utxo slightly too small accepted', nth=0),
])
def selection(ctx):
    """select_inputs: the base query filters unconditionally on spent IS False, wallet_id, account_id, network_name and confirmations >=
    min_confirms; a single UTXO is accepted only with value >= amount; the multi-UTXO branch returns [] exactly when the accumulated
    total is below the amount (guard evaluated around the boundary)."""
    q = W + ':Wallet.select_inputs'
    fn = ctx.repo.func(q)
    models, uncond, cond = resolved_filters(fn, 'utxo_query')
    ctx.saw('base query models %s' % models)
    ctx.saw('unconditional filters: %s' % uncond)
    need = {'DbTransactionOutput.spent.is_(False)': 'already spent outputs are selected again',
            'DbTransaction.wallet_id == self.wallet_id': 'outputs of other wallets in the same database are selected',
            'DbTransaction.account_id == account_id': 'outputs of another account are spent',
            'DbTransaction.network_name == network': 'outputs of another network are selected',
            'DbTransaction.confirmations >= min_confirms': 'outputs with fewer confirmations than required are spent'}
    for pred, why in need.items():
        ctx.require(pred in uncond, q, 'the coin selection query does not filter unconditionally on `%s`' % pred, fn, why)
    # single-utxo queries
    singles = [qs for qs in queries_in(fn) if qs.base_name == 'utxo_query' and qs.terminal == 'first']
    ctx.saw('single-UTXO queries: %s' % [qs.filters for qs in singles])
    for qs in singles:
        lows = [f for f in qs.filters if f.startswith('DbTransactionOutput.value >=')]
        ctx.require(lows == ['DbTransactionOutput.value >= amount'], q, 'a single UTXO is accepted with `%s`, expected value >= amount' % lows, qs.node,
                    'a UTXO smaller than the requested amount is selected and the shortfall is folded into the fee')
    # shortfall guard of the multi-utxo branch
    rets = []
    for n in walk_no_nested(fn):
        if isinstance(n, ast.If) and any(isinstance(s, ast.Return) and isinstance(s.value, ast.List) and not s.value.elts for s in n.body) and 'total_amount' in unparse(n.test):
            rets.append(n)
    if len(rets) != 1:
        ctx.undecided('select_inputs: shortfall guard of the multi-UTXO branch not found')
    test = rets[0].test
    bad = []
    for variance in (0, 1000):
        for amount in (10000,):
            for total in (amount - variance - 1, amount - variance, amount - 1, amount, amount + 1):
                v = _eval_guard(test, {'total_amount': total, 'amount': amount, 'variance': variance, 'dust_amount': variance})
                if v is None:
                    ctx.undecided('select_inputs: shortfall guard `%s` not evaluable' % norm(test))
                if v != (total < amount):
                    bad.append((total, amount, variance, v))
    ctx.saw('shortfall guard `%s`: %s' % (norm(test), 'exact' if not bad else bad[:3]))
    if bad:
        t, a, var, v = bad[0]
        ctx.violate(q, 'with total %d, amount %d (variance %d) the guard `%s` is %s: a selection that does not cover the amount is returned' % (t, a, var, norm(test), v), rets[0],
                    'insufficient funds yield a transaction (the shortfall is folded into the fee) instead of an error')


@PROP.obligation('C07.recipients', canaries=[
    mut.replace_expr(W, 'Wallet.transaction_create', 'transaction.add_output(value, addr, change=False)', 'transaction.add_output(value, addr, change=True)', 'recipient outputs marked as change'),
    mut.replace_expr(W, 'Wallet.transaction_create', 'value_to_satoshi(o[1], network=transaction.network)', 'int(o[1])', 'amount strings no longer converted'),
    mut.replace_expr(W, 'Wallet.transaction_create', 'self.get_keys(account_id, self.witness_type, network, change=1, number_of_keys=number_of_change_outputs)', 'self.get_keys(account_id, self.witness_type, network, change=0, number_of_keys=number_of_change_outputs)', 'change sent to receiving chain keys'),
])
def recipients(ctx):
    """One output per element of the request list: Output objects are appended unchanged, (address, amount) pairs go through
    add_output(value_to_satoshi(amount), address, change=False); every add_output(..., change=True) takes its address from a key
    obtained with self.get_key(..., change=1) / self.get_keys(..., change=1, ...)."""
    q = W + ':Wallet.transaction_create'
    fn = ctx.repo.func(q)
    loops = [n for n in walk_no_nested(fn) if isinstance(n, ast.For) and unparse(n.iter) == 'output_arr']
    if len(loops) != 1:
        ctx.undecided('loop over output_arr not found')
    lp = loops[0]
    o = unparse(lp.target)
    adds = [c for c in ast.walk(lp) if isinstance(c, ast.Call) and unparse(c.func) == 'transaction.add_output']
    apps = [c for c in ast.walk(lp) if isinstance(c, ast.Call) and unparse(c.func) == 'transaction.outputs.append']
    ctx.saw('per recipient: %s' % [norm(c) for c in adds + apps])
    ctx.require(len(adds) == 1 and len(apps) == 1, q, 'a request element is turned into %d add_output / %d append calls, expected exactly one of each kind' % (len(adds), len(apps)), lp)
    rd = ReachingDefs(fn)
    for c in adds:
        nid = rd.node_of_ast(c)
        lv = rd.leaves(c.args[0], nid)
        ok_v = any(x == ('call', 'value_to_satoshi') for x in lv)
        ctx.require(ok_v, q, 'recipient amount `%s` does not come from value_to_satoshi(%s[1])' % (unparse(c.args[0]), o), c, 'amounts given as strings / Values are misread')
        vs = [d for d in rd.reaching(nid, unparse(c.args[0])) if d.value is not None]
        ctx.require(all('%s[1]' % o in unparse(d.value) for d in vs) and bool(vs), q, 'recipient amount is not taken from %s[1]' % o, c)
        kw = {k.arg: k.value for k in c.keywords}
        ctx.require(isinstance(kw.get('change'), ast.Constant) and kw['change'].value is False, q, 'recipient output is added with change=%s' % (unparse(kw['change']) if 'change' in kw else 'default'), c,
                    'a fee bump would reduce the recipient amount')
        la = rd.leaves(c.args[1], nid)
        ctx.require(any(x[0] == 'for' and 'output_arr' in x[1] for x in la) or '%s[0]' % o in ''.join(unparse(d.value) for d in rd.reaching(nid, unparse(c.args[1])) if d.value is not None), q,
                    'recipient address `%s` does not derive from %s[0]' % (unparse(c.args[1]), o), c)
    for c in apps:
        ctx.require(unparse(c.args[0]) == o, q, 'pre-built Output is appended as `%s`' % unparse(c.args[0]), c)
    # change outputs
    chg = [c for c in ast.walk(fn) if isinstance(c, ast.Call) and unparse(c.func) == 'transaction.add_output' and any(k.arg == 'change' and isinstance(k.value, ast.Constant) and k.value.value is True for k in c.keywords)]
    ctx.floor(len(chg), 1, 'change output sites')
    for c in chg:
        nid = rd.node_of_ast(c)
        la = rd.leaves(c.args[1], nid)
        srcs = sorted(x for x in la if x[0] in ('call', 'for'))
        ctx.saw('change address %s <- %s' % (unparse(c.args[1]), srcs))
        keycalls = [k for k in ast.walk(fn) if isinstance(k, ast.Call) and unparse(k.func) in ('self.get_key', 'self.get_keys')]
        in_change = [k for k in keycalls if any(kw.arg == 'change' for kw in k.keywords)]
        ok = bool(in_change) and all(any(kw.arg == 'change' and isinstance(kw.value, ast.Constant) and kw.value.value == 1 for kw in k.keywords) for k in in_change)
        ok = ok and any(x == ('for', 'enumerate(change_keys)') or x[0] == 'call' and x[1] in ('self.get_key', 'self.get_keys') for x in la)
        ctx.require(ok, q, 'change address `%s` does not come from self.get_key / self.get_keys with change=1' % unparse(c.args[1]), c,
                    'change is paid to an address that is not a change address of this wallet')


@PROP.obligation('C07.explicit-inputs', canaries=[
    mut.replace_expr(W, 'Wallet.transaction_create', "int.from_bytes(output_n, 'big')", "int.from_bytes(output_n, 'little')", 'outpoint index of an Input object byte-swapped'),
    mut.replace_stmt(W, 'Wallet.transaction_create', 'value = inp_utxo.value', 'if not value:\n    value = inp_utxo.value', 'caller-supplied amount trusted over the stored output'),
    mut.replace_expr(W, 'Wallet.transaction_create', 'self.session.query(DbKey.id).filter(DbKey.wallet_id == self.wallet_id, DbKey.address == address)', 'self.session.query(DbKey.id).filter_by(address=address)', 'key of an explicit input looked up across all wallets of the database'),
])
def explicit_inputs(ctx):
    """Explicit inputs: the outpoint index of an Input object (stored 4 bytes big-endian) is converted with 'big'; the value added to
    amount_total_input is the value passed to add_input; wallet look-ups of explicit inputs are scoped to this wallet."""
    q = W + ':Wallet.transaction_create'
    fn = ctx.repo.func(q)
    convs = [c for c in ast.walk(fn) if isinstance(c, ast.Call) and unparse(c.func) == 'int.from_bytes' and c.args and unparse(c.args[0]) == 'output_n']
    ctx.saw('output_n conversions: %s' % [norm(c) for c in convs])
    ctx.floor(len(convs), 1, 'conversions of output_n')
    for c in convs:
        order = c.args[1].value if len(c.args) > 1 and isinstance(c.args[1], ast.Constant) else None
        ctx.require(order == 'big', q, 'Input.output_n (stored big-endian) is converted with byteorder %r' % order, c,
                    'every index other than 0 is byte-swapped: the transaction spends an outpoint the caller did not name')
    qs = [x for x in queries_in(fn) if 'DbTransactionOutput' in x.models]
    for x in qs:
        ctx.saw('explicit-input lookup filters: %s' % x.filters)
        ctx.require('DbTransaction.wallet_id == self.wallet_id' in x.filters, q, 'explicit-input lookup is not scoped to this wallet', x.node)
        ctx.require(any(f.startswith('DbTransactionOutput.output_n ==') for f in x.filters) and any(f.startswith('DbTransaction.txid ==') for f in x.filters), q,
                    'explicit-input lookup does not match on (txid, output_n)', x.node)
    # every look-up of transaction_create / select_inputs that can hand back a key or an output (DbKey, DbTransaction*) is scoped to this wallet
    nq = 0
    for fq in (q, W + ':Wallet.select_inputs'):
        for x in queries_in(ctx.repo.func(fq)):
            if not any(mm.split('.')[0] in ('DbKey', 'DbTransaction', 'DbTransactionInput', 'DbTransactionOutput') for mm in x.models):
                continue
            nq += 1
            preds = list(x.filters) + ['%s=%s' % (k, v) for k, v in x.filter_by.items()]
            scoped = any(p.replace(' ', '') in ('DbTransaction.wallet_id==self.wallet_id', 'DbKey.wallet_id==self.wallet_id', 'wallet_id=self.wallet_id') for p in preds)
            if not scoped:
                ctx.violate(fq, 'the look-up over %s with %s is not restricted to this wallet' % (', '.join(x.models), preds or 'no predicate'), x.node,
                            'keys / outputs of ANOTHER wallet in the same database are found: the wallet signs with a foreign private key and spends an output that is not its own')
    ctx.saw('%d key / output look-ups of transaction_create and select_inputs are scoped to this wallet' % nq)
    ctx.floor(nq, 3, 'wallet look-ups')
    adds = [c for c in ast.walk(fn) if isinstance(c, ast.Call) and unparse(c.func) == 'transaction.add_input' and unparse(c.args[0]) == 'prev_txid']
    for c in adds:
        kw = {k.arg: unparse(k.value) for k in c.keywords}
        ctx.require(kw.get('value') == 'value' and unparse(c.args[1]) == 'output_n', q, 'explicit input added with value=%s index=%s' % (kw.get('value'), unparse(c.args[1])), c)
    # when the wallet knows the outpoint, the recorded amount and key are authoritative: assigned unconditionally in the found-branch
    rows = [n for n in ast.walk(fn) if isinstance(n, ast.Assign) and isinstance(n.targets[0], ast.Name) and any(x.node is n.value or x.node in list(ast.walk(n.value)) for x in qs)]
    found = [n for n in ast.walk(fn) if isinstance(n, ast.If) and isinstance(n.test, ast.Name) and n.test.id in [r.targets[0].id for r in rows]]
    if not found:
        ctx.undecided('transaction_create: branch for an outpoint found in the wallet not recognised')
    for br in found:
        row = br.test.id
        # everything the branch takes from the wallet's own record replaces what the caller / the imported input brought: no `x = x or ...`
        for x in br.body:
            if isinstance(x, ast.Assign) and len(x.targets) == 1 and isinstance(x.targets[0], ast.Name):
                nm = x.targets[0].id
                if any(isinstance(y, ast.Name) and y.id == nm and isinstance(y.ctx, ast.Load) for y in ast.walk(x.value)):
                    ctx.violate(q, 'for an outpoint the wallet knows, `%s` keeps a value supplied from outside when there is one (`%s`)' % (nm, norm(x)[:90]), x,
                                'an imported multisig spend whose input says script type sig_pubkey is rebuilt with that type instead of the p2sh_multisig of the wallet record: wrong script code, the cosigner signature never verifies'
                                if 'script' in nm else 'data of the caller override the record of the wallet')
        for col in ('value', 'key_id'):
            top = [x for x in br.body if isinstance(x, ast.Assign) and norm(x.targets[0]) == col and norm(x.value) == '%s.%s' % (row, col)]
            nested = [x for x in ast.walk(br) if isinstance(x, ast.Assign) and norm(x.targets[0]) == col and x not in top and x in [y for b in br.body for y in ast.walk(b)]]
            ctx.saw('outpoint found in the wallet: %s %s' % (col, 'taken from the stored output' if top else 'NOT unconditionally taken from the stored output'))
            if not top:
                ctx.violate(q, 'for an outpoint the wallet knows, %s is %s' % (col, ('only conditionally replaced by the stored one (`%s`)' % norm(nested[0])[:60]) if nested else 'not taken from the stored output'), br,
                            'amount_total_input, change and fee are computed from the amount the caller claims: with an overstated value the wallet signs a transaction whose real fee is negative / whose outputs exceed its inputs')


@PROP.obligation('C07.explicit-unspent')
def explicit_unspent(ctx):
    """An explicitly named input that the wallet knows must still be unspent: the look-up filters on spent IS False or the row's
    spent flag is tested (raising) before the input is added."""
    q = W + ':Wallet.transaction_create'
    fn = ctx.repo.func(q)
    qs = [x for x in queries_in(fn) if 'DbTransactionOutput' in x.models]
    if not qs:
        ctx.undecided('explicit-input lookup not found')
    tested = any('inp_utxo.spent' in unparse(n.test) for n in walk_no_nested(fn) if isinstance(n, ast.If))
    for x in qs:
        ctx.saw('explicit-input lookup filters: %s ; spent flag tested afterwards: %s' % (x.filters, tested))
        if not any('spent' in f for f in x.filters) and not tested:
            ctx.violate(q, 'an explicitly named input is looked up without regard to its spent flag (filters: %s)' % ', '.join(x.filters), x.node,
                        'an output this wallet has already spent is accepted as input of a new transaction')


@PROP.obligation('C07.sweep', canaries=[
    mut.drop_stmt(W, 'Wallet.sweep', 'if sum((x[1] for x in to_list)) + fee != total_amount', 'sweep: balance check removed'),
    mut.replace_stmt(W, 'Wallet.sweep', "total_amount += utxo['value']", "total_amount += utxo['value']\ninput_arr = input_arr", 'no-op') if False else
    mut.replace_expr(W, 'Wallet.sweep', "(utxo['txid'], utxo['output_n'], utxo['key_id'], utxo['value'])", "(utxo['txid'], utxo['output_n'], utxo['key_id'], 0)", 'sweep passes value 0 for its inputs'),
])
def sweep(ctx):
    """sweep: every selected UTXO is added both to the input list (with its value) and to total_amount; the call to send is preceded on
    every path by the raise unless sum(outputs) + fee == total_amount."""
    q = W + ':Wallet.sweep'
    fn = ctx.repo.func(q)
    g = build_cfg(fn)
    sends = [n for n in g.nodes if n.kind == 'return' and n.ast.value is not None and 'self.send(' in unparse(n.ast.value)]
    if len(sends) != 1:
        ctx.undecided('sweep: final send call not found')
    ok = _raise_guard(g, sends[0].id, '+ fee != total_amount', 'F')
    ctx.saw('send dominated by the balance raise: %s' % ok)
    ctx.require(ok, q, 'send is reachable without the raise on sum(outputs) + fee != total_amount', sends[0].ast, 'a sweep that does not balance is created')
    loops = [n for n in walk_no_nested(fn) if isinstance(n, ast.For) and unparse(n.iter) == 'utxos']
    if len(loops) != 1:
        ctx.undecided('sweep: loop over utxos not found')
    body = unparse(loops[0])
    apps = [c for c in ast.walk(loops[0]) if isinstance(c, ast.Call) and unparse(c.func) == 'input_arr.append']
    incs = [s for s in ast.walk(loops[0]) if isinstance(s, ast.AugAssign) and unparse(s.target) == 'total_amount']
    ctx.saw('per utxo: %s ; %s' % ([norm(a) for a in apps], [norm(i) for i in incs]))
    ok = len(apps) == 1 and len(incs) == 1 and norm(incs[0].value) == "utxo['value']" and isinstance(apps[0].args[0], ast.Tuple) and len(apps[0].args[0].elts) >= 4 and norm(apps[0].args[0].elts[3]) == "utxo['value']"
    ctx.require(ok, q, 'input list / total_amount are not both fed with utxo[\'value\'] for every selected UTXO', loops[0], 'the amount swept differs from the inputs spent')
    # both in the same block (same skip condition)
    if apps and incs:
        parent_a = [n for n in ast.walk(loops[0]) if hasattr(n, 'body') and isinstance(getattr(n, 'body'), list) and any(isinstance(s, ast.Expr) and s.value is apps[0] for s in n.body)]
        parent_i = [n for n in ast.walk(loops[0]) if hasattr(n, 'body') and isinstance(getattr(n, 'body'), list) and any(s is incs[0] for s in n.body)]
        ctx.require(bool(parent_a) and bool(parent_i) and parent_a[0] is parent_i[0], q, 'input list and total are updated under different conditions', loops[0])


@PROP.obligation('C07.bump', canaries=[
    mut.replace_expr('transactions', 'Transaction.bumpfee', '[o for o in self.outputs if o.change]', '[o for o in self.outputs]', 'fee bump reduces recipient outputs'),
    mut.drop_stmt('transactions', 'Transaction.bumpfee', 'if remaining_fee:', 'fee bump does not fail when change cannot cover it', nth=0) if False else
    mut.replace_stmt('transactions', 'Transaction.bumpfee', 'raise TransactionError(\'Not enough unspent outputs to bump transaction fee\')', 'pass', 'fee bump does not fail when change cannot cover it'),
    mut.replace_expr(W, 'WalletTransaction.add_input_from_wallet', 'i.output_n_int', 'i.output_n', 'already used outpoints not recognised (bytes vs int)'),
    mut.replace_stmt('transactions', 'Transaction.bumpfee', 'outp.value -= remaining_fee', 'outp.value -= extra_fee', 'later change output reduced by the full extra fee'),
    mut.replace_expr(W, 'WalletTransaction.add_input_from_wallet', 'self.hdwallet.utxos(self.account_id, network=self.network.name, min_confirms=min_confirms, key_id=key_id)', 'self.hdwallet.utxos(self.account_id, min_confirms=min_confirms, key_id=key_id)', 'fee bump takes its extra input from the default network'),
])
def bump(ctx):
    """Transaction.bumpfee reduces / removes only outputs flagged change and raises when they cannot cover the extra fee;
    WalletTransaction.add_input_from_wallet excludes outpoints already used, comparing (txid hex, integer index) with the same
    representation the UTXO list uses."""
    q = 'transactions:Transaction.bumpfee'
    fn = ctx.repo.func(q)
    loops = [n for n in walk_no_nested(fn) if isinstance(n, ast.For) and any(isinstance(s, ast.AugAssign) and 'value' in unparse(s.target) for s in ast.walk(n))]
    if len(loops) != 1:
        ctx.undecided('bumpfee: loop over outputs not found')
    it = norm(loops[0].iter)
    ctx.saw('bumpfee reduces outputs from: %s' % it)
    ctx.require(it == '[o for o in self.outputs if o.change]', q, 'fee bump iterates over `%s`, expected only change outputs' % it, loops[0], 'a recipient receives less than requested after a fee bump')
    # what is taken from a change output is what is still missing, not the whole increase (earlier change outputs were already used up)
    subs = [n for n in ast.walk(loops[0]) if isinstance(n, ast.AugAssign) and isinstance(n.op, ast.Sub) and 'value' in unparse(n.target)]
    ctx.saw('bumpfee subtracts from a change output: %s' % [norm(x) for x in subs])
    for x in subs:
        ctx.require(norm(x.value) == 'remaining_fee', q, 'a change output is reduced by `%s`, not by the fee that is still missing' % norm(x.value), x,
                    'two change outputs 10000 and 6667, extra fee 12000: the first is used up (2000 missing), the second is reduced by 12000 to -5333: a negative output value')
    g = build_cfg(fn)
    fee_set = [n for n in g.nodes if n.kind == 'stmt' and isinstance(n.ast, ast.Assign) and unparse(n.ast.targets[0]) == 'self.fee']
    ok = bool(fee_set) and all(_raise_guard(g, n.id, 'remaining_fee', 'F') for n in fee_set)
    ctx.saw('new fee is set only when the change covered it: %s' % ok)
    ctx.require(ok, q, 'the fee is raised although the change outputs could not cover the increase', fn, 'the transaction no longer balances / pays less fee than reported')
    q = W + ':WalletTransaction.add_input_from_wallet'
    fn = ctx.repo.func(q)
    cur = [n for n in walk_no_nested(fn) if isinstance(n, ast.Assign) and unparse(n.targets[0]) == 'current_inputs']
    flt = [n for n in walk_no_nested(fn) if isinstance(n, ast.Assign) and unparse(n.targets[0]) == 'unused_inputs']
    if len(cur) != 1 or len(flt) != 1:
        ctx.undecided('add_input_from_wallet: current/unused input lists not found')
    ctx.saw('used outpoints: %s' % norm(cur[0].value))
    ctx.saw('filter: %s' % norm(flt[0].value))
    ctx.require(norm(cur[0].value) == '[(i.prev_txid.hex(), i.output_n_int) for i in self.inputs]', q,
                'used outpoints are collected as `%s`; the UTXO list carries (txid hex string, integer output_n)' % norm(cur[0].value), cur[0],
                'the exclusion never matches: an outpoint already in the transaction is added a second time')
    ctx.require("(u['txid'], u['output_n']) not in current_inputs" in norm(flt[0].value), q, 'candidate UTXOs are not filtered against the used outpoints', flt[0])
    # the extra input comes from the unspent outputs of the transaction's OWN account and network
    ucalls = [c for c in ast.walk(fn) if isinstance(c, ast.Call) and norm(c.func) == 'self.hdwallet.utxos']
    if not ucalls:
        ctx.undecided('add_input_from_wallet: the call that lists the unspent outputs of the wallet was not found')
    up = [a.arg for a in ctx.repo.func(W + ':Wallet.utxos').args.args][1:]
    for c in ucalls:
        bound = {up[i]: norm(a) for i, a in enumerate(c.args) if i < len(up)}
        bound.update({k.arg: norm(k.value) for k in c.keywords if k.arg})
        ctx.saw('candidates: self.hdwallet.utxos(%s)' % ', '.join('%s=%s' % kv for kv in sorted(bound.items())))
        ctx.require(bound.get('network') == 'self.network.name', q, 'the unspent outputs offered for a fee bump are listed with network=%s, not the network of the transaction' % bound.get('network', 'the wallet default'), c,
                    'a litecoin transaction of a multi-network wallet receives a bitcoin outpoint as input: not an unspent output of the wallet on that chain')
        ctx.require(bound.get('account_id') == 'self.account_id', q, 'the unspent outputs offered for a fee bump are listed with account_id=%s, not the account of the transaction' % bound.get('account_id', 'the wallet default'), c)


@PROP.obligation('C07.refresh-unconditional', canaries=[
    mut.replace_expr('wallets', 'Wallet.utxos_update', 'transaction_in_db.count()', "transaction_in_db.count() and utxo['confirmations']", 'stored confirmations only refreshed by a non-zero report', nth=0),
])
def refresh_unconditional(ctx):
    """The wallet selects inputs by the confirmation count, spent flag and value it STORED. Wherever a wallet method copies a reported
    value (utxo['confirmations'], ...) into a database record, the copy is not conditional on that value being truthy: a report of 0
    confirmations (reorganisation, lagging provider) lowers the stored count like any other."""
    from .common_falsy import refresh_unconditional as run
    n = run(ctx, [(W, lambda q: q.startswith('Wallet.'))],
            'an output whose transaction dropped back to 0 confirmations keeps its old count and is selected as an input with min_confirms >= 1')
    ctx.floor(n, 10, 'stores of reported values')


@PROP.obligation('C07.shortfall-refused', canaries=[
    mut.replace_expr(W, 'Wallet.transaction_create', 'transaction.change < 0 or transaction.fee < 0', 'transaction.fee < 0', 'negative change no longer refused'),
])
def shortfall_refused(ctx):
    """Wallet.transaction_create, from the computation of the change to the first refusal: the statements are evaluated for inputs that
    fall SHORT of outputs plus the requested fee by less than the dust limit, by more, and for inputs that cover them. A shortfall is
    refused - it is not absorbed by the rule that folds a small change into the fee (the transaction would pay less fee than requested)."""
    q = W + ':Wallet.transaction_create'
    fn = ctx.repo.func(q)
    body = fn.body
    start = [i for i, x in enumerate(body) if isinstance(x, ast.If) and norm(x.test) == 'fee is False' and any('transaction.change' in norm(y) for y in ast.walk(x) if isinstance(y, ast.Assign))]
    if len(start) != 1:
        ctx.undecided('transaction_create: computation of the change not found at statement level (%d candidates)' % len(start))
    # everything between the computation of the change and the block that creates the change outputs
    stop = [i for i, x in enumerate(body) if i > start[0] and isinstance(x, ast.If) and norm(x.test) == 'transaction.change']
    if not stop:
        ctx.undecided('transaction_create: the block that creates the change outputs (`if transaction.change:`) was not found')
    stmts = body[start[0]:stop[0]]
    guard = [start[0]]
    T = ('var', 'transaction')
    n = 0
    for tin, tout, fee, want in ((1000000, 999500, 1000, 'raise'), (1000000, 999999, 1000, 'raise'), (1000000, 1500000, 1000, 'raise'), (1000000, 900000, 1000, 'ok'), (1000000, 998900, 1000, 'ok')):
        it = Interp(ctx.repo, W, self_cls='wallets:Wallet')
        st = State(env={'self': S(('var', 'self')), 'transaction': S(T), 'fee': fee, 'amount_total_input': tin, 'amount_total_output': tout, 'fee_per_output': None,
                        'number_of_change_outputs': 1})
        for k, v in (('fee', fee), ('change', 0), ('size', 200), ('fee_per_kb', None)):
            st.heap[('attr', T, k)] = v
        st.heap[('attr', ('attr', T, 'network'), 'dust_amount')] = 546
        st.heap[('attr', ('attr', T, 'network'), 'fee_min')] = 1000
        it.frames.append([])
        end = st
        try:
            for x in stmts:
                end = it.exec_stmt(x, end)
                if end is None:
                    break
        except AnalysisError as e:
            ctx.undecided('transaction_create: change statements not evaluable for inputs %d / outputs %d / fee %d: %s' % (tin, tout, fee, str(e)[:100]))
        n += 1
        if end is None:
            got = 'raise'
        else:
            got = 'ok'
        gfee = None if end is None else end.heap.get(('attr', T, 'fee'))
        gchg = None if end is None else end.heap.get(('attr', T, 'change'))
        ctx.saw('inputs %d, outputs %d, requested fee %d -> %s' % (tin, tout, fee, 'refused' if end is None else 'continues with fee %s, change %s' % (show(term(gfee))[:20], show(term(gchg))[:20])))
        if want == 'raise':
            ctx.require(end is None, q, 'inputs of %d cannot cover outputs of %d plus the requested fee of %d, yet the method continues with fee %s and change %s' % (tin, tout, fee, show(term(gfee))[:20], show(term(gchg))[:20]),
                        body[guard[0]], 'explicit inputs that fall short by less than the dust limit give a transaction that silently pays a lower fee than requested instead of failing')
        else:
            ctx.require(end is not None and isinstance(gfee, int) and isinstance(gchg, int) and gfee + gchg == tin - tout and gfee >= fee, q,
                        'inputs of %d for outputs of %d and fee %d: %s' % (tin, tout, fee, 'refused' if end is None else 'fee %s, change %s' % (show(term(gfee))[:20], show(term(gchg))[:20])), body[start[0]])
    ctx.floor(n, 5, 'funding scenarios')


@PROP.obligation('C07.explicit-distinct', canaries=[
    mut.replace_expr(W, 'Wallet.transaction_create', 'outpoint in outpoints', 'False', 'repeated outpoint no longer refused'),
    mut.drop_stmt(W, 'Wallet.transaction_create', 'outpoints.append(outpoint)', 'outpoints seen are not remembered'),
    mut.replace_expr(W, 'Wallet.transaction_create', 'to_bytes(prev_txid)', 'prev_txid', 'outpoints compared as the caller spelled them', nth=0),
])
def explicit_distinct(ctx):
    """Explicit inputs (input_arr) are distinct outpoints: inside the loop that turns input_arr into transaction inputs a raise is guarded
    by the membership of the current outpoint - an expression built from BOTH the previous txid and the output index - in a collection
    that the same loop extends with every outpoint it has accepted (or in the inputs already added to the transaction). Without it the
    same output is counted twice: value from nowhere."""
    q = W + ':Wallet.transaction_create'
    fn = ctx.repo.func(q)
    loops = [n for n in ast.walk(fn) if isinstance(n, ast.For) and norm(n.iter) == 'input_arr']
    if len(loops) != 1:
        ctx.undecided('transaction_create: %d loops over input_arr, expected 1' % len(loops))
    loop = loops[0]
    rd = ReachingDefs(fn)

    def mentions_outpoint(e):
        names = set(x.id for x in ast.walk(e) if isinstance(x, ast.Name))
        # follow one level of local definitions inside the loop (outpoint = (prev_txid, output_n))
        for s_ in ast.walk(loop):
            if isinstance(s_, ast.Assign) and isinstance(s_.targets[0], ast.Name) and s_.targets[0].id in names:
                names |= set(x.id for x in ast.walk(s_.value) if isinstance(x, ast.Name))
        return 'prev_txid' in names and 'output_n' in names
    grown = set()
    for c in ast.walk(loop):
        if isinstance(c, ast.Call) and isinstance(c.func, ast.Attribute) and c.func.attr in ('append', 'add') and isinstance(c.func.value, ast.Name) and c.args and mentions_outpoint(c.args[0]):
            grown.add(c.func.value.id)
    ok = []
    for n in ast.walk(loop):
        if not (isinstance(n, ast.If) and any(isinstance(x, ast.Raise) for x in n.body)):
            continue
        for cmp_ in ast.walk(n.test):
            if isinstance(cmp_, ast.Compare) and len(cmp_.ops) == 1 and isinstance(cmp_.ops[0], ast.In) and mentions_outpoint(cmp_.left):
                coll = cmp_.comparators[0]
                if (isinstance(coll, ast.Name) and coll.id in grown) or 'transaction.inputs' in norm(coll):
                    ok.append(n)
    ctx.saw('collections the loop extends with accepted outpoints: %s; refusals of a repeated outpoint: %s' % (sorted(grown), [norm(n.test)[:60] for n in ok]))
    # the txid of an explicit input may be written as hex text or as bytes (the loop itself normalises it with to_bytes(...) for the
    # database lookup): the key that is compared must be built from the NORMALISED value, or two spellings of one outpoint are distinct
    normalised_elsewhere = [c for c in ast.walk(loop) if isinstance(c, ast.Call) and norm(c.func) in ('to_bytes', 'to_hexstring', 'bytes.fromhex') and c.args and norm(c.args[0]) == 'prev_txid']
    rebound = any(isinstance(a, ast.Assign) and any(norm(t) == 'prev_txid' for t in a.targets) and isinstance(a.value, ast.Call) and norm(a.value.func) in ('to_bytes', 'to_hexstring')
                  for a in loop.body)
    for n in ok:
        for cmp_ in ast.walk(n.test):
            if not (isinstance(cmp_, ast.Compare) and isinstance(cmp_.ops[0], ast.In)):
                continue
            keys_ = [cmp_.left]
            if isinstance(cmp_.left, ast.Name):
                keys_ = [a.value for a in ast.walk(loop) if isinstance(a, ast.Assign) and any(isinstance(t, ast.Name) and t.id == cmp_.left.id for t in a.targets)]
            for k in keys_:
                parents = {}
                for par in ast.walk(k):
                    for ch in ast.iter_child_nodes(par):
                        parents[ch] = par
                for x in ast.walk(k):
                    if isinstance(x, ast.Name) and x.id == 'prev_txid':
                        cur, wrapped = x, False
                        while cur in parents:
                            cur = parents[cur]
                            if isinstance(cur, ast.Call):
                                wrapped = True
                                break
                        ctx.saw('key of the repeated-outpoint test: `%s`; prev_txid normalised inside it: %s' % (norm(k)[:70], wrapped or rebound))
                        if normalised_elsewhere and not wrapped and not rebound:
                            ctx.violate(q, 'the repeated-outpoint test compares `%s`, built from prev_txid AS WRITTEN by the caller, while the same loop normalises it (`%s`) before using it' % (
                                norm(k)[:60], norm(normalised_elsewhere[0])), k,
                                "input_arr=[('ab12..', 0, ...), (bytes.fromhex('ab12..'), 0, ...)] - or an Input object from select_inputs() next to a (txid_hex, n) tuple - passes the test: the same output is spent and counted twice")
    if not ok:
        # the alternative idiom: one test over the whole list before the loop
        pre = [n for n in ast.walk(fn) if isinstance(n, ast.If) and any(isinstance(x, ast.Raise) for x in n.body) and 'input_arr' in norm(n.test) and 'set(' in norm(n.test) and 'len(' in norm(n.test)]
        if pre:
            ctx.unsure('transaction_create: duplicates seem to be refused by `%s`; idiom not modelled' % norm(pre[0].test)[:80])
            return
        ctx.violate(q, 'nothing in the loop over input_arr refuses an outpoint that was already taken', loop,
                    'send(..., input_arr=[(txid, 1, key, v), (txid, 1, key, v)]) builds a verified transaction that spends the same output twice and pays out its value twice')


@PROP.obligation('C07.defaults')
def api_defaults(ctx):
    """Defaults of the parameters that decide this property for callers who do not pass them: only confirmed outputs are selected by default."""
    from .common_defaults import defaults as run
    n = run(ctx, [('wallets:Wallet.select_inputs', 'min_confirms', '1'), ('wallets:Wallet.transaction_create', 'min_confirms', '1'), ('wallets:Wallet.send', 'min_confirms', '1'), ('wallets:Wallet.send_to', 'min_confirms', '1'), ('wallets:Wallet.sweep', 'min_confirms', '1'), ('wallets:Wallet.transaction_create', 'replace_by_fee', 'False')], 'unconfirmed outputs are spent by default')
    ctx.floor(n, 5, 'parameter defaults')


@PROP.obligation('C07.options-forwarded', canaries=[
    mut.Canary('re-created transaction selects inputs with the default min_confirms', W, lambda tree: _drop_positional(tree, 'send', 'transaction_create', 1, 7)),
])
def options_forwarded(ctx):
    """Wallet.send creates the transaction with the caller's options and - when the fee estimate was more than 10% off - creates it AGAIN;
    send_to delegates to send. Every call binds every parameter the caller and the callee share by name (min_confirms, max_utxos,
    input_key_id, account_id, network, locktime, number_of_change_outputs, random_output_order, replace_by_fee ...): a re-created
    transaction must not fall back to defaults the first one did not use."""
    m = ctx.repo.mod(W)
    n = 0
    for caller, callee in (('send', 'transaction_create'), ('send_to', 'send')):
        f, g = m.functions['Wallet.' + caller], m.functions['Wallet.' + callee]
        ps = [a.arg for a in f.args.args][1:]
        gps = [a.arg for a in g.args.args][1:]
        calls = [c for c in ast.walk(f) if isinstance(c, ast.Call) and norm(c.func) == 'self.' + callee]
        if not calls:
            ctx.undecided('Wallet.%s: call of %s not found' % (caller, callee))
        for c in calls:
            n += 1
            bound = {gps[i] for i, a in enumerate(c.args) if i < len(gps)} | {k.arg for k in c.keywords if k.arg}
            dropped = [p for p in ps if p in gps and p not in bound]
            ctx.saw('Wallet.%s line %d -> %s: %d parameters bound, shared but not passed: %s' % (caller, c.lineno, callee, len(bound), dropped))
            for p in dropped:
                ctx.violate('%s:Wallet.%s' % (W, caller), '`self.%s(...)` at line %d does not pass on `%s`: the callee uses its default' % (callee, c.lineno, p), c,
                            'send(..., min_confirms=6) with an automatic fee: when the transaction is re-created for the exact fee its inputs are selected with min_confirms=1 - outputs the caller excluded are spent')
            # positional arguments land on the parameter of their own name
            for i, a in enumerate(c.args):
                if isinstance(a, ast.Name) and i < len(gps) and a.id in gps and gps[i] != a.id and a.id in ps:
                    ctx.violate('%s:Wallet.%s' % (W, caller), '`%s` is passed in the position of `%s`' % (a.id, gps[i]), c, 'an option of the caller is applied as another option')
    ctx.floor(n, 3, 'delegating calls')


def _drop_positional(tree, caller, callee, nth_call, pos):
    k = 0
    for f in ast.walk(tree):
        if isinstance(f, ast.FunctionDef) and f.name == caller:
            for c in ast.walk(f):
                if isinstance(c, ast.Call) and isinstance(c.func, ast.Attribute) and c.func.attr == callee:
                    if k == nth_call and len(c.args) > pos:
                        # turn the arguments after `pos` into keywords of the callee (resolved by the caller of this helper through names)
                        names = ['output_arr', 'input_arr', 'input_key_id', 'account_id', 'network', 'fee', 'min_confirms', 'max_utxos', 'locktime', 'number_of_change_outputs', 'random_output_order', 'replace_by_fee']
                        rest = c.args[pos:]
                        c.keywords += [ast.keyword(arg=names[pos + j], value=v) for j, v in enumerate(rest)][1:]
                        del c.args[pos - 0:]
                        return True
                    k += 1
    return False


def _tc_regions(ctx, fn):
    """statement regions of Wallet.transaction_create: (fee preparation, after the inputs up to the change outputs, final fee-rate check)"""
    body = fn.body
    prep = [i for i, x in enumerate(body) if isinstance(x, ast.If) and norm(x.test) == 'isinstance(fee, int)']
    inp = [i for i, x in enumerate(body) if isinstance(x, ast.If) and norm(x.test) == 'input_arr is None' and any(isinstance(y, ast.For) for y in ast.walk(x))]
    chg = [i for i, x in enumerate(body) if isinstance(x, ast.If) and norm(x.test) == 'transaction.change']
    fin = [i for i, x in enumerate(body) if isinstance(x, ast.If) and norm(x.test) == 'not transaction.fee_per_kb']
    lim = [i for i, x in enumerate(body) if isinstance(x, ast.If) and 'fee_max' in norm(x) and 'fee_min' in norm(x) and any(isinstance(y, ast.Raise) for y in ast.walk(x))]
    if len(prep) != 1 or len(inp) != 1 or not chg or not fin or not lim or not (prep[0] < inp[0] < chg[0] < fin[-1] <= lim[-1]):
        ctx.undecided('transaction_create: fee statements not found at statement level (prep %s, inputs %s, change %s, rate %s, limits %s)' % (prep, inp, chg, fin, lim))
    return body[prep[0] - 2:prep[0] + 1], body[inp[0] + 1:chg[0]], body[fin[-1]:lim[-1] + 1]


def _tc_run(ctx, it, stmts, st, what):
    it.frames.append([])
    end = st
    try:
        for x in stmts:
            end = it.exec_stmt(x, end)
            if end is None:
                break
    except AnalysisError as e:
        ctx.undecided('transaction_create: %s not evaluable: %s' % (what, str(e)[:110]))
    it.frames.pop()
    return end


@PROP.obligation('C07.fee-limits-real-rate', canaries=[
    mut.drop_stmt(W, 'Wallet.transaction_create', 'transaction.fee_per_kb = None', 'the surplus of explicit inputs is checked against the service estimate', nth=1),
    mut.replace_expr(W, 'Wallet.transaction_create', 'transaction.fee_per_kb > transaction.network.fee_max', 'False', 'no upper fee limit'),
])
def fee_limits_real_rate(ctx):
    """"The fee is inside the network's fee-rate limits": with explicit inputs and no fee, the fee is what the inputs leave over. The
    statements of transaction_create after the inputs are added (up to the change outputs) and the final fee-rate check are evaluated
    with an estimate of 33333 per kB from the service, a size of 141 bytes and fee_max 1000000: inputs of 20000000 for a payment of
    1000000 (19000000 fee, 135 million per kB) are REFUSED; inputs of 1010000 (10000 fee, 70921 per kB) pass and the rate that is
    checked and reported is the real one."""
    q = W + ':Wallet.transaction_create'
    fn = ctx.repo.func(q)
    _, mid, fin = _tc_regions(ctx, fn)
    T = ('var', 'transaction')
    NET = ('attr', T, 'network')
    n = 0
    for tin, tout, want in ((20000000, 1000000, 'raise'), (1010000, 1000000, 'ok'), (1000100, 1000000, 'raise')):
        hooks = {'.estimate_size': lambda it, b, a, kw, st, node: 141, '.signature_hash': lambda it, b, a, kw, st, node: S(('var', 'sighash'), 'bytes')}
        it = Interp(ctx.repo, W, self_cls='wallets:Wallet', hooks=hooks)
        st = State(env={'self': S(('var', 'self')), 'transaction': S(T), 'fee': None, 'fee_named': False, 'input_arr': [S(('var', 'inp'))], 'amount_total_input': tin, 'amount_total_output': tout,
                        'number_of_change_outputs': 1, 'srv': S(('var', 'srv'))})
        for k, v in (('fee', None), ('change', 0), ('size', 141), ('vsize', 141), ('fee_per_kb', 33333)):
            st.heap[('attr', T, k)] = v
        for k, v in (('dust_amount', 546), ('fee_min', 1000), ('fee_max', 1000000)):
            st.heap[('attr', NET, k)] = v
        end = _tc_run(ctx, it, mid, st, 'fee statements after the inputs (inputs %d, outputs %d)' % (tin, tout))
        if end is not None and end.heap.get(('attr', T, 'change')) not in (0, None):
            ctx.undecided('transaction_create: scenario with explicit inputs and no fee leaves a change of %s' % show(term(end.heap.get(('attr', T, 'change')))))
        if end is not None:
            end = _tc_run(ctx, it, fin, end, 'final fee-rate check')
        n += 1
        fee_ = None if end is None else end.heap.get(('attr', T, 'fee'))
        rate = None if end is None else end.heap.get(('attr', T, 'fee_per_kb'))
        ctx.saw('explicit inputs %d, outputs %d, no fee, estimate 33333/kB -> %s' % (tin, tout, 'refused' if end is None else 'accepted with fee %s at %s per kB' % (fee_, rate)))
        if want == 'raise':
            ctx.require(end is None, q, 'explicit inputs of %d for outputs of %d give a fee of %s (%d per kB at 141 bytes, limits 1000 .. 1000000) and the transaction is accepted with fee_per_kb %s' % (
                tin, tout, fee_, (tin - tout) * 1000 // 141, rate), fin[-1],
                'transaction_create([(addr, 1000000)], input_arr=[(txid_of_a_20000000_output, 0)]) returns a transaction that pays 19000000 in fees: the limit check compares the estimate of the service, not the rate of the transaction')
        else:
            ctx.require(end is not None and fee_ == tin - tout and rate == int((tin - tout) * 1000.0 / 141), q,
                        'explicit inputs of %d for outputs of %d: %s' % (tin, tout, 'refused' if end is None else 'fee %s, reported rate %s (real rate %d)' % (fee_, rate, int((tin - tout) * 1000.0 / 141))), fin[-1])
    ctx.floor(n, 3, 'explicit-input scenarios')


@PROP.obligation('C07.named-fee-explicit', canaries=[
    mut.replace_expr(W, 'Wallet.transaction_create', 'fee_named and input_arr', 'False', 'a named fee with explicit inputs stays at the placeholder 0'),
])
def named_fee_explicit(ctx):
    """fee='low' / 'normal' / 'high' asks for the service estimate times the size of the transaction. The fee preparation and the
    statements after the inputs are evaluated for a named fee WITH explicit inputs (estimate 4000 per kB, size 141) and without: the fee
    stored in the transaction is int(141 / 1000 * 4000) = 564 in both cases, never the placeholder 0 the preparation uses while the
    size is unknown (a zero-fee transaction whose stale fee_per_kb passes the fee_min check)."""
    q = W + ':Wallet.transaction_create'
    fn = ctx.repo.func(q)
    prep, mid, _ = _tc_regions(ctx, fn)
    T = ('var', 'transaction')
    NET = ('attr', T, 'network')
    n = 0
    for explicit in (True, False):
        hooks = {'.estimate_size': lambda it, b, a, kw, st, node: 141, '.estimatefee': lambda it, b, a, kw, st, node: 4000}
        it = Interp(ctx.repo, W, self_cls='wallets:Wallet', hooks=hooks)
        st = State(env={'self': S(('var', 'self')), 'transaction': S(T), 'fee': 'low', 'input_arr': [S(('var', 'inp'))] if explicit else None, 'amount_total_input': 2000000, 'amount_total_output': 1000000,
                        'number_of_change_outputs': 1, 'srv': S(('var', 'srv'))})
        for k, v in (('fee', None), ('change', 0), ('size', 141), ('vsize', 141), ('fee_per_kb', None)):
            st.heap[('attr', T, k)] = v
        for k, v in (('dust_amount', 546), ('fee_min', 1000), ('fee_max', 1000000)):
            st.heap[('attr', NET, k)] = v
        end = _tc_run(ctx, it, prep, st, 'fee preparation for a named fee')
        if end is None:
            ctx.undecided('transaction_create: fee preparation raises for a named fee')
        end = _tc_run(ctx, it, mid, end, 'fee statements after the inputs (named fee)')
        n += 1
        fee_ = None if end is None else end.heap.get(('attr', T, 'fee'))
        ctx.saw("fee='low', %s inputs, estimate 4000/kB, 141 bytes -> %s" % ('explicit' if explicit else 'selected', 'refused' if end is None else 'fee %s' % (fee_,)))
        ctx.require(end is not None and fee_ == 564, q, "fee='low' with %s inputs gives a fee of %s, expected int(141 / 1000 * 4000) = 564" % ('explicit' if explicit else 'selected', 'a refusal' if end is None else fee_), mid[0],
                    "transaction_create(outputs, input_arr=[...], fee='low') returns a transaction that pays no fee at all")
    ctx.floor(n, 2, 'named-fee scenarios')


from . import c08 as _c08
PROP.obligation('C07.outputs-numbered')(_c08.outputs_numbered)


PROP.obligation('C07.delete-keeps-spent')(_c08.delete_keeps_spent)
