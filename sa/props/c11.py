"""C11 Checksummed text encodings: decode-site discipline (Base58Check), Bech32 decoder guards, version checks, encoders."""
import ast

from ..core import Property, AnalysisError, unparse, norm, walk_no_nested, calls_in, callee_name, func_params
from ..sym import Interp, S, term, show, subterms, flatten_cat, State
from ..layout import LAYOUT_HOOKS, normalize, plus_to_cat
from .. import intv, mut

PROP = Property(
    'C11', 'Base58Check / Bech32: every decode site verifies the checksum before the payload is used; decoder guards; encoders',
    'Static: every function of the package that base58-decodes a string is evaluated abstractly; wherever bytes of the '
    'decoded value flow into a stored attribute, a constructor or a return value, the path condition must imply '
    'tail4 == double_sha256(body)[:4] for exactly that decoded value; decodes must not left-pad; the base58 digit lookup '
    'must be exact (no case folding); the Bech32 decoder must raise in each BIP173/BIP350 failure scenario (evaluated on '
    'its extracted decision structure); unknown version bytes / prefixes must raise; encoders append the 4-byte '
    'double-SHA256 checksum and map leading zero bytes to "1". decode(encode(x)) == x as an equality of values is NOT decided.',
    ['double_sha256 is SHA256(SHA256(x))', 'assert statements are enabled (the suite does not run python -O); assert-only guards are flagged in the evidence'])

DECLASS = {'network_by_value', 'wif_prefix_search', 'get_key_format', 'check_network_and_key', 'len', 'isinstance', 'Network'}


# classification-only decode sites, one reason each
EXEMPT = {
    'networks:wif_prefix_search': 'only the 4-byte version prefix of the decoded string is used, as a key into the prefix table; '
                                  'it returns table rows, callers decode and verify the string themselves',
}


def _decodes(t):
    out = []
    for s in subterms(t):
        if isinstance(s, tuple) and s[0] == 'call' and s[1] == 'change_base' and len(s[2]) >= 3 and s[2][1] == 58 and s not in out:
            out.append(s)
    return out


def _payload_decodes(t, acc=None, conds=()):
    """(decode term, conditions) for decode terms whose bytes occur in t other than under comparisons / len / table
    look-ups; conditions = tests of the enclosing conditional values that select the occurrence"""
    acc = acc if acc is not None else []
    if not isinstance(t, tuple) or not t:
        return acc
    if not isinstance(t[0], str):
        for x in t:
            _payload_decodes(x, acc, conds)
        return acc
    if t[0] == 'call' and t[1] == 'change_base' and len(t[2]) >= 3 and t[2][1] == 58:
        if (t, conds) not in acc:
            acc.append((t, conds))
        return acc
    if t[0] in ('cmp', 'len', 'isinstance'):
        return acc
    if t[0] == 'call' and t[1] in DECLASS:
        return acc
    if t[0] == 'cond':
        # the test of a conditional value only selects, it is not content
        _payload_decodes(t[2], acc, conds + ((t[1], True),))
        _payload_decodes(t[3], acc, conds + ((t[1], False),))
        return acc
    if t[0] == 'fmt' or (t[0] == 'call' and t[1] and t[1][0].isupper() and t[1].endswith('Error')):
        return acc
    for x in t[1:]:
        _payload_decodes(x, acc, conds)
    return acc


def _ok_atoms(D):
    tail = ('slice', D, -4, None, None)
    body = ('slice', D, None, -4, None)
    h = ('slice', ('hash', 'dsha256', body), None, 4, None)
    return tail, h


def _implies_checksum(pc, D):
    """does the path condition imply tail4(D) == dsha256(body(D))[:4] ?"""
    tail, h = _ok_atoms(D)
    cands = []
    for t, pol in pc:
        for s in subterms(('w', t)):
            if isinstance(s, tuple) and s[0] == 'cmp' and s[1] in ('==', '!='):
                a, b = normalize(s[2]), normalize(s[3])
                if {repr(a), repr(b)} == {repr(tail), repr(h)}:
                    cands.append(s)
    for c in cands:
        eq = ('cmp', '==', c[2], c[3])
        if not intv.satisfiable(pc, [(eq, False)]):
            return True, cands
    return False, cands


def _analyse_site(ctx, modname, fq, fn):
    q = '%s:%s' % (modname, fq)
    cls = None
    if '.' in fq:
        cls = '%s:%s' % (modname, fq.split('.')[0])
    it = Interp(ctx.repo, modname, hooks=LAYOUT_HOOKS, self_cls=cls)
    reports = []
    assert_only = []

    def check(kind, value, st, node):
        ds = _payload_decodes(('w', term(value)))
        for D, conds in ds:
            ok, cands = _implies_checksum(list(st.pc) + list(conds), D)
            if not ok:
                reports.append((kind, D, node, cands))

    it.obs_store = lambda tgt, v, st, node: check('stored in %s' % show(tgt), v, st, node) if tgt[1] == ('var', 'self') else None
    it.obs_exit = lambda kind, v, st, node: check('returned', v, st, node) if kind == 'return' and v is not None else None

    def on_call(name, base, args, kwargs, st, node):
        if name in ('Key', 'HDKey', 'Address') or (name == '__init__' and base in ('Key', 'HDKey')):
            for a in list(args) + list(kwargs.values()):
                check('passed to %s%s(...)' % ((base + '.') if base else '', name), a, st, node)
    it.obs_call = on_call
    args = {}
    for name, default in func_params(fn):
        if name in ('self', 'cls'):
            continue
        if default is None:
            args[name] = S(('var', name))
    # parameters with defaults that select the decoding branch stay symbolic as well
    for name in ('import_key', 'wif', 'address', 'key', 'encrypted_privkey', 'intermediate_passphrase', 'encoding', 'network'):
        if any(n == name for n, _ in func_params(fn)):
            args[name] = S(('var', name))
    it.run_function(fn, args)
    return q, reports


@PROP.obligation('C11.b58-check', canaries=[
    mut.drop_stmt('keys', 'HDKey.from_wif', 'if bkey[-4:] != double_sha256(bkey[:-4])[:4]', 'HDKey.from_wif: checksum test removed'),
    mut.replace_expr('keys', 'HDKey.__init__', 'len(bkey) != 82 or bkey[-4:] != double_sha256(bkey[:-4])[:4]', 'len(bkey) != 82', 'HDKey.__init__: checksum test removed'),
    mut.drop_stmt('keys', 'bip38_decrypt', 'if d[-4:] != double_sha256(d[:-4])[:4]', 'bip38_decrypt: checksum test removed'),
    mut.drop_stmt('keys', 'Key.__init__', 'if checksum != double_sha256(key)[:4]', 'Key.__init__ WIF: checksum test removed'),
    mut.drop_stmt('encoding', 'addr_base58_to_pubkeyhash', 'if check != checksum', 'addr_base58_to_pubkeyhash: checksum test removed'),
    mut.replace_stmt('encoding', 'addr_base58_to_pubkeyhash', 'if check != checksum', "assert check == checksum, 'Invalid address, checksum incorrect'", 'addr_base58_to_pubkeyhash: checksum only asserted'),
    mut.replace_expr('keys', 'deserialize_address', 'double_sha256(key_hash)[0:4]', 'double_sha256(key_hash)[0:2]', 'deserialize_address: only 2 checksum bytes compared'),
    mut.replace_expr('keys', 'Key.__init__', 'double_sha256(key)[:4]', 'double_sha256(import_key)[:4]', 'Key.__init__ WIF: checksum over the wrong bytes'),
    mut.cmpop('keys', 'HDKey.from_wif', 'bkey[-4:] != double_sha256(bkey[:-4])[:4]', ast.Eq, 'HDKey.from_wif: checksum test inverted'),
])
def b58_check(ctx):
    """For every function in the package that calls change_base(x, 58, ...): bytes of the decoded value reach a stored
    attribute, a Key/HDKey/Address constructor or a return value only on paths whose condition implies
    decoded[-4:] == double_sha256(decoded[:-4])[:4] (comparisons, len() and prefix-table look-ups do not count as use)."""
    repo = ctx.repo
    sites = 0
    for modname, m in sorted(repo.modules.items()):
        if modname.startswith('tools'):
            continue
        for fq, fn in sorted(m.functions.items()):
            has = False
            for c in calls_in(fn, 'change_base'):
                if len(c.args) >= 3 and isinstance(c.args[1], ast.Constant) and c.args[1].value == 58:
                    has = True
            if not has:
                continue
            sites += 1
            if '%s:%s' % (modname, fq) in EXEMPT:
                ctx.saw('%s:%s: exempt (%s)' % (modname, fq, EXEMPT['%s:%s' % (modname, fq)]))
                continue
            q, reports = _analyse_site(ctx, modname, fq, fn)
            ctx.saw('%s: decode site analysed, %d unguarded payload uses' % (q, len(reports)))
            # an `assert` is no check: python -O removes it, and without -O the caller gets an AssertionError, not the library's error
            for a in walk_no_nested(fn):
                if isinstance(a, ast.Assert) and any(isinstance(x, ast.Compare) for x in ast.walk(a.test)) and \
                        any(isinstance(x, ast.Name) and ('check' in x.id.lower()) for x in ast.walk(a.test)):
                    ctx.violate(q, 'the checksum of the decoded string is only compared in an assert statement (`%s`)' % norm(a)[:70], a,
                                'under python -O the statement does not exist: a Base58Check string with a wrong checksum is decoded to a payload')
            seen = set()
            for kind, D, node, cands in reports:
                key = (kind.split(' in ')[0], show(D))
                if key in seen:
                    continue
                seen.add(key)
                how = 'no checksum comparison on that path' if not cands else 'the checksum comparison found does not dominate this use'
                ctx.violate(q, 'bytes of %s are %s without a verified Base58Check checksum (%s)' % (show(D)[:60], kind.split(' in ')[0] if kind.startswith('stored') else kind, how), node,
                            'a corrupted string is silently mapped to another payload')
    ctx.floor(sites, 9, 'functions with a base58 decode')


@PROP.obligation('C11.b58-exact', canaries=[
    mut.replace_expr('encoding', 'addr_base58_to_pubkeyhash', 'change_base(address, 58, 256)', 'change_base(address, 58, 256, 25)', 'addr_base58_to_pubkeyhash: left padding is back'),
    mut.replace_expr('keys', 'deserialize_address', 'change_base(address, 58, 256)', 'change_base(address, 58, 256, 25)', 'deserialize_address: left padding is back'),
    mut.drop_stmt('encoding', 'change_base', 'if base_from == 58', 'change_base: case folding applies to base58 again'),
    mut.cmpop('encoding', 'addr_base58_to_pubkeyhash', 'len(address) != 25', ast.Gt, 'addr_base58_to_pubkeyhash: length test weakened to >'),
])
def b58_exact(ctx):
    """No base58 decode outside tools/ passes a min_length (left padding would accept strings that lost leading
    characters); where a decode site tests the decoded length, the test is an equality; change_base looks base58 digits
    up exactly (the lower-case retry is not reachable for base 58)."""
    repo = ctx.repo
    n = 0
    for modname, m in sorted(repo.modules.items()):
        if modname.startswith('tools'):
            continue
        for fq, fn in sorted(m.functions.items()):
            for c in calls_in(fn, 'change_base'):
                if len(c.args) >= 3 and isinstance(c.args[1], ast.Constant) and c.args[1].value == 58:
                    n += 1
                    q = '%s:%s' % (modname, fq)
                    pad = c.args[3] if len(c.args) > 3 else next((k.value for k in c.keywords if k.arg == 'min_length'), None)
                    ctx.saw('%s: %s' % (q, norm(c)))
                    if pad is not None and not (isinstance(pad, ast.Constant) and not pad.value):
                        ctx.violate(q, 'base58 decode `%s` pads the result to a minimum length' % norm(c), c,
                                    'a string that lost leading "1" characters decodes to the same payload with a valid checksum')
    ctx.floor(n, 10, 'base58 decode calls')
    # length tests at decode sites are equalities
    for q, var in (('encoding:addr_base58_to_pubkeyhash', 'address'), ('keys:HDKey.from_wif', 'bkey'), ('keys:HDKey.__init__', 'bkey'), ('keys:bip38_create_new_encrypted_wif', 'intermediate_decode')):
        fn = repo.func(q)
        found = 0
        for c in walk_no_nested(fn):
            if isinstance(c, ast.Compare) and isinstance(c.left, ast.Call) and callee_name(c.left) == 'len' and c.left.args and unparse(c.left.args[0]) == var \
                    and isinstance(c.comparators[0], ast.Constant):
                found += 1
                ctx.saw('%s: length test %s' % (q, norm(c)))
                ctx.require(isinstance(c.ops[0], (ast.NotEq, ast.Eq)), q, 'decoded length test `%s` is not an equality' % norm(c), c,
                            'over- or under-long encodings are accepted')
        if not found:
            ctx.undecided('%s: length test on %s not found' % (q, var))
    # exact digit lookup for base 58
    q = 'encoding:change_base'
    fn = repo.func(q)
    folded = []

    def idx(interp, base, args, kwargs, st, node):
        if args and any(isinstance(s, tuple) and s[0] == 'mcall' and s[2] in ('lower', 'upper', 'casefold', 'swapcase') for s in subterms(('w', term(args[0])))):
            folded.append(node)
        return NotImplemented
    it = Interp(repo, 'encoding', hooks={'.index': idx}, decide=lambda t: True if isinstance(t, tuple) and t[0] == 'isinstance' and 'numbers' not in show(t) else (False if isinstance(t, tuple) and t[0] == 'isinstance' else None))
    it.run_function(fn, {'chars': S(('var', 'chars'), 'str'), 'base_from': 58, 'base_to': 256})
    ctx.saw('change_base(base_from=58): case-folded digit look-ups reachable: %d' % len(folded))
    for node in folded:
        ctx.violate(q, 'with base_from=58 an unknown character is retried case-folded (`%s`)' % norm(node), node,
                    "the invalid base58 characters 'O' and 'I' are read as 'o' and 'i': non-canonical strings are accepted")
    # the rule must not be vacuous: for base 16 the retry has to be visible to the analysis
    folded16 = []
    def idx16(interp, base, args, kwargs, st, node):
        if args and any(isinstance(s, tuple) and s[0] == 'mcall' and s[2] == 'lower' for s in subterms(('w', term(args[0])))):
            folded16.append(node)
        return NotImplemented
    it = Interp(repo, 'encoding', hooks={'.index': idx16}, decide=lambda t: True if isinstance(t, tuple) and t[0] == 'isinstance' and 'numbers' not in show(t) else (False if isinstance(t, tuple) and t[0] == 'isinstance' else None))
    it.run_function(fn, {'chars': S(('var', 'chars'), 'str'), 'base_from': 32, 'base_to': 256})
    if not folded16:
        ctx.note('case-insensitive retry no longer present for other bases either')


def _scenario_exits(exits, subst, assume_true=(), assume_false=()):
    """exits feasible when opaque sub-results take the given values"""
    feas = []
    for e in exits:
        ok = True
        for (t, pol) in e.pc:
            try:
                v = intv.truth_eval(intv.specialise(normalize(t), subst), {})
            except (intv.Unknown, KeyError, TypeError, ZeroDivisionError, IndexError):
                continue
            if isinstance(v, tuple):
                continue
            if bool(v) != pol:
                ok = False
                break
        if ok:
            feas.append(e)
    return feas


@PROP.obligation('C11.bech32-guards', canaries=[
    mut.drop_stmt('encoding', 'addr_bech32_to_pubkeyhash', 'if data[0] == 0 and check != 1', 'bech32: v0 must use bech32 constant - removed'),
    mut.drop_stmt('encoding', 'addr_bech32_to_pubkeyhash', 'if data[0] != 0 and check != BECH32M_CONST', 'bech32: v1+ must use bech32m constant - removed'),
    mut.const('encoding', 'addr_bech32_to_pubkeyhash', 16, 17, 'bech32: witness version limit 16 -> 17'),
    mut.replace_expr('encoding', 'addr_bech32_to_pubkeyhash', '[20, 32]', '[20, 32, 40]', 'bech32: v0 program of 40 bytes accepted'),
    mut.replace_expr('encoding', 'addr_bech32_to_pubkeyhash', 'bech.lower() != bech and bech.upper() != bech', 'False', 'bech32: mixed case accepted'),
    mut.const('encoding', 'addr_bech32_to_pubkeyhash', 90, 900, 'bech32: length limit 90 -> 900'),
    mut.replace_expr('encoding', 'addr_bech32_to_pubkeyhash', 'convertbits(data[1:], 5, 8, pad=False)', 'convertbits(data[1:], 5, 8)', 'bech32: padding bits no longer checked'),
    mut.drop_stmt('encoding', 'convertbits', 'raise EncodingError', 'convertbits: padding raise removed'),
    mut.cmpop('encoding', 'convertbits', 'bits >= frombits', ast.Gt, 'convertbits: a whole spare 5-bit group is accepted'),
    mut.drop_stmt('encoding', '_codestring_to_array', 'raise EncodingError', '_codestring_to_array: unknown character accepted'),
    mut.const('encoding', '_bech32_polymod', 0x3b6a57b2, 0x3b6a57b3, 'polymod generator constant changed'),
])
def bech32_guards(ctx):
    """addr_bech32_to_pubkeyhash raises (no return is feasible) in each BIP173/BIP350 failure scenario: bad character range,
    mixed case, separator position / overall length, checksum constant not in {1, bech32m}, constant not matching the
    witness version (both directions), version > 16, program length outside 2..40, v0 length not 20/32; the helpers raise on
    characters outside the charset and on non-zero padding; generator constants / charset / bech32m constant are BIP173/350's."""
    repo = ctx.repo
    q = 'encoding:addr_bech32_to_pubkeyhash'
    fn = repo.func(q)
    it = Interp(repo, 'encoding', hooks=LAYOUT_HOOKS)
    B = ('var', 'bech')
    exits = it.run_function(fn, {'bech': S(B, 'str'), 'prefix': None, 'include_witver': False, 'as_hex': False})
    for e in exits:
        e.pc = [(normalize(t), pol) for (t, pol) in e.pc]
    allt = ('w',) + tuple(t for e in exits for (t, pol) in e.pc) + tuple(normalize(term(e.value)) for e in exits if e.value is not None)
    def find(pred, what):
        r = [s for s in subterms(allt) if pred(s)]
        if not r:
            ctx.undecided('addr_bech32_to_pubkeyhash: %s not found in the decision structure' % what)
        return r[0]
    poly = find(lambda s: isinstance(s, tuple) and s[:2] == ('call', '_bech32_polymod'), 'polymod call')
    arr = find(lambda s: isinstance(s, tuple) and s[:2] == ('call', '_codestring_to_array'), 'charset decoding')
    d0 = ('index', arr, 0)
    declen = find(lambda s: isinstance(s, tuple) and s[0] == 'len' and isinstance(s[1], tuple) and any(isinstance(x, tuple) and x[:2] == ('call', 'convertbits') for x in subterms(s[1])), 'decoded length')
    conv = find(lambda s: isinstance(s, tuple) and s[:2] == ('call', 'convertbits'), 'convertbits call')
    lower = ('mcall', B, 'lower', (), ())
    pos = find(lambda s: isinstance(s, tuple) and s[0] == 'mcall' and s[2] == 'rfind', 'separator search')
    blen = ('len', lower)
    M = repo.consts('encoding').get('BECH32M_CONST')
    ctx.require(M == 0x2bc830a3, 'encoding:BECH32M_CONST', 'bech32m constant is %r, BIP350: 0x2bc830a3' % (M,))
    ctx.require(pos[3] == ('1',), q, 'separator searched is %s, BIP173: last "1"' % show(pos[3]), fn)
    ctx.require(dict(conv[3]).get('pad') is False and conv[2][1:3] == (5, 8), q, 'data part converted with %s, expected convertbits(.., 5, 8, pad=False)' % show(conv)[:120], fn,
                'non-zero padding bits / over-long padding must be rejected')
    base = {poly: 1, d0: 0, declen: 20, pos: 2, blen: 42}
    charok = [s for s in subterms(allt) if isinstance(s, tuple) and s[:2] == ('call', 'any')]
    mixed_a = ('cmp', '!=', lower, B)
    mixed_b = ('cmp', '!=', ('mcall', B, 'upper', (), ()), B)
    okcase = {mixed_a: False, mixed_b: True}
    for c in charok:
        okcase[c] = False
    def scen(name, subst, must_raise=True):
        s = dict(base); s.update(okcase); s.update(subst)
        feas = _scenario_exits(exits, s)
        kinds = sorted(set(e.kind for e in feas))
        ctx.saw('scenario %-44s -> feasible exits %s' % (name, kinds))
        if must_raise and 'return' in kinds:
            ctx.violate(q, 'scenario "%s" can still return a payload' % name, fn, 'a string that is not a valid Bech32/Bech32m address is mapped to a payload')
        if not must_raise and 'return' not in kinds:
            ctx.violate(q, 'valid scenario "%s" is rejected' % name, fn)
    scen('valid v0 20 bytes', {}, must_raise=False)
    scen('valid v0 32 bytes', {declen: 32}, must_raise=False)
    scen('valid v1 32 bytes bech32m', {d0: 1, poly: M, declen: 32}, must_raise=False)
    scen('valid v16 2 bytes bech32m', {d0: 16, poly: M, declen: 2}, must_raise=False)
    scen('valid v2 40 bytes bech32m', {d0: 2, poly: M, declen: 40}, must_raise=False)
    scen('checksum constant neither 1 nor bech32m', {poly: 0x3fffffff})
    scen('checksum residue 0', {poly: 0})
    scen('v0 with bech32m constant', {poly: M})
    scen('v1 with bech32 constant', {d0: 1, poly: 1, declen: 32})
    scen('witness version 17', {d0: 17, poly: M, declen: 32})
    scen('witness version 31', {d0: 31, poly: M, declen: 32})
    scen('program of 1 byte', {d0: 1, poly: M, declen: 1})
    scen('program of 41 bytes', {d0: 1, poly: M, declen: 41})
    scen('v0 program of 25 bytes', {declen: 25})
    scen('v0 program of 40 bytes', {declen: 40})
    scen('separator at position 0 (empty hrp)', {pos: 0})
    scen('no separator', {pos: -1})
    scen('checksum shorter than 6 characters', {pos: 37, blen: 42})
    scen('longer than 90 characters', {blen: 91, pos: 2})
    scen('mixed case', {mixed_a: True, mixed_b: True})
    for c in charok:
        scen('character outside 33..126', {c: True})
    if not charok:
        ctx.violate(q, 'no test of the character range 33..126', fn)
    # helpers
    q2 = 'encoding:_codestring_to_array'
    fn2 = repo.func(q2)
    it = Interp(repo, 'encoding')
    ex2 = it.run_function(fn2, {'codestring': S(('var', 'codestring'), 'str'), 'base': 'bech32'})
    ctx.saw('_codestring_to_array exits: %s' % [e.kind for e in ex2])
    ctx.require(any(e.kind.startswith('raise') and any(isinstance(t, tuple) and t[0] == 'exc' for t, pol in e.pc) for e in ex2), q2,
                'a character outside the bech32 charset does not raise', fn2)
    cs = repo.consts('encoding').get('code_strings', {})
    ctx.require(cs.get('bech32') == b'qpzry9x8gf2tvdw0s3jn54khce6mua7l', 'encoding:code_strings', 'bech32 charset differs from BIP173')
    ctx.require(cs.get(58) == b'123456789ABCDEFGHJKLMNPQRSTUVWXYZabcdefghijkmnopqrstuvwxyz', 'encoding:code_strings', 'base58 alphabet differs from Bitcoin base58')
    q3 = 'encoding:convertbits'
    fn3 = repo.func(q3)
    it = Interp(repo, 'encoding')
    ex3 = it.run_function(fn3, {'data': S(('var', 'data'), 'list'), 'frombits': 5, 'tobits': 8, 'pad': False})
    ctx.saw('convertbits(5->8, pad=False) exits: %s' % [e.kind for e in ex3])
    if not ctx.require(any(e.kind == 'raise' for e in ex3), q3, 'with pad=False no path raises on left-over padding bits', fn3):
        return
    # exact padding rule (BIP173): after regrouping 5->8 bits, at most 4 left-over bits, all zero
    allp = ('w',) + tuple(t for e in ex3 for (t, pol) in e.pc)
    bits_a = [s_ for s_ in subterms(allp) if isinstance(s_, tuple) and s_[0] == 'after-loop' and s_[3] == 'bits']
    acc_a = [s_ for s_ in subterms(allp) if isinstance(s_, tuple) and s_[0] == 'after-loop' and s_[3] == 'acc']
    if not bits_a or not acc_a:
        ctx.undecided('convertbits: left-over bit count / accumulator not found in the padding test')
    for b in range(8):
        for acc in (0, 1, 0x1f):
            sub = {bits_a[0]: b, acc_a[0]: acc}
            feas = [e for e in ex3 if not any(isinstance(t, tuple) and t[0] == 'in-loop' for t, pol in e.pc) and intv.exit_feasible(e, sub)]
            kinds = set(e.kind for e in feas)
            must_raise = b >= 5 or ((acc << (8 - b)) & 255) != 0
            if must_raise and 'return' in kinds:
                ctx.violate(q3, 'pad=False: %d left-over bits with accumulator %#x are accepted; BIP173 allows at most 4 zero bits of padding' % (b, acc), fn3,
                            'a data part with a surplus character (and recomputed checksum) decodes to the same program: non-canonical string accepted')
            if not must_raise and 'return' not in kinds:
                ctx.violate(q3, 'pad=False: valid zero padding of %d bits is rejected' % b, fn3)
    ctx.saw('convertbits padding rule evaluated for 8 x 3 (left-over bits, accumulator) combinations')
    q4 = 'encoding:_bech32_polymod'
    fn4 = repo.func(q4)
    gens = [n.value for n in ast.walk(fn4) if isinstance(n, ast.Constant) and isinstance(n.value, int) and n.value > 0xffffff and n.value != 0x1ffffff]
    ctx.saw('polymod generator constants %s' % [hex(g) for g in gens])
    ctx.require(gens == [0x3b6a57b2, 0x26508e6d, 0x1ea119fa, 0x3d4233dd, 0x2a1462b3], q4, 'generator constants %s differ from BIP173' % [hex(g) for g in gens], fn4)


@PROP.obligation('C11.hrp-guard', canaries=[
    mut.replace_expr('encoding', 'addr_bech32_to_pubkeyhash', 'prefix != bech[:pos]', 'not bech.startswith(prefix)', 'expected prefix only has to be a leading substring'),
    mut.replace_expr('encoding', 'addr_bech32_to_pubkeyhash', 'prefix != bech[:pos]', 'prefix not in bech[:pos]', 'expected prefix only has to occur in the human readable part'),
    mut.replace_expr('encoding', 'addr_bech32_to_pubkeyhash', "bech.rfind('1')", "bech.find('1')", 'separator is the first 1 instead of the last'),
])
def hrp_guard(ctx):
    """addr_bech32_to_pubkeyhash evaluated on concrete strings up to the charset decoding: with an expected prefix the data part is
    decoded only when the human readable part EQUALS it (bcrt1... is not a bc address, tb1... not a t address), case-folded as BIP173
    prescribes, and the data part is exactly what follows the LAST separator."""
    q = 'encoding:addr_bech32_to_pubkeyhash'
    fn = ctx.repo.func(q)
    tail = 'qw508d6qejxtdg4y5r3zarvary0c5xw7kv8f3t4'
    cases = [('bcrt1' + tail, 'bc', None), ('bc1' + tail, 'bc', tail), (('bc1' + tail).upper(), 'bc', tail), ('tb1' + tail, 't', None), ('tb1' + tail, 'tb', tail),
             ('bc1' + tail, 'tb', None), ('ltc1' + tail, 'lt', None), ('bc1' + tail, 'b', None), ('bc1' + tail, 'bc1', None), ('tltc1' + tail, 'ltc', None),
             ('bc1' + tail, None, tail), ('bcrt1' + tail, None, tail), ('a1b1' + tail, 'a', None), ('a1b1' + tail, 'a1b', tail)]
    n = 0
    for bech, prefix, want in cases:
        reached = []

        def hook(it, args, kwargs, st, node):
            reached.append(term(args[0]) if args else None)
            return S(('var', 'data'), 'list')
        it = Interp(ctx.repo, 'encoding', hooks={'_codestring_to_array': hook})
        try:
            exits = it.run_function(fn, {'bech': bech, 'prefix': prefix, 'include_witver': False, 'as_hex': False})
        except AnalysisError as e:
            if not reached:
                ctx.undecided('addr_bech32_to_pubkeyhash(%r, prefix=%r) not evaluable up to the charset decoding: %s' % (bech[:8] + '...', prefix, str(e)[:80]))
            exits = []
        if not reached and any(e.pc for e in exits):
            ctx.undecided('addr_bech32_to_pubkeyhash(%r, prefix=%r): the outcome before decoding depends on %s' % (bech[:8] + '...', prefix, [show(t)[:60] for e in exits for t, _ in e.pc][:2]))
        n += 1
        ctx.saw('%s... with expected prefix %r -> %s' % (bech[:6], prefix, 'decodes %r' % (reached[0],) if reached else 'refused before decoding'))
        if want is None:
            ctx.require(not reached, q, 'the string %s... (human readable part %r) passes the guard for the expected prefix %r and is decoded' % (bech[:8], bech.lower()[:bech.rfind('1')], prefix), fn,
                        'an address of another network whose prefix merely starts with the expected one is verified against its own prefix and its payload returned')
        else:
            ctx.require(bool(reached) and reached[0] == want, q, 'the string %s... with expected prefix %r %s' % (bech[:8], prefix, 'hands %r to the charset decoding instead of the part after the last separator' % (reached[0],) if reached else 'is refused before decoding (or the charset decoding helper is no longer called)'), fn)
    ctx.floor(n, 14, 'prefix scenarios')


@PROP.obligation('C11.version', canaries=[
    mut.drop_stmt('keys', 'Key.__init__', 'if not len(found_networks)', 'Key.__init__: unknown WIF version byte accepted'),
    mut.drop_stmt('keys', 'HDKey.from_wif', 'if not prefix_data', 'HDKey.from_wif: unknown prefix accepted'),
    mut.drop_stmt('keys', 'deserialize_address', 'if network not in networks', 'deserialize_address: network filter not enforced'),
])
def version(ctx):
    """Unknown version byte / extended-key prefix raises (Key.__init__ WIF branch, HDKey.from_wif); deserialize_address with
    network= raises when the decoded prefix does not belong to that network."""
    repo = ctx.repo
    def has_raise_on(q, cls, args, pred, what):
        fn = repo.func(q)
        it = Interp(repo, q.split(':')[0], hooks=LAYOUT_HOOKS, self_cls=cls)
        exits = it.run_function(fn, args)
        hit = [e for e in exits if e.kind.startswith('raise') and any(pred(t, pol) for t, pol in e.pc)]
        ctx.saw('%s: raises guarded by %s: %d' % (q, what, len(hit)))
        ctx.require(bool(hit), q, 'no raise when %s' % what, fn, 'an unknown version/prefix is silently interpreted')
    def empty_lookup(table):
        def pred(t, pol):
            neg = False
            while isinstance(t, tuple) and t and t[0] == 'not':
                t, neg = t[1], not neg
            if isinstance(t, tuple) and t[0] == 'len':
                t = t[1]
            is_lookup = isinstance(t, tuple) and t[0] == 'call' and t[1] in ('network_by_value', 'wif_prefix_search') and (table is None or (t[2] and t[2][0] == table))
            return is_lookup and (pol is False) != neg
        return pred
    has_raise_on('keys:Key.__init__', 'keys:Key', {'import_key': S(('var', 'import_key'), 'str')}, empty_lookup('prefix_wif'), 'the WIF version byte is in no network definition')
    has_raise_on('keys:HDKey.from_wif', None, {'wif': S(('var', 'wif'), 'str')}, empty_lookup(None), 'the extended-key prefix is in no network definition')
    def not_in_networks(t, pol):
        return isinstance(t, tuple) and t[0] == 'cmp' and ((t[1] == 'not in' and pol) or (t[1] == 'in' and not pol)) and t[2] == ('var', 'network')
    has_raise_on('keys:deserialize_address', None, {'address': S(('var', 'address'), 'str'), 'encoding': 'base58', 'network': S(('var', 'network'), 'str')}, not_in_networks,
                 'the address prefix does not belong to the requested network')


@PROP.obligation('C11.encode', canaries=[
    mut.replace_expr('encoding', 'pubkeyhash_to_addr_base58', 'double_sha256(key)[:4]', 'double_sha256(key)[:3]', 'address encoder: 3-byte checksum'),
    mut.replace_expr('encoding', 'base58encode', "'1' * padding_zeros + string", 'string', 'base58encode: leading zero bytes dropped'),
    mut.replace_expr('keys', 'Key.wif', 'double_sha256(key)[:4]', 'hashlib.sha256(key).digest()[:4]', 'Key.wif: single sha256 checksum'),
])
def encode(ctx):
    """Encoders: pubkeyhash_to_addr_base58, Key.wif, HDKey.wif, bip38_encrypt build base58(body . double_sha256(body)[:4]);
    base58encode prefixes one '1' per leading zero byte."""
    repo = ctx.repo
    def check_b58(q, cls, args, decide=None):
        fn = repo.func(q)
        it = Interp(repo, q.split(':')[0], hooks=LAYOUT_HOOKS, self_cls=cls, decide=decide)
        exits = it.run_function(fn, args)
        n = 0
        for e in exits:
            if e.kind != 'return' or e.value is None:
                continue
            for s in subterms(('w', normalize(plus_to_cat(term(e.value))))):
                if isinstance(s, tuple) and s[0] in ('call', 'mcall') and (s[1] == 'base58encode' or (s[0] == 'call' and s[1] == 'change_base' and len(s[2]) >= 3 and s[2][2] == 58)):
                    body = flatten_cat(s[2][0]) if s[0] == 'call' else []
                    if not body:
                        continue
                    n += 1
                    chk = body[-1]
                    pre = ('cat', tuple(body[:-1])) if len(body) > 2 else body[0]
                    ok = chk == ('slice', ('hash', 'dsha256', pre), None, 4, None)
                    ctx.saw('%s: base58(%s . %s)' % (q, show(pre)[:70], show(chk)[:70]))
                    ctx.require(ok, q, 'encoded string ends with %s, expected double_sha256(body)[:4] of the %d preceding part(s)' % (show(chk)[:90], len(body) - 1), e.node,
                                'strings produced by the library fail Base58Check verification elsewhere')
        if not n:
            ctx.undecided('%s: no base58 encoding found in the returned value' % q)
    check_b58('encoding:pubkeyhash_to_addr_base58', None, {'pubkeyhash': S(('var', 'pubkeyhash'), 'bytes'), 'prefix': S(('var', 'prefix'), 'bytes')})
    check_b58('keys:Key.wif', 'keys:Key', {'prefix': S(('var', 'prefix'), 'bytes')})
    check_b58('keys:HDKey.wif', 'keys:HDKey', {'is_private': True, 'prefix': S(('var', 'prefix'), 'bytes')})
    q = 'encoding:base58encode'
    fn = repo.func(q)
    it = Interp(repo, 'encoding')
    exits = it.run_function(fn, {'inp': S(('var', 'inp'), 'bytes')})
    rets = [e for e in exits if e.kind == 'return']
    v = term(rets[-1].value)
    ctx.saw('base58encode -> %s' % show(v)[:200])
    stripped = ('mcall', ('var', 'inp'), 'lstrip', (b'\x00',), ())
    pad = ('binop', '*', '1', ('binop', '-', ('len', ('var', 'inp')), ('len', stripped)))
    parts = flatten_cat(plus_to_cat(v))
    ctx.require(bool(parts) and parts[0] == pad, q, "result does not start with '1' * (number of leading zero bytes): %s" % show(v)[:160], fn,
                'payloads with leading zero bytes (every P2PKH mainnet address) are encoded wrongly')


DECODERS = ('deserialize_address', 'addr_bech32_to_pubkeyhash', 'addr_base58_to_pubkeyhash', 'addr_to_pubkeyhash', 'addr_bech32_checksum')
FOLDING = ('lower', 'upper', 'casefold', 'swapcase', 'title', 'capitalize', 'strip', 'lstrip', 'rstrip', 'replace')


@PROP.obligation('C11.no-prenormalise', canaries=[
    mut.insert_before('keys', 'Address.parse', 'addr_dict = deserialize_address', 'address = address.lower()', 'Address.parse lower-cases the address before decoding'),
    mut.replace_expr('transactions', 'Output.__init__', 'deserialize_address(self._address, network=network.name)', 'deserialize_address(self._address.strip(), network=network.name)', 'Output strips the address before decoding') if False else
    mut.insert_before('keys', 'deserialize_address', "if encoding is None or encoding == 'base58'", 'address = address.strip()', 'deserialize_address strips the string before validation'),
    mut.insert_before('encoding', 'change_base', 'if not min_length:', 'if base_from == 58:\n    inp = inp.rstrip()', 'the Base58 decoder strips trailing white space', nth=0),
])
def no_prenormalise(ctx):
    """No caller (and no decoder before its own validation) case-folds or strips the text handed to an address decoder:
    the mixed-case / character checks must see the caller's string. (addr_bech32_to_pubkeyhash may lower-case AFTER its own
    mixed-case test; that internal use is checked by C11.bech32-guards.)"""
    from ..dfa import ReachingDefs
    repo = ctx.repo
    n = 0
    for modname, m in sorted(repo.modules.items()):
        for fq, fn in sorted(m.functions.items()):
            calls = [c for c in calls_in(fn) if callee_name(c) in DECODERS and c.args]
            # inside a decoder, also look at the parameter itself at the first validation
            if not calls:
                continue
            rd = ReachingDefs(fn)
            for c in calls:
                n += 1
                nid = rd.node_of_ast(c)
                if nid is None:
                    continue
                leaves = rd.leaves(c.args[0], nid)
                folds = sorted(l[1] for l in leaves if l[0] == 'call' and l[1].split('.')[-1] in FOLDING)
                q = '%s:%s' % (modname, fq)
                if folds:
                    ctx.saw('%s: %s(%s) <- %s' % (q, callee_name(c), unparse(c.args[0]), folds))
                    if fq == 'addr_bech32_checksum' or fq == 'addr_bech32_to_pubkeyhash':
                        continue
                    ctx.violate(q, 'the text passed to %s() was normalised by %s first' % (callee_name(c), ', '.join(folds)), c,
                                'mixed-case or padded strings are silently repaired and accepted instead of rejected')
    ctx.saw('%d decoder call sites inspected' % n, n)
    ctx.floor(n, 8, 'decoder call sites')
    # the decoders themselves: the parameter must not be re-bound through a folding call before the first raise-guard
    # ... and the Base58 decoder every Base58Check consumer goes through (change_base(x, 58, ...)): its working copy of the text
    for q, param in (('keys:deserialize_address', 'address'), ('encoding:addr_base58_to_pubkeyhash', 'address'), ('encoding:change_base', 'inp'), ('encoding:change_base', 'chars')):
        fn = repo.func(q)
        for node in walk_no_nested(fn):
            if isinstance(node, ast.Assign) and any(isinstance(t, ast.Name) and t.id == param for t in node.targets):
                v = node.value
                if isinstance(v, ast.Call) and isinstance(v.func, ast.Attribute) and v.func.attr in FOLDING:
                    ctx.violate(q, 'parameter %s is re-bound to %s before validation' % (param, norm(v)), node,
                                'padded / case-changed strings are silently repaired and accepted')


from . import c05 as _c05
PROP.obligation('C11.network-lookup', canaries=[
    mut.replace_expr('networks', 'network_by_value', 'NETWORK_DEFINITIONS[nv][field] == value', 'NETWORK_DEFINITIONS[nv][field].upper() == value.upper()', 'human-readable parts matched case-insensitively', nth=0),
])(_c05.network_by_value_exact)


@PROP.obligation('C11.address-payload-length', canaries=[
    mut.drop_stmt('keys', 'deserialize_address', 'if script_type and len(public_key_hash) != 20', 'base58 addresses of any payload length accepted'),
    mut.const('keys', 'deserialize_address', 20, 21, 'payload length limit 20 -> 21'),
])
def address_payload_length(ctx):
    """A Base58Check address is version byte + 20-byte hash + checksum. keys.deserialize_address (behind Address.parse and every address
    argument of transactions and wallets) is evaluated - the Base58 decoding and the hash replaced by values that make the checksum
    match - for payloads of 10, 19, 20, 21 and 32 bytes under a P2PKH and a P2SH version byte: only 20 bytes give an address; the
    encoding-level decoder addr_base58_to_pubkeyhash already refuses the others."""
    q = 'keys:deserialize_address'
    fn = ctx.repo.func(q)
    n = 0
    for ver, stype in ((b'\x00', 'p2pkh'), (b'\x05', 'p2sh')):
        for L in (10, 19, 20, 21, 32):
            payload = ver + b'\x11' * L
            hooks = {'change_base': lambda it, a, kw, st, node, _p=payload: _p + b'CCCC',
                     'double_sha256': lambda it, a, kw, st, node: b'CCCC' + b'\x00' * 28,
                     'network_by_value': lambda it, a, kw, st, node, _v=ver: (['bitcoin'] if (a[0], a[1]) in (('prefix_address', '00'), ('prefix_address_p2sh', '05')) and a[1] == _v.hex() else [])}
            it = Interp(ctx.repo, 'keys', hooks=hooks)
            try:
                exits = it.run_function(fn, {'address': 'X' * 30, 'encoding': None, 'network': None})
            except AnalysisError as e:
                ctx.undecided('deserialize_address not evaluable for a %d-byte %s payload: %s' % (L, stype, str(e)[:100]))
            kinds = sorted(set(e.kind for e in exits if not e.pc))
            if any(e.pc for e in exits) and not kinds:
                ctx.undecided('deserialize_address for a %d-byte %s payload: outcome depends on %s' % (L, stype, [show(t)[:40] for e in exits for t, _ in e.pc][:2]))
            accepted = [e for e in exits if e.kind == 'return' and isinstance(e.value, dict) and not e.pc]
            n += 1
            ctx.saw('%s version, %d-byte payload -> %s' % (stype, L, 'address' if accepted else kinds))
            if L == 20:
                ctx.require(bool(accepted) and accepted[0].value.get('script_type') == stype, q, 'a well-formed %s address (20-byte hash) is %s' % (stype, 'refused' if not accepted else accepted[0].value.get('script_type')), fn)
            else:
                ctx.require(not accepted, q, 'a Base58Check string with a %s version byte and a %d-byte payload is accepted as an address' % (stype, L), fn,
                            'Address.parse accepts (and re-encodes identically) strings that are not addresses: a truncated or extended hash, or a 33-byte WIF-sized payload under the P2SH version')
    ctx.floor(n, 10, 'payload scenarios')


@PROP.obligation('C11.wif-payload-length', canaries=[
    mut.drop_stmt('keys', 'Key.__init__', 'if len(key_byte) != 32', 'WIF payloads of any length accepted'),
])
def wif_payload_length(ctx):
    """A WIF string is version byte + 32-byte key (+ 01 for the compressed form) + checksum. The WIF branch of Key.__init__ is evaluated -
    Base58 decoding and hash replaced by values that make the checksum match - for payloads of 10, 31, 32, 33 (ending 01 and ending 02)
    and 34 bytes: the branch ends with a 32-byte private key or a refusal, never with a key of another length."""
    q = 'keys:Key.__init__'
    fn = ctx.repo.func(q)
    blks = [n for n in ast.walk(fn) if isinstance(n, ast.If) and "'wif'" in unparse(n.test) and 'self.key_format' in unparse(n.test) and any('change_base' in unparse(x) for x in n.body)]
    if len(blks) != 1:
        ctx.undecided('Key.__init__: WIF import branch not found (%d candidates)' % len(blks))
    n = 0
    sec = bytes(range(1, 33))
    for payload, want in ((sec[:10], None), (sec[:31], None), (sec, 32), (sec + b'\x01', 32), (sec + b'\x02', None), (sec + b'\x01\x01', None)):
        raw = b'\x80' + payload
        hooks = {'change_base': lambda it, a, kw, st, node, _p=raw: _p + b'CCCC', 'double_sha256': lambda it, a, kw, st, node: b'CCCC' + b'\x00' * 28,
                 'network_by_value': lambda it, a, kw, st, node: ['bitcoin']}
        it = Interp(ctx.repo, 'keys', hooks=hooks, self_cls='keys:Key')
        st = State(env={'self': S(('var', 'self')), 'import_key': 'W' * 51})
        it.frames.append([])
        try:
            end = it.exec_block(blks[0].body, st)
        except AnalysisError as e:
            ctx.undecided('Key.__init__: WIF branch not evaluable for a %d-byte payload: %s' % (len(payload), str(e)[:100]))
        n += 1
        kb = None if end is None else end.env.get('key_byte')
        ctx.saw('WIF payload of %d bytes%s -> %s' % (len(payload), ' ending %02x' % payload[-1] if len(payload) > 32 else '', 'refused' if end is None else 'private key of %s bytes' % (len(kb) if isinstance(kb, bytes) else show(term(kb))[:30])))
        if want is None:
            ctx.require(end is None, q, 'a WIF string whose payload has %d bytes%s is imported as a private key of %s bytes' % (len(payload), ' (not ending in the compression flag 01)' if len(payload) == 33 else '', len(kb) if isinstance(kb, bytes) else '?'), blks[0],
                        'Key(<Base58Check of 80 + 31 bytes>) is a key object with a 31-byte secret; 80 + 32 bytes + 02 gives a 33-byte "secret"')
        else:
            ctx.require(end is not None and isinstance(kb, bytes) and len(kb) == want, q, 'a well-formed WIF payload of %d bytes is %s' % (len(payload), 'refused' if end is None else 'imported with %s bytes' % (len(kb) if isinstance(kb, bytes) else '?')), blks[0])
    ctx.floor(n, 6, 'WIF payload scenarios')


PROP.obligation('C11.witness-version-decoded', canaries=[
    mut.replace_expr('keys', 'deserialize_address', "'p2wsh' if not witver else 'p2tr'", "'p2wsh'", 'a 32-byte program of version 1..16 re-encodes as a version-0 address'),
])(_c05.deser)


@PROP.obligation('C11.convert-keeps-version', canaries=[
    mut.replace_expr('keys', 'addr_convert', "pubkeyhash_to_addr(pkh, prefix=prefix, encoding=to_encoding, witver=da['witver'] or 0)", 'pubkeyhash_to_addr(pkh, prefix=prefix, encoding=to_encoding)', 'converted addresses are always witness version 0'),
])
def convert_keeps_version(ctx):
    """keys.addr_convert (behind Address.with_prefix and the provider-prefix override of Address) decodes an address and encodes the
    payload again. Evaluated on a decoded Bech32m address of witness version 1 and 16 and on a version-0 one: the encoder is handed
    the witness version that was decoded. Without it bc1p... comes back as a version-0 bc1q... string - another address, although
    decoding followed by re-encoding must return the identical string."""
    q = 'keys:addr_convert'
    fn = ctx.repo.func(q)
    n = 0
    for witver in (0, 1, 16):
        seen = []
        hooks = {'deserialize_address': lambda it, a, kw, st, node, witver=witver: {'encoding': 'bech32', 'witver': witver, 'prefix': 'bc', 'network': 'bitcoin'},
                 'addr_to_pubkeyhash': lambda it, a, kw, st, node: S(('var', 'pkh'), 'bytes'),
                 'pubkeyhash_to_addr': lambda it, a, kw, st, node: (seen.append((a, kw)), S(('var', 'new_address'), 'str'))[1]}
        it = Interp(ctx.repo, 'keys', hooks=hooks)
        for enc in (None, 'bech32'):
            del seen[:]
            try:
                it.run_function(fn, {'addr': S(('var', 'addr'), 'str'), 'prefix': 'tb', 'encoding': enc, 'to_encoding': None})
            except AnalysisError as e:
                ctx.undecided('addr_convert not evaluable: %s' % str(e)[:100])
            if len(seen) != 1:
                ctx.undecided('addr_convert: %d calls of pubkeyhash_to_addr, expected 1' % len(seen))
            a, kw = seen[0]
            got = kw.get('witver', a[3] if len(a) > 3 else 0)
            got = got if isinstance(got, int) else show(term(got))
            n += 1
            ctx.saw('addr_convert(<witness version %d address>, encoding=%r) -> pubkeyhash_to_addr(..., witver=%s)' % (witver, enc, got))
            ctx.require(got == witver, q, 'an address of witness version %d (encoding=%r) is encoded again with witness version %s' % (witver, enc, got), fn,
                        "addr_convert('bc1p5cyxnuxmeuwuvkwfem96lqzszd02n6xdcjrs20cac6yqjjwudpxqkedrcr', 'bc') returns the version-0 address bc1q5cyx...: Address(..., network_overrides=...) silently turns a taproot address into a P2WSH one")
    ctx.floor(n, 6, 'conversion scenarios')


@PROP.obligation('C11.xprv-marker-byte', canaries=[
    mut.Canary('the byte in front of the secret of an extended private key is skipped unseen', 'keys', lambda tree: _skip_marker(tree)),
])
def xprv_marker_byte(ctx):
    """An extended private key is version . depth . fingerprint . child . chain . 00 . secret . checksum: the byte in front of the secret
    is 0x00 in the one canonical encoding (BIP32 test vector 5 lists "invalid prvkey prefix 04 / 01" as strings that must be refused).
    The extended-key branch of HDKey.__init__ is evaluated on a payload with a PRIVATE version and the marker byte 0x01 / 0x04 in front
    of 32 key bytes: it does not continue as a private key made of those 32 bytes (it raises, or - as on the reference tree - hands the
    33 bytes on as a public key, which Key() then refuses). Accepting it maps a non-canonical string to the payload of the canonical one."""
    from .. import seg
    from ..layout import canon_layout
    SELF = ('var', 'self')
    fn = ctx.repo.func('keys:HDKey.__init__')
    blks = [n for n in ast.walk(fn) if isinstance(n, ast.If) and "'hdkey_private'" in unparse(n.test) and "'hdkey_public'" in unparse(n.test)]
    if len(blks) != 1:
        ctx.undecided('HDKey.__init__: extended key branch not found')
    B = ('call', 'change_base', (('var', 'wif'), 58, 256), ())
    n = 0
    for marker in (b'\x01', b'\x04', b'\x00'):
        lay = [b'\x04\x88\xad\xe4', ('depth', 1), ('parent_fingerprint', 4), ('child_index', 4), ('chain', 32), marker, ('secret', 32), ('checksum', 4)]
        it = Interp(ctx.repo, 'keys', hooks=dict(LAYOUT_HOOKS), self_cls='keys:HDKey')
        st = State(env={'self': S(SELF), 'import_key': S(('var', 'wif'), 'str'), 'is_private': True,
                        'kf': {'format': 'hdkey_private', 'is_private': True, 'networks': ['bitcoin'], 'script_types': [], 'witness_types': ['segwit'], 'multisig': [False]}})
        it.frames.append([])
        try:
            end = it.exec_block(blks[0].body, st)
        except AnalysisError as e:
            ctx.undecided('HDKey.__init__: extended key branch not evaluable: %s' % str(e)[:100])
        it.frames.pop()
        if end is None:
            ctx.undecided('HDKey.__init__: extended key branch always raises')
        env = {B: seg.seg(*lay)}
        try:
            key = end.env.get('key')
            key = seg.seg_eval(canon_layout(term(key)) if isinstance(key, S) else key, env)
            ip = end.env.get('is_private')
            ip = seg.seg_eval(term(ip), env) if isinstance(ip, S) else ip
        except seg.SegUnknown as e:
            ctx.undecided('HDKey.__init__: outcome for marker byte %s not evaluable: %s' % (marker.hex(), e))
        n += 1
        as_private_secret = (ip is True or ip == 1) and key == seg.seg(('secret', 32))
        ctx.saw('private version, marker byte %s: is_private=%s, key=%s' % (marker.hex(), ip, seg.fmt(key) if seg.is_seg(key) else key))
        if marker == b'\x00':
            ctx.require(as_private_secret, 'keys:HDKey.__init__', 'the canonical layout (marker 00) is read as is_private=%s, key=%s' % (ip, seg.fmt(key) if seg.is_seg(key) else key), blks[0])
        else:
            ctx.require(not as_private_secret, 'keys:HDKey.__init__', 'an extended private key whose marker byte is %s instead of 00 is imported as the private key of its last 32 bytes' % marker.hex(), blks[0],
                        "HDKey('xprv...') accepts BIP32 test vector 5 'invalid prvkey prefix 04': a non-canonical string is mapped to the payload of another string and wif_private() re-encodes it differently")
    ctx.floor(n, 3, 'marker bytes')


def _skip_marker(tree):
    for cls in tree.body:
        if isinstance(cls, ast.ClassDef) and cls.name == 'HDKey':
            for f in cls.body:
                if isinstance(f, ast.FunctionDef) and f.name == '__init__':
                    for i_ in ast.walk(f):
                        if isinstance(i_, ast.If) and norm(i_.test) == 'ord(bkey[45:46])':
                            i_.test = ast.parse("not kf['is_private']", mode='eval').body
                            return True
    return False


@PROP.obligation('C11.requested-encoding-raises', canaries=[
    mut.drop_stmt('encoding', 'addr_to_pubkeyhash', "if encoding == 'base58'", 'an invalid base58 address decodes to None when base58 is requested', nth=1),
])
def requested_encoding_raises(ctx):
    """encoding.addr_to_pubkeyhash(address, encoding=E) tries the Base58 decoder and falls back to Bech32 only when NO encoding was
    requested. With encoding='base58' the error of the Base58 decoder (wrong checksum, unknown character, wrong length) is the answer:
    the handler that swallows it for the fallback re-raises under `encoding == 'base58'`, or the function ends in a raise - it never
    falls off its end and returns None, which callers take for "no payload" instead of "invalid string"."""
    q = 'encoding:addr_to_pubkeyhash'
    fn = ctx.repo.func(q)
    handlers = [h for t in ast.walk(fn) if isinstance(t, ast.Try) and any(isinstance(c, ast.Call) and norm(c.func) == 'addr_base58_to_pubkeyhash' for s_ in t.body for c in ast.walk(s_)) for h in t.handlers]
    if not handlers:
        ctx.saw('the Base58 decoder is called outside a try block: its error propagates')
        return
    ends_in_raise = isinstance(fn.body[-1], ast.Raise)
    n = 0
    for h in handlers:
        n += 1
        reraises = any(isinstance(i_, ast.If) and 'encoding' in norm(i_.test) and 'base58' in norm(i_.test) and any(isinstance(x, ast.Raise) for x in i_.body) for i_ in ast.walk(h)) or \
            any(isinstance(x, ast.Raise) for x in h.body)
        ctx.saw('handler `except %s`: re-raises for encoding base58: %s; function ends in a raise: %s' % (norm(h.type) if h.type is not None else '', reraises, ends_in_raise))
        ctx.require(reraises or ends_in_raise, q, 'the error of the Base58 decoder is swallowed also when encoding=\'base58\' was requested, and the function then returns None', h,
                    "addr_to_pubkeyhash('1A1zP1eP5QGefi2DMPTfTL5SLmv7DivfNb', encoding='base58') - a wrong checksum - returns None instead of raising")
    ctx.floor(n, 1, 'handlers')
