"""Shared obligation: positional arguments bound to the parameter of another name (engine sa/argsel.py)."""
import ast
import os

from ..core import AnalysisError, VERIF_DIR, ModuleInfo, norm
from .. import argsel


def _selftest(ctx):
    path = os.path.join(VERIF_DIR, 'fixtures', 'argsel_calls.py')
    src = open(path).read()
    mi = ModuleInfo('fixture', 'fixtures/argsel_calls.py', src, ast.parse(src))

    class R:
        modules = {'fixture': mi}
    by = argsel.index_functions(R)
    res = {q.split('.')[1]: bool(argsel.scan_function(R, by, 'fixture', q, f)) for q, f in mi.functions.items() if q.startswith('Fixture.') and q != 'Fixture.derive'}
    if res != {'bad': True, 'good': False, 'good_positional': False}:
        raise AnalysisError('ARGSEL fixtures classified %s' % res)
    res2 = {q.split('.')[1]: bool(argsel.scan_keyed(R, by, 'fixture', q, f)) for q, f in mi.functions.items() if q.startswith('KeyedFixture.') and q != 'KeyedFixture.check'}
    if res2 != {'bad_keyed': True, 'good_keyed': False}:
        raise AnalysisError('ARGSEL keyed fixtures classified %s' % res2)
    res.update(res2)
    ctx.saw('argument-binding self-test on fixtures: %s' % res)


def arg_binding(ctx, modules, why):
    _selftest(ctx)
    by = argsel.index_functions(ctx.repo)
    n = calls = 0
    for modname in modules:
        m = ctx.repo.mod(modname)
        for q, f in m.functions.items():
            n += 1
            calls += sum(1 for c in ast.walk(f) if isinstance(c, ast.Call) and len(c.args) >= 2)
            for c, name, bad in argsel.scan_function(ctx.repo, by, modname, q, f):
                a, p, i = bad[0]
                ctx.violate('%s:%s' % (modname, q), 'in `%s` the positional argument `%s` (position %d) is bound to parameter `%s` of %s, which also has a parameter `%s`' % (norm(c)[:90], a, i + 1, p, name, a), c, why)
            for c, name, bad in argsel.scan_keyed(ctx.repo, by, modname, q, f):
                a, p, i = bad[0]
                ctx.violate('%s:%s' % (modname, q), 'in `%s` the value taken from key %r (position %d) is bound to parameter `%s` of %s, which has another parameter named after that key' % (norm(c)[:110], a, i + 1, p, name), c, why)
    ctx.saw('%d functions, %d calls with two or more positional arguments checked' % (n, calls))
