"""Obligation bodies shared by C02 and C13 (signature range checks, fastecdsa argument roles)."""
import ast

from ..sym import Interp, S, term, show, subterms
from .. import intv

N = 0xFFFFFFFFFFFFFFFFFFFFFFFFFFFFFFFEBAAEDCE6AF48A03BBFD25E8CD0364141
P = 0xFFFFFFFFFFFFFFFFFFFFFFFFFFFFFFFFFFFFFFFFFFFFFFFFFFFFFFFEFFFFFC2F
GX = 0x79BE667EF9DCBBAC55A06295CE870B07029BFCDB2DCE28D959F2815B16F81798
GY = 0x483ADA7726A3C4655DA4FBFC0E1108A8FD17B448A68554199C47D08FFB10D4B8
SELF = ('var', 'self')


def fast(v):
    def decide(t):
        if t == ('global', 'USE_FASTECDSA'):
            return v
        return None
    return decide


def sigrange(ctx):
    """keys.Signature.__init__ raises unless 1 <= r < n and 1 <= s < n (exact interval partition)."""
    q = 'keys:Signature.__init__'
    fn = ctx.repo.func(q)
    it = Interp(ctx.repo, 'keys', self_cls='keys:Signature', decide=fast(True))
    R, Sv = ('var', 'r'), ('var', 's')
    exits = it.run_function(fn, {'r': S(R, 'int'), 's': S(Sv, 'int')})
    for var, other, name in ((R, Sv, 'r'), (Sv, R, 's')):
        pts = intv.breakpoints(exits, -2, N + 2, extra=[0, 1, N])
        for p in pts:
            feas = [e for e in exits if intv.exit_feasible(e, {var: p, other: 5})]
            kinds = set(e.kind for e in feas)
            if p in (0, 1, N - 1, N):
                ctx.saw('Signature(%s=%s): exits %s' % (name, 'n%+d' % (p - N) if p > 10 else p, sorted(kinds)))
            valid = 1 <= p < N
            if not valid and 'return' in kinds:
                ctx.violate(q, '%s = %s is accepted (outside [1, n-1])' % (name, 'n%+d' % (p - N) if p > 10 else p), fn,
                            'ECDSA verification must reject r, s outside [1, n-1]')
            if valid and 'return' not in kinds:
                ctx.violate(q, 'valid %s = %s is refused' % (name, 'n%+d' % (p - N) if p > 10 else p), fn)
    # the constants themselves
    consts = ctx.repo.consts('keys')
    ctx.require(consts.get('secp256k1_n') == N, 'config.secp256k1:secp256k1_n', 'curve order constant differs from SEC2 secp256k1 n')


SIGN_ROLES = ['digest', 'd', 'k', 'p', 'a', 'b', 'n', 'Gx', 'Gy']
VERIFY_ROLES = ['r', 's', 'digest', 'Qx', 'Qy', 'p', 'a', 'b', 'n', 'Gx', 'Gy']
CURVE = {'p': P, 'a': 0, 'b': 7, 'n': N, 'Gx': GX, 'Gy': GY}


def _strip_str(t):
    from ..sym import rewrite
    t = rewrite(t, lambda x: ('var', x[1]) if isinstance(x, tuple) and len(x) == 2 and x[0] == 'global' else None)
    if isinstance(t, tuple) and t and t[0] == 'str':
        return t[1]
    if isinstance(t, str) and t.isdigit():
        return int(t)
    return t


def argorder(ctx):
    """Every direct _ecdsa.sign / _ecdsa.verify call passes (digest, d, k, p, a, b, n, Gx, Gy) resp.
    (r, s, digest, Qx, Qy, p, a, b, n, Gx, Gy) — the positional roles of fastecdsa's C extension (fastecdsa/ecdsa.py) —
    with the SEC2 secp256k1 constants."""
    repo = ctx.repo
    consts = repo.consts('keys')
    for name, exp in (('secp256k1_p', P), ('secp256k1_n', N), ('secp256k1_a', 0), ('secp256k1_b', 7), ('secp256k1_Gx', GX), ('secp256k1_Gy', GY)):
        ctx.require(consts.get(name) == exp, 'config.secp256k1:' + name, 'curve constant %s differs from SEC2 secp256k1' % name)
    found = 0
    for modname, m in repo.modules.items():
        for fq, fn in m.functions.items():
            for call in [c for c in ast.walk(fn) if isinstance(c, ast.Call) and isinstance(c.func, ast.Attribute)
                         and isinstance(c.func.value, ast.Name) and c.func.value.id == '_ecdsa' and c.func.attr in ('sign', 'verify')]:
                found += 1
                q = '%s:%s' % (modname, fq)
                roles = SIGN_ROLES if call.func.attr == 'sign' else VERIFY_ROLES
                if len(call.args) != len(roles) or call.keywords:
                    ctx.violate(q, '_ecdsa.%s called with %d positional arguments, the extension takes %d' % (call.func.attr, len(call.args), len(roles)), call)
                    continue
                it = Interp(repo, modname)
                from ..sym import State
                st = State(env={})
                vals = [_strip_str(term(it.eval(a, st))) for a in call.args]
                ctx.saw('%s: _ecdsa.%s(%s)' % (q, call.func.attr, ', '.join(show(v)[:24] for v in vals)))
                for role, v in zip(roles, vals):
                    if role in CURVE:
                        if v != CURVE[role]:
                            ctx.violate(q, '_ecdsa.%s argument for %s is %s, expected the secp256k1 constant' % (call.func.attr, role, show(v)[:60]), call)
                want = {'r': ('attr', SELF, 'r'), 's': ('attr', SELF, 's'), 'Qx': ('attr', SELF, 'x'), 'Qy': ('attr', SELF, 'y'),
                        'digest': ('attr', SELF, 'txid')}
                if call.func.attr == 'verify' and fq == 'Signature.verify':
                    for role, v in zip(roles, vals):
                        if role in want and v != want[role]:
                            ctx.violate(q, '_ecdsa.verify argument for %s is %s, expected %s' % (role, show(v), show(want[role])), call,
                                        'swapped or foreign operands make the verifier check a different equation')
                if call.func.attr == 'sign' and fq == 'Signature.create':
                    wants = {'digest': ('var', 'txid'), 'd': ('var', 'secret'), 'k': ('var', 'k')}
                    for role, v in zip(roles, vals):
                        if role in wants and v != wants[role]:
                            ctx.violate(q, '_ecdsa.sign argument for %s is %s, expected local %s' % (role, show(v), wants[role][1]), call)
    ctx.floor(found, 2, 'direct _ecdsa.sign/_ecdsa.verify calls')


def verify_args(ctx):
    """Signature.verify(txid, public_key): when the caller supplies a digest / a public key, the operands handed to the ECDSA
    verifier derive from THOSE arguments (through the txid / public_key setters), not from values remembered on the object."""
    q = 'keys:Signature.verify'
    fn = ctx.repo.func(q)

    def decide(t):
        if t == ('global', 'USE_FASTECDSA'):
            return True
        if t == ('cmp', 'is not', ('var', 'public_key'), None) or t == ('cmp', 'is not', ('var', 'txid'), None):
            return True
        if t == ('cmp', 'is', ('var', 'public_key'), None) or t == ('cmp', 'is', ('var', 'txid'), None):
            return False
        # to_hexstring() returns a string for every input it accepts (it raises otherwise), never None
        if isinstance(t, tuple) and t[0] == 'cmp' and t[1] in ('is not', 'is') and t[3] is None and isinstance(t[2], tuple) and t[2][:2] == ('call', 'to_hexstring'):
            return t[1] == 'is not'
        return None
    it = Interp(ctx.repo, 'keys', self_cls='keys:Signature', decide=decide)
    it.inline_setters = True
    calls = []
    it.obs_call = lambda name, base, args, kw, st, node: calls.append(([term(a) for a in args], node)) if base == '_ecdsa' and name == 'verify' else None
    it.run_function(fn, {'txid': S(('var', 'txid')), 'public_key': S(('var', 'public_key'))})
    if not calls:
        ctx.undecided('Signature.verify: _ecdsa.verify call not reached with both arguments given')
    for args, node in calls:
        if len(args) != 11:
            continue
        digest, qx, qy = args[2], args[3], args[4]
        for role, t, param, stale in (('digest', digest, 'txid', ('txid', '_txid')), ('Qx', qx, 'public_key', ('x', '_public_key')), ('Qy', qy, 'public_key', ('y', '_public_key'))):
            uses_arg = any(x == ('var', param) for x in subterms(('w', t)))
            olds = [x for x in subterms(('w', t)) if isinstance(x, tuple) and x[0] == 'attr' and x[1] == SELF and x[2] in stale]
            ctx.saw('verify(txid, public_key): %s operand derives from argument %s: %s; remembered attributes read: %s' % (role, param, uses_arg, [show(o) for o in olds]))
            if olds or not uses_arg:
                ctx.violate(q, 'with %s supplied, the %s operand of the verifier is %s: it can be the value remembered on the Signature object instead of the argument' % (param, role, show(t)[:120]), node,
                            'verify(other_digest) / verify(key=listed key) returns the verdict for a different (message, key) pair')
