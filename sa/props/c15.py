"""C15 BIP38: fresh entropy per generated key, wrong-passphrase guard, encrypt/decrypt parameter agreement."""
import ast
import os

from ..core import Property, unparse, norm, walk_no_nested, dotted, VERIF_DIR, fold, NotConst
from ..sym import Interp, S, term, show, subterms, State, flatten_cat
from ..layout import LAYOUT_HOOKS, normalize, plus_to_cat
from .. import mut

PROP = Property(
    'C15', 'BIP38: fresh entropy, address-hash guard, parameter/flag agreement',
    'Static: (1) no entropy source is evaluated in a default argument or at module level (package sweep, armed by a '
    'positive fixture) and the generators draw os.urandom inside the body when no seed is given; (2) every decrypt '
    'entry compares double_sha256(address)[:4] of the recovered key with the embedded address hash and raises before '
    'returning key material; (3) writer and reader agree on scrypt parameters, AES key halves, XOR halves and byte '
    'offsets; (4) every flag byte a writer emits is decoded by the reader to the same (lot/sequence, compressed) '
    'meaning. decrypt(encrypt(k)) == k as an equality of values is NOT decided (scrypt/AES are third-party).',
    ['scrypt, AES (Cryptodome) and os.urandom behave as documented'])

ENTROPY = ('os.urandom', 'random.', 'secrets.', 'time.', 'uuid.', 'SystemRandom', 'datetime.now', 'getrandbits')


def _entropy_calls(expr):
    out = []
    for n in ast.walk(expr):
        if isinstance(n, ast.Call):
            d = dotted(n.func) or unparse(n.func)
            if any(d.startswith(e) or ('.' + e) in d or d == e.rstrip('.') for e in ENTROPY):
                out.append(d)
    return out


def _sweep_tree(tree, label, report):
    n = 0
    for node in ast.walk(tree):
        if isinstance(node, (ast.FunctionDef, ast.AsyncFunctionDef, ast.Lambda)):
            a = node.args
            for d in list(a.defaults) + [x for x in a.kw_defaults if x is not None]:
                n += 1
                for c in _entropy_calls(d):
                    report(label, getattr(node, 'name', '<lambda>'), 'default argument `%s` calls %s: evaluated once at import, every call relying on the default reuses the same value' % (norm(d), c), node)
    for node in tree.body:
        if isinstance(node, (ast.Assign, ast.AnnAssign)) and getattr(node, 'value', None) is not None:
            n += 1
            for c in _entropy_calls(node.value):
                report(label, '<module>', 'module-level binding `%s` draws %s once per process' % (norm(node)[:80], c), node)
    return n


@PROP.obligation('C15.fresh', canaries=[
    mut.replace_stmt('keys', None, 'def bip38_create_new_encrypted_wif', 'def bip38_create_new_encrypted_wif(intermediate_passphrase, compressed=True, seed=os.urandom(24), network=DEFAULT_NETWORK):\n    pass', 'seed=os.urandom(24) default is back'),
    mut.replace_stmt('keys', 'bip38_intermediate_password', 'owner_salt = os.urandom(8)', 'owner_salt = _SALT', 'owner salt from a module-level constant'),
    mut.replace_stmt('keys', 'bip38_create_new_encrypted_wif', 'seed = os.urandom(24)', "seed = b'\\x00' * 24", 'seed defaults to a constant'),
])
def fresh(ctx):
    """No default-argument expression and no module-level binding in the package calls an entropy/time source
    (os.urandom, random.*, secrets.*, time.*); bip38_intermediate_password / bip38_create_new_encrypted_wif draw
    os.urandom(n) in the body on the path where no salt/seed was supplied."""
    repo = ctx.repo
    total = 0
    for modname, m in sorted(repo.modules.items()):
        def report(label, fname, detail, node, _m=modname):
            ctx.violate('%s:%s' % (_m, fname), detail, node, 'separate key-generation requests would yield the same key')
        total += _sweep_tree(m.tree, modname, report)
    ctx.saw('package sweep: %d default-argument / module-level expressions in %d modules' % (total, len(repo.modules)), total)
    ctx.floor(total, 300, 'default-argument / module-level expressions')
    # positive fixture keeps the rule armed
    fx = os.path.join(VERIF_DIR, 'fixtures', 'c15_default_entropy.py')
    hits = []
    _sweep_tree(ast.parse(open(fx).read()), 'fixture', lambda *a: hits.append(a))
    ctx.saw('positive fixture: %d hits' % len(hits))
    if len(hits) < 3:
        ctx.undecided('positive fixture fixtures/c15_default_entropy.py no longer triggers the rule (%d hits)' % len(hits))
    # fresh entropy is drawn in the body
    for q, param, nbytes in (('keys:bip38_intermediate_password', 'owner_salt', 8), ('keys:bip38_create_new_encrypted_wif', 'seed', 24)):
        fn = repo.func(q)
        it = Interp(repo, 'keys', hooks=LAYOUT_HOOKS)
        st = State(env={})
        args = {param: None}
        if param == 'owner_salt':
            args.update({'lot': None, 'sequence': None})
        exits = it.run_function(fn, args)
        rets = [e for e in exits if e.kind == 'return']
        if not rets:
            ctx.undecided('%s: no return path with %s=None' % (q, param))
        want = ('mcall', ('global', 'os'), 'urandom', (nbytes,), ())
        for e in rets:
            val = e.env.get(param) if e.env else None
            ts = list(subterms(('w', term(e.value)))) if e.value is not None else []
            has = any(s == want for s in ts)
            ctx.saw('%s(%s=None): result depends on os.urandom(%d): %s' % (q, param, nbytes, has))
            if not has:
                others = [s for s in ts if isinstance(s, tuple) and s[0] == 'mcall' and s[2] == 'urandom']
                ctx.violate(q, 'with %s=None the result does not depend on a fresh os.urandom(%d) draw%s' % (param, nbytes, (' (found %s)' % show(others[0])) if others else ''), fn,
                            'generated keys repeat')


def _scrypts(t):
    out = []
    for s in subterms(t):
        if isinstance(s, tuple) and s[0] == 'call' and s[1] == 'scrypt_hash' and s not in out:
            out.append(s)
    return out


def _params(call):
    a = call[2]
    kw = dict(call[3])
    names = ['password', 'salt', 'key_len', 'N', 'r', 'p']
    vals = {}
    for i, n in enumerate(names):
        if i < len(a):
            vals[n] = a[i]
        elif n in kw:
            vals[n] = kw[n]
    d = {'key_len': 64, 'N': 16384, 'r': 8, 'p': 1}
    return tuple(vals.get(k, d[k]) for k in ('key_len', 'N', 'r', 'p'))


def _check_nfc(ctx, q, fn, pw_term, param):
    """the scrypt password must be the NFC form of the caller's passphrase (BIP38: 'passphrase ... NFC normalized')"""
    norms = [x for x in subterms(('w', pw_term)) if isinstance(x, tuple) and x[0] == 'mcall' and x[2] == 'normalize' and x[1] == ('global', 'unicodedata')]
    other = [x for x in subterms(('w', pw_term)) if isinstance(x, tuple) and x[0] == 'call' and x[1] == 'normalize_string']
    ctx.saw('%s: scrypt password %s' % (q, show(pw_term)[:110]))
    if other or any(n[3][0] != 'NFC' for n in norms):
        form = 'NFKD (normalize_string)' if other else norms[0][3][0]
        ctx.violate(q, 'passphrase is normalised to %s before key stretching, BIP38 prescribes NFC' % form, fn,
                    'keys produced with a non-ASCII passphrase differ from the specification and cannot be decrypted by the same passphrase elsewhere')
        return
    raw = _raw_outside(pw_term, param)
    if not norms or raw:
        ctx.violate(q, 'passphrase reaches scrypt without Unicode NFC normalisation (%s)' % show(pw_term)[:80], fn,
                    'BIP38 test vector with a non-NFC passphrase is not reproduced; composed/decomposed spellings of one passphrase give different keys')


def _raw_outside(t, leaf):
    """does leaf occur in t outside unicodedata.normalize(...) — ignoring the bytes-typed branch of isinstance(x, str) selections"""
    if isinstance(t, tuple) and t and t[0] == 'mcall' and t[2] == 'normalize' and t[1] == ('global', 'unicodedata'):
        return False
    if t == leaf:
        return True
    if isinstance(t, tuple) and t and t[0] == 'cond' and isinstance(t[1], tuple) and t[1][0] == 'isinstance':
        # (isinstance(pw, str) ? f(pw) : pw): the else branch is the caller passing bytes, which cannot be normalised
        return _raw_outside(t[2], leaf)
    if isinstance(t, tuple):
        return any(_raw_outside(x, leaf) for x in t)
    return False


def _run(ctx, q, args):
    fn = ctx.repo.func(q)
    it = Interp(ctx.repo, 'keys', hooks=LAYOUT_HOOKS)
    return fn, it, it.run_function(fn, args)


@PROP.obligation('C15.params', canaries=[
    mut.const('keys', 'bip38_encrypt', 16384, 8192, 'bip38_encrypt: scrypt N halved'),
    mut.const('keys', 'bip38_decrypt', 1024, 2048, 'bip38_decrypt EC: scrypt N 1024 -> 2048'),
    mut.replace_expr('keys', 'bip38_encrypt', 'key[32:64]', 'key[0:32]', 'bip38_encrypt: AES key from derivedhalf1', nth=0),
    mut.replace_expr('keys', 'bip38_decrypt', 'd[16:32]', 'd[0:16]', 'bip38_decrypt: second half read from first half offset'),
    mut.replace_expr('keys', 'bip38_decrypt', 'decryptedhalf1 + decryptedhalf2', 'decryptedhalf2 + decryptedhalf1', 'bip38_decrypt: halves swapped'),
    mut.const('keys', 'bip38_intermediate_password', 16384, 1024, 'intermediate password: scrypt N', nth=1),
    mut.const('keys', 'bip38_intermediate_password', 'NFC', 'NFKD', 'intermediate password: NFKD instead of NFC', nth=0),
    mut.replace_expr('keys', 'bip38_encrypt', "unicodedata.normalize('NFC', password).encode('utf-8')", "password.encode('utf-8')", 'bip38_encrypt: passphrase not NFC-normalised again'),
])
def params(ctx):
    """bip38_encrypt and the non-EC branch of bip38_decrypt use scrypt (N=16384, r=8, p=8, 64 bytes), AES key = derived
    half 2, XOR with derived half 1, and the same byte offsets (flag [2:3], address hash [3:7], halves [7:23] [23:39]);
    the EC branch, bip38_intermediate_password and bip38_create_new_encrypted_wif agree on (16384, 8, 8, 32) for the pass
    factor and (1024, 1, 1, 64) for the seed encryption."""
    pw = ('var', 'password')
    # ---- writer, non EC
    q = 'keys:bip38_encrypt'
    fn, it, exits = _run(ctx, q, {'private_hex': S(('var', 'private_hex'), 'str'), 'address': S(('var', 'address'), 'bytes'),
                                  'password': S(pw, 'bytes'), 'flagbyte': S(('var', 'flagbyte'), 'bytes')})
    rets = [e for e in exits if e.kind == 'return']
    if len(rets) != 1:
        ctx.undecided('bip38_encrypt return paths')
    w = normalize(term(rets[0].value))
    if not (isinstance(w, tuple) and w[0] == 'call' and w[1] == 'base58encode'):
        ctx.undecided('bip38_encrypt does not return base58encode(...)')
    parts = flatten_cat(w[2][0])
    ctx.saw('bip38_encrypt layout: %d parts, prefix %s' % (len(parts), show(parts[0])))
    if len(parts) != 6:
        ctx.undecided('bip38_encrypt layout has %d parts' % len(parts))
    prefix, flag, ah, e1, e2, chk = parts
    ctx.require(prefix == b'\x01\x42', q, 'prefix is %s, BIP38 non-EC prefix is 0142' % show(prefix), fn)
    ctx.require(chk == ('slice', ('hash', 'dsha256', ('cat', tuple(parts[:5]))), None, 4, None), q, 'checksum is not double_sha256(payload)[:4]', fn)
    sc = _scrypts(w)
    if len(sc) != 1:
        ctx.undecided('bip38_encrypt: %d distinct scrypt calls' % len(sc))
    ctx.require(_params(sc[0]) == (64, 16384, 8, 8), q, 'scrypt parameters (len,N,r,p)=%s, BIP38 prescribes (64,16384,8,8)' % (_params(sc[0]),), fn)
    ctx.require(sc[0][2][1] == ah, q, 'scrypt salt is %s, expected the address hash that is embedded' % show(sc[0][2][1])[:80], fn)
    _check_nfc(ctx, q, fn, sc[0][2][0], pw)
    dh1, dh2 = ('slice', sc[0], None, 32, None), ('slice', sc[0], 32, 64, None)
    def enc_ok(e, plo, phi, klo, khi):
        if not (isinstance(e, tuple) and e[0] == 'mcall' and e[2] == 'encrypt' and isinstance(e[1], tuple) and e[1][0] == 'mcall' and e[1][2] == 'new'):
            return 'not an AES encryption: %s' % show(e)[:80]
        if normalize(e[1][3][0]) not in (dh2, ('slice', sc[0], 32, None, None)):
            return 'AES key is %s, expected derived half 2 = scrypt[32:64]' % show(e[1][3][0])[:80]
        body = e[3][0]
        exp = ('int2bytes', ('binop', '^', ('int', ('slice', ('var', 'private_hex'), plo, phi, None), 16),
                             ('bytes2int', ('slice', sc[0], klo, khi, None), 'big')), 16, 'big')
        if normalize(body) != exp:
            return 'plaintext block is %s, expected privkey[%s:%s] xor derivedhalf1[%s:%s]' % (show(normalize(body))[:160], plo, phi, klo, khi)
        return None
    for e, (plo, phi, klo, khi), name in ((e1, (None, 32, None, 16), 'first'), (e2, (32, 64, 16, 32), 'second')):
        msg = enc_ok(e, plo, phi, klo, khi)
        ctx.require(msg is None, q, '%s encrypted half: %s' % (name, msg), fn)
    # ---- reader, non EC
    q = 'keys:bip38_decrypt'
    fn, it, exits = _run(ctx, q, {'encrypted_privkey': S(('var', 'enc'), 'str'), 'password': S(pw, 'bytes')})
    D = ('call', 'change_base', (('var', 'enc'), 58, 256), ())
    nonec = [e for e in exits if e.kind == 'return' and (('cmp', '==', ('slice', D, 0, 2, None), b'\x01\x42'), True) in e.pc]
    ec = [e for e in exits if e.kind == 'return' and (('cmp', '==', ('slice', D, 0, 2, None), b'\x01\x43'), True) in e.pc]
    if len(nonec) != 1 or len(ec) != 1:
        ctx.undecided('bip38_decrypt: cannot identify the EC / non-EC return paths (%d/%d)' % (len(ec), len(nonec)))
    r = normalize(plus_to_cat(term(nonec[0].value)))
    priv, ahash = r[1], r[2]
    sc_r = _scrypts(r)
    if len(sc_r) != 1:
        ctx.undecided('bip38_decrypt non-EC: %d scrypt calls' % len(sc_r))
    ctx.saw('bip38_decrypt non-EC: scrypt %s, address hash %s' % (_params(sc_r[0]), show(ahash)))
    ctx.require(_params(sc_r[0]) == _params(sc[0]), q, 'non-EC decrypt uses scrypt parameters %s, bip38_encrypt uses %s' % (_params(sc_r[0]), _params(sc[0])), fn,
                'keys written by the library cannot be decrypted')
    _check_nfc(ctx, q, fn, sc_r[0][2][0], pw)
    ctx.require(ahash == ('slice', D, 3, 7, None), q, 'address hash read from %s, the writer stores it at [3:7]' % show(ahash), fn)
    ctx.require(sc_r[0][2][1] == ahash, q, 'scrypt salt is %s, expected the embedded address hash' % show(sc_r[0][2][1])[:80], fn)
    aes = lambda blk: ('mcall', ('mcall', ('global', 'AES'), 'new', (('slice', sc_r[0], 32, 64, None), ('attr', ('global', 'AES'), 'MODE_ECB')), ()), 'decrypt', (blk,), ())
    exp = ('int2bytes', ('binop', '^', ('bytes2int', ('cat', (aes(('slice', D, 7, 23, None)), aes(('slice', D, 23, 39, None)))), 'big'),
                         ('bytes2int', ('slice', sc_r[0], None, 32, None), 'big')), 32, 'big')
    exp_alt = ('int2bytes', ('binop', '^', ('bytes2int', ('cat', (aes(('slice', D, 7, 23, None)), aes(('slice', D, 23, 35 + 4, None)))), 'big'),
                             ('bytes2int', ('slice', sc_r[0], 0, 32, None), 'big')), 32, 'big')
    ctx.require(priv in (exp, exp_alt), q, 'non-EC private key is %s; expected (AES_dh2^-1(d[7:23]) . AES_dh2^-1(d[23:39])) xor derivedhalf1' % show(priv)[:400], fn,
                'reader disagrees with the layout bip38_encrypt writes')
    # ---- EC branch parameter agreement
    r_ec = normalize(plus_to_cat(term(ec[0].value)))
    p_ec = sorted(set(_params(c) for c in _scrypts(r_ec)))
    ctx.saw('bip38_decrypt EC scrypt parameter sets %s' % p_ec)
    for c in _scrypts(r_ec):
        if _params(c) == (32, 16384, 8, 8):
            _check_nfc(ctx, q, fn, c[2][0], pw)
    ctx.require(p_ec == [(32, 16384, 8, 8), (64, 1024, 1, 1)], q, 'EC decrypt scrypt parameters %s, BIP38: pass factor (32,16384,8,8), seed (64,1024,1,1)' % p_ec, fn)
    q = 'keys:bip38_intermediate_password'
    for lot, seq in ((None, None), (S(('var', 'lot'), 'int'), S(('var', 'sequence'), 'int'))):
        fn, it, exits = _run(ctx, q, {'passphrase': S(('var', 'passphrase'), 'str'), 'lot': lot, 'sequence': seq, 'owner_salt': S(('var', 'owner_salt'), 'bytes')})
        rets = [e for e in exits if e.kind == 'return']
        ps = sorted(set(_params(c) for e in rets for c in _scrypts(term(e.value))))
        ctx.saw('bip38_intermediate_password(lot=%s) scrypt %s' % ('given' if lot is not None else None, ps))
        ctx.require(ps == [(32, 16384, 8, 8)], q, 'pass factor scrypt parameters %s, decrypt uses (32,16384,8,8)' % ps, fn)
        for e in rets:
            for c in _scrypts(term(e.value)):
                _check_nfc(ctx, q, fn, c[2][0], ('var', 'passphrase'))
    q = 'keys:bip38_create_new_encrypted_wif'
    fn, it, exits = _run(ctx, q, {'intermediate_passphrase': S(('var', 'ip'), 'str'), 'seed': S(('var', 'seed'), 'bytes'), 'compressed': S(('var', 'compressed'), 'bool')})
    rets = [e for e in exits if e.kind == 'return']
    ps = sorted(set(_params(c) for e in rets for c in _scrypts(term(e.value))))
    ctx.saw('bip38_create_new_encrypted_wif scrypt %s' % ps)
    ctx.require(ps == [(64, 1024, 1, 1)], q, 'seed encryption scrypt parameters %s, decrypt uses (64,1024,1,1)' % ps, fn)


@PROP.obligation('C15.addrhash', canaries=[
    mut.drop_stmt('keys', 'Key._bip38_decrypt', 'if double_sha256(addr)[0:4] != addresshash', 'Key._bip38_decrypt: address hash check removed'),
    mut.drop_stmt('keys', 'HDKey._bip38_decrypt', 'if double_sha256(addr)[0:4] != addresshash', 'HDKey._bip38_decrypt: address hash check removed'),
    mut.drop_stmt('keys', 'bip38_decrypt', 'if address_hash_check != address_hash', 'bip38_decrypt EC: address hash check removed'),
    mut.cmpop('keys', 'Key._bip38_decrypt', 'double_sha256(addr)[0:4] != addresshash', ast.Eq, 'Key._bip38_decrypt: check inverted'),
    mut.replace_expr('keys', 'HDKey._bip38_decrypt', 'double_sha256(addr)[0:4]', 'addresshash[0:4]', 'HDKey._bip38_decrypt: compares the hash with itself'),
])
def addrhash(ctx):
    """Every decrypt entry (Key._bip38_decrypt, HDKey._bip38_decrypt, EC branch of bip38_decrypt) returns key material only
    on paths where double_sha256(address of the recovered key)[:4] == embedded address hash; mismatch raises."""
    for q, ctor in (('keys:Key._bip38_decrypt', 'Key'), ('keys:HDKey._bip38_decrypt', 'HDKey')):
        fn = ctx.repo.func(q)
        it = Interp(ctx.repo, 'keys', hooks=LAYOUT_HOOKS)
        exits = it.run_function(fn, {'encrypted_privkey': S(('var', 'enc'), 'str'), 'password': S(('var', 'password'), 'str')})
        rets = [e for e in exits if e.kind == 'return']
        if not rets:
            ctx.undecided('%s never returns' % q)
        call = None
        for e in rets:
            for s in subterms(('w', term(e.value))):
                if isinstance(s, tuple) and s[0] == 'call' and s[1] == 'bip38_decrypt':
                    call = s
        if call is None:
            ctx.undecided('%s does not return data from bip38_decrypt' % q)
        priv, ah = ('index', call, 0), ('index', call, 1)
        for e in rets:
            guards = [(t, pol) for (t, pol) in e.pc if isinstance(t, tuple) and t[0] == 'cmp' and t[1] in ('!=', '==') and ah in (t[2], t[3])]
            ctx.saw('%s: return guarded by %s' % (q, [(show(t)[:140], pol) for t, pol in guards]))
            ok = False
            for t, pol in guards:
                other = t[3] if t[2] == ah else t[2]
                eq_holds = (t[1] == '!=' and pol is False) or (t[1] == '==' and pol is True)
                # other must be dsha256(address of Key(priv))[0:4]
                o = normalize(other)
                good_shape = isinstance(o, tuple) and o[0] == 'slice' and o[2] in (None, 0) and o[3] == 4 and isinstance(o[1], tuple) and o[1][:2] == ('hash', 'dsha256')
                from_key = any(isinstance(s, tuple) and s[0] == 'mcall' and s[2] == 'address' and isinstance(s[1], tuple) and s[1][0] == 'call' and s[1][1] == ctor and s[1][2] and s[1][2][0] == priv
                               for s in subterms(o)) if good_shape else False
                if eq_holds and good_shape and from_key:
                    ok = True
                elif good_shape and from_key and not eq_holds:
                    ctx.violate(q, 'key material is returned on the branch where the address hash does NOT match', e.node)
                    ok = True
            if not ok:
                ctx.violate(q, 'returns decrypted key material without comparing double_sha256(address of recovered key)[:4] with the embedded address hash', e.node,
                            'a wrong passphrase silently yields some other key')
    q = 'keys:bip38_decrypt'
    fn, it, exits = _run(ctx, q, {'encrypted_privkey': S(('var', 'enc'), 'str'), 'password': S(('var', 'password'), 'bytes')})
    D = ('call', 'change_base', (('var', 'enc'), 58, 256), ())
    ec = [e for e in exits if e.kind == 'return' and (('cmp', '==', ('slice', D, 0, 2, None), b'\x01\x43'), True) in e.pc]
    if not ec:
        ctx.undecided('bip38_decrypt: EC return path not found')
    ah = ('slice', D, 3, 7, None)
    for e in ec:
        guards = [(t, pol) for (t, pol) in e.pc if isinstance(t, tuple) and t[0] == 'cmp' and t[1] in ('!=', '==') and ah in (t[2], t[3])]
        ok = False
        for t, pol in guards:
            other = normalize(t[3] if t[2] == ah else t[2])
            eq_holds = (t[1] == '!=' and pol is False) or (t[1] == '==' and pol is True)
            shape = isinstance(other, tuple) and other[0] == 'slice' and other[3] == 4 and isinstance(other[1], tuple) and other[1][:2] == ('hash', 'dsha256') and \
                any(isinstance(s, tuple) and s[0] == 'mcall' and s[2] == 'address' for s in subterms(other))
            ctx.saw('bip38_decrypt EC: return guarded by %s (holds=%s)' % (show(t)[:100], eq_holds))
            if shape and eq_holds:
                ok = True
        if not ok:
            ctx.violate(q, 'EC-multiplied branch returns key material without the address-hash comparison', e.node, 'a wrong passphrase silently yields some other key')


@PROP.obligation('C15.flags', canaries=[
    mut.const('config.config', None, b'\x24', b'\x2c', 'LOT_AND_SEQUENCE_COMPRESSED flag constant changed to a value the reader maps differently') if False else
    mut.replace_expr('keys', 'Key.encrypt', "b'\\xe0' if self.compressed else b'\\xc0'", "b'\\xe0' if self.compressed else b'\\xd0'", 'Key.encrypt: uncompressed flag c0 -> d0'),
    mut.replace_expr('keys', 'bip38_decrypt', "flagbyte == b'\\xe0' or flagbyte == b' '", "flagbyte == b' '", 'bip38_decrypt: e0 no longer accepted'),
    mut.replace_stmt('keys', 'bip38_create_new_encrypted_wif', 'flag: bytes = BIP38_MAGIC_LOT_AND_SEQUENCE_COMPRESSED_FLAG', 'flag: bytes = BIP38_MAGIC_NO_LOT_AND_SEQUENCE_COMPRESSED_FLAG', 'create_new: lot/sequence flag lost'),
])
def flags(ctx):
    """Flag bytes written (Key.encrypt: e0/c0; bip38_create_new_encrypted_wif: per magic x compressed) are decoded by
    bip38_decrypt to the same meaning (non-EC: c0 uncompressed, e0/20 compressed; EC: lot/sequence and compressed tests)."""
    repo = ctx.repo
    consts = repo.consts('keys')
    # writer non-EC
    q = 'keys:Key.encrypt'
    fn = repo.func(q)
    written = {}
    for comp in (True, False):
        it = Interp(repo, 'keys', hooks=LAYOUT_HOOKS, self_cls='keys:Key',
                    decide=lambda t, c=comp: c if t == ('attr', ('var', 'self'), 'compressed') else None)
        exits = it.run_function(fn, {'password': S(('var', 'password'), 'str')})
        rv = term([e for e in exits if e.kind == 'return'][0].value)
        if not (isinstance(rv, tuple) and rv[0] == 'call' and rv[1] == 'bip38_encrypt' and len(rv[2]) >= 4):
            ctx.undecided('Key.encrypt does not call bip38_encrypt(private_hex, address, password, flagbyte)')
        written[comp] = rv[2][3]
    ctx.saw('Key.encrypt flag bytes: %s' % {k: show(v) for k, v in written.items()})
    # reader non-EC table
    q = 'keys:bip38_decrypt'
    fn = repo.func(q)
    D = ('call', 'change_base', (('var', 'enc'), 58, 256), ())
    flagterm = ('slice', D, 2, 3, None)
    from .. import intv
    for comp, fb in written.items():
        if not isinstance(fb, bytes):
            ctx.undecided('Key.encrypt flag is not constant: %s' % show(fb))
        it = Interp(repo, 'keys', hooks=LAYOUT_HOOKS)
        exits = it.run_function(fn, {'encrypted_privkey': S(('var', 'enc'), 'str'), 'password': S(('var', 'password'), 'bytes')})
        sub = {flagterm: fb, ('slice', D, 0, 2, None): b'\x01\x42'}
        feas = [e for e in exits if intv.exit_feasible(e, sub) and not any(show(t).startswith('(change_base(enc, 58, 256)[-4:]') and pol for t, pol in e.pc)]
        kinds = set(e.kind for e in feas)
        if 'return' not in kinds:
            ctx.violate('keys:Key.encrypt', 'flag byte %s written for compressed=%s is rejected by bip38_decrypt' % (fb.hex(), comp), repo.func('keys:Key.encrypt'))
            continue
        for e in feas:
            if e.kind != 'return':
                continue
            rv = intv.specialise(term(e.value), sub)
            got = rv[3]
            ctx.saw('bip38_decrypt(flag %s) -> compressed=%s' % (fb.hex(), show(got)))
            ctx.require(got is comp, q, 'flag byte %s (written for compressed=%s) is decoded as compressed=%s' % (fb.hex(), comp, show(got)), fn)
    # EC flags: writer table from the if-chain on magic in bip38_create_new_encrypted_wif
    q2 = 'keys:bip38_create_new_encrypted_wif'
    fn2 = repo.func(q2)
    chain = None
    for n in walk_no_nested(fn2):
        if isinstance(n, ast.If) and 'magic' in unparse(n.test) and any(isinstance(s, (ast.Assign, ast.AnnAssign)) and 'flag' in unparse(s).split('=')[0] for s in ast.walk(n)):
            chain = n
            break
    if chain is None:
        ctx.undecided('flag selection chain not found in bip38_create_new_encrypted_wif')
    lotm, nolotm = consts.get('BIP38_MAGIC_LOT_AND_SEQUENCE'), consts.get('BIP38_MAGIC_NO_LOT_AND_SEQUENCE')
    if not isinstance(lotm, bytes) or not isinstance(nolotm, bytes):
        ctx.undecided('BIP38 magic constants not foldable')
    # reader tests
    tests = [n for n in walk_no_nested(fn) if isinstance(n, ast.If) and isinstance(n.test, ast.Compare) and isinstance(n.test.ops[0], ast.In)
             and isinstance(n.test.left, ast.Name) and n.test.left.id == 'flagbyte']
    lot_test = [n for n in tests if any('lot_and_sequence' in unparse(s) for s in n.body)]
    comp_test = [n for n in tests if any(isinstance(s, ast.Assign) and unparse(s.targets[0]) == 'compressed' for s in n.body)]
    if len(lot_test) != 1 or len(comp_test) != 1:
        ctx.undecided('bip38_decrypt: lot/compressed flag tests not identified')
    try:
        lot_set = set(fold(lot_test[0].test.comparators[0], consts))
        comp_set = set(fold(comp_test[0].test.comparators[0], consts))
    except NotConst as e:
        ctx.undecided('flag lists not constant: %s' % e)
    for magic, is_lot in ((lotm, True), (nolotm, False)):
        for comp in (True, False):
            it = Interp(repo, 'keys')
            st = State(env={'magic': magic, 'compressed': comp})
            it.frames.append([])
            end = it.exec_if(chain, st)
            if end is None or not isinstance(end.env.get('flag'), bytes):
                ctx.undecided('flag for magic/compressed not constant')
            fb = end.env['flag']
            ctx.saw('create_new(lot=%s, compressed=%s) writes flag %s; reader: lot=%s compressed=%s' % (is_lot, comp, fb.hex(), fb in lot_set, fb in comp_set))
            ctx.require((fb in lot_set) == is_lot, q2, 'flag %s written for lot/sequence=%s is read back as lot/sequence=%s' % (fb.hex(), is_lot, fb in lot_set), fn2,
                        'owner salt / lot and sequence are split differently on decrypt: another key results')
            ctx.require((fb in comp_set) == comp, q2, 'flag %s written for compressed=%s is read back as compressed=%s' % (fb.hex(), comp, fb in comp_set), fn2)


@PROP.obligation('C15.passphrase-chain', canaries=[
    mut.replace_expr('keys', 'bip38_encrypt', "unicodedata.normalize('NFC', password).encode('utf-8')", "to_bytes(unicodedata.normalize('NFC', password))", 'passphrase converted with the hex-decoding helper on the encrypt side'),
])
def passphrase_chain(ctx):
    """Every scrypt_hash call fed by a passphrase parameter (bip38_encrypt, bip38_decrypt, bip38_intermediate_password): between the
    parameter and scrypt only unicodedata.normalize and str.encode may be applied - in particular not to_bytes(), which hex-decodes a
    passphrase that happens to be valid hex ('decade', 'c0ffee', '2468') on one side only, so the key cannot be decrypted again."""
    from ..dfa import ReachingDefs
    n = 0
    m = ctx.repo.mod('keys')
    for q, fn in m.functions.items():
        if not q.startswith('bip38_'):
            continue
        calls = [c for c in ast.walk(fn) if isinstance(c, ast.Call) and unparse(c.func) == 'scrypt_hash' and c.args]
        if not calls:
            continue
        rd = ReachingDefs(fn)
        for c in calls:
            nid = rd.node_of_ast(c)
            lv = rd.leaves(c.args[0], nid)
            pw = [x for x in lv if x[0] == 'param' and x[1] in ('password', 'passphrase')]
            if not pw:
                continue
            chain = sorted(set(x[1] for x in lv if x[0] == 'call'))
            if 'scrypt_hash' in chain or 'double_sha256' in chain:
                continue      # a value derived from an earlier stretch of the passphrase, not the passphrase itself
            n += 1
            ctx.saw('keys:%s line %d: scrypt password <- %s through %s' % (q, c.lineno, pw[0][1], chain))
            for f in chain:
                last = f.split('.')[-1].split('(')[0]
                if f == 'unicodedata.normalize' or last == 'encode' or f in ('isinstance',):
                    continue
                if last in ('to_bytes', 'fromhex', 'unhexlify', 'lower', 'upper', 'strip', 'to_hexstring', 'casefold', 'normalize_string'):
                    ctx.violate('keys:' + q, 'the passphrase passes through %s before scrypt (line %d)' % (f, c.lineno), c,
                                "a passphrase that is valid hex is hex-decoded on this side only: Key.encrypt('decade') cannot be decrypted with 'decade'")
                else:
                    ctx.unsure('keys:%s: passphrase passes through unrecognised call %s' % (q, f))
    ctx.floor(n, 4, 'scrypt calls fed by a passphrase parameter')


@PROP.obligation('C15.history-free', canaries=[
    mut.replace_expr('keys', 'Key.encrypt', 'self.address()', 'self.address_obj.address', 'BIP38 salt taken from whatever address was asked for last'),
])
def history_free(ctx):
    """Key.encrypt salts with the address of the key in the form its flag byte announces. Key._address_obj holds the address for the
    arguments of the LAST address(...) call (uncompressed form, other prefix, ...); only address(), which validates it against its
    arguments, may read it - no other method of Key / HDKey reads the memo or the address_obj property that hands it out."""
    from .common_cache import history_reads as run
    run(ctx, 'keys', [['Key', 'HDKey']], 'Key / HDKey',
        'after k.address_uncompressed() the encrypted key carries flag e0 (compressed) but the address hash and scrypt salt of the uncompressed address: not the BIP38 value, other implementations refuse it')
    enc = ctx.repo.func('keys:Key.encrypt')
    calls = [c for c in ast.walk(enc) if isinstance(c, ast.Call) and norm(c.func) == 'bip38_encrypt']
    ctx.floor(len(calls), 1, 'bip38_encrypt call in Key.encrypt')
    for c in calls:
        ctx.saw('Key.encrypt -> %s' % norm(c)[:110])


@PROP.obligation('C15.fixed-width', canaries=[
    mut.replace_expr('keys', 'bip38_decrypt', "(int.from_bytes(aes.decrypt(encrypted_half_1), 'big') ^ int.from_bytes(encrypted_seed_b[:16], 'big')).to_bytes(16, 'big')",
                     "(lambda v: v.to_bytes((v.bit_length() + 7) // 8, 'big'))(int.from_bytes(aes.decrypt(encrypted_half_1), 'big') ^ int.from_bytes(encrypted_seed_b[:16], 'big'))", 'seedb rebuilt without its leading zero bytes'),
])
def fixed_width(ctx):
    """BIP38 fields are fixed width (seedb 24 bytes, factors and halves 16 / 32 bytes): every int.to_bytes in the BIP38 functions uses a
    width that does not depend on the value converted."""
    from .common_width import fixed_width as run
    run(ctx, ['keys:bip38_decrypt', 'keys:bip38_encrypt', 'keys:bip38_intermediate_password', 'keys:bip38_create_new_encrypted_wif'],
        'a seedb / factor that starts with a zero byte (1 in 256 keys) is hashed over fewer bytes: the right passphrase is refused (or another key is produced)', 8)


@PROP.obligation('C15.presence-by-flag', canaries=[
    mut.replace_expr('keys', 'bip38_decrypt', 'owner_entropy[4:]', "int.from_bytes(owner_entropy[4:], 'big')", 'lot / sequence 0 read as "no lot / sequence"', nth=0),
])
def presence_by_flag(ctx):
    """Whether an EC-multiplied BIP38 key carries a lot / sequence number is decided by its flag byte. In the BIP38 functions no branch is
    decided by the truthiness of an INTEGER decoded from the payload (`if lot_and_sequence:` on int.from_bytes(...)): the value 0 - lot 0,
    sequence 0, valid per BIP38 - would then be treated as "absent" and the pass factor derived without the owner entropy."""
    from ..dfa import ReachingDefs
    n = 0
    for q in ('keys:bip38_decrypt', 'keys:bip38_encrypt', 'keys:bip38_intermediate_password', 'keys:bip38_create_new_encrypted_wif'):
        fn = ctx.repo.func(q)
        names = []

        def boolctx(e):
            if isinstance(e, ast.Name):
                names.append(e)
            elif isinstance(e, ast.UnaryOp) and isinstance(e.op, ast.Not):
                boolctx(e.operand)
            elif isinstance(e, ast.BoolOp):
                for v in e.values:
                    boolctx(v)
        for x in ast.walk(fn):
            if isinstance(x, (ast.If, ast.IfExp, ast.While)):
                boolctx(x.test)
        if not names:
            continue
        rd = ReachingDefs(fn)
        for nm in names:
            nid = rd.node_of_ast(nm)
            if nid is None:
                continue
            n += 1
            for d in rd.reaching(nid, nm.id):
                if d.value is not None and d.kind != 'aug' and isinstance(d.value, ast.Call) and norm(d.value.func) == 'int.from_bytes':
                    ctx.violate(q, 'the branch `%s` (line %d) is decided by the truthiness of %s = %s: the value 0 counts as absent' % (nm.id, nm.lineno, nm.id, norm(d.value)[:70]), nm,
                                'an EC-multiplied key with the lot/sequence flag and lot = 0, sequence = 0 is decrypted without the owner-entropy step: the right passphrase is refused')
    ctx.saw('%d truthiness tests on local names in the BIP38 functions: none on an integer decoded from the payload' % n)
    ctx.floor(n, 3, 'truthiness tests')


@PROP.obligation('C15.verify-network', canaries=[
    mut.replace_expr('keys', 'HDKey._bip38_decrypt', 'HDKey(priv, compressed=compressed, network=network, witness_type=witness_type)', 'HDKey(priv, compressed=compressed, witness_type=witness_type)', 'address hash of an HDKey import verified on bitcoin mainnet'),
])
def verify_network(ctx):
    """The address whose hash proves the passphrase is the address of the recovered key ON THE NETWORK the caller named: in both
    sibling decrypt entries (Key._bip38_decrypt, HDKey._bip38_decrypt) the verification key is constructed with network=network and the
    compression flag taken from the BIP38 flag byte (the address hash was computed over the address of that network)."""
    for q, ctor in (('keys:Key._bip38_decrypt', 'Key'), ('keys:HDKey._bip38_decrypt', 'HDKey')):
        fn = ctx.repo.func(q)
        calls = [c for c in ast.walk(fn) if isinstance(c, ast.Call) and norm(c.func) == ctor and c.args and norm(c.args[0]) == 'priv']
        if len(calls) != 1:
            ctx.undecided('%s: construction of the verification key not found' % q)
        kw = {k.arg: norm(k.value) for k in calls[0].keywords}
        ctx.saw('%s verifies with %s(priv, %s)' % (q, ctor, ', '.join('%s=%s' % kv for kv in sorted(kw.items()))))
        ctx.require(kw.get('network') == 'network', q, 'the verification key is built with network=%s: its address is not the one of the network the caller named' % kw.get('network', 'the default (bitcoin)'), calls[0],
                    'a testnet / litecoin BIP38 key imported through HDKey or a wallet is refused with the right passphrase; a bitcoin key imported with network=litecoin is accepted')
        ctx.require(kw.get('compressed') == 'compressed', q, 'the verification key is built with compressed=%s, not the flag decoded from the key' % kw.get('compressed'), calls[0])


@PROP.obligation('C15.empty-passphrase', canaries=[
    mut.replace_stmt('keys', 'bip38_decrypt', "if isinstance(password, str):", "if not password:\n    raise BKeyError('please provide a password')\nif isinstance(password, str):\n    password = unicodedata.normalize('NFC', password)", 'decryption refuses the empty passphrase'),
    mut.replace_expr('keys', 'Key.encrypt', 'bip38_encrypt(self.private_hex, self.address(), password, flagbyte)', "bip38_encrypt(self.private_hex, self.address(), password or 'bitcoinlib', flagbyte)", 'empty passphrase replaced by a default on encryption'),
])
def empty_passphrase(ctx):
    """"Any passphrase" includes the empty one, which is also the default of Key(..., password=''): along the BIP38 paths (Key / HDKey
    constructors -> _bip38_decrypt -> bip38_decrypt, Key.encrypt -> bip38_encrypt, bip38_intermediate_password) the passphrase is only
    type-tested, normalised, encoded and handed on. Nothing tests its truthiness or length or compares it, so no passphrase is refused
    or replaced on one side only."""
    from .common_opaque import opaque_parameter as run
    n = run(ctx, [('keys:bip38_decrypt', 'password'), ('keys:bip38_encrypt', 'password'), ('keys:bip38_intermediate_password', 'passphrase'),
                  ('keys:Key.__init__', 'password'), ('keys:Key._bip38_decrypt', 'password'), ('keys:Key.encrypt', 'password'),
                  ('keys:HDKey.__init__', 'password'), ('keys:HDKey._bip38_decrypt', 'password')],
            'a key encrypted with the empty passphrase (accepted by encrypt) cannot be decrypted with the same passphrase, or is encrypted under another one')
    ctx.floor(n, 12, 'reads of the passphrase')


@PROP.obligation('C15.zero-valid', canaries=[
    mut.replace_expr('keys', 'bip38_intermediate_password', 'lot is not None and sequence is not None', 'lot and sequence', 'sequence 0 taken for "no lot / sequence"', nth=0),
])
def zero_valid(ctx):
    """BIP38 lot / sequence numbers: the sequence runs from 0 to 4095 - the range test of bip38_intermediate_password says so itself. No
    test of the same function (or of any function of the module) treats a parameter whose accepted range includes 0 as absent when it
    is falsy: with lot=100000, sequence=0 the EC-multiplied mode must produce the intermediate code of that lot and sequence."""
    from .common_falsy import zero_valid as run
    n = run(ctx, ['keys'], 'bip38_intermediate_password(p, lot=100000, sequence=0) raises "Both lot & sequence are required": the first key of every lot cannot be made')
    ctx.floor(n, 100, 'functions of the keys module')


@PROP.obligation('C15.prefix-detect', canaries=[
    mut.replace_expr('keys', 'get_key_format', "key[:2] == '6P'", "key[:3] in ['6PR', '6PY', '6Pf', '6Pg', '6Pn']", 'BIP38 strings recognised by a list of prefixes that misses 6Po'),
])
def prefix_detect(ctx):
    """A BIP38 string is 58 Base58 characters; its first three depend on the mode and flag byte: 6PR / 6PY (plain, uncompressed /
    compressed) and 6Pf / 6Pg / 6Pn / 6Po (EC-multiplied without / with lot and sequence, uncompressed / compressed). get_key_format,
    evaluated on 58-character strings with each of the six prefixes and a symbolic rest, classifies every one as `wif_protected` - a
    prefix the detection does not know makes a key that bip38_create_new_encrypted_wif produces undecryptable through Key / HDKey."""
    from .. import seg
    from ..sym import rewrite
    q = 'keys:get_key_format'
    fn = ctx.repo.func(q)
    it = Interp(ctx.repo, 'keys', hooks=dict(LAYOUT_HOOKS))
    try:
        exits = it.run_function(fn, {'key': S(('var', 'key'), 'str'), 'is_private': None})
    except Exception as e:
        ctx.undecided('get_key_format not evaluable: %s' % str(e)[:100])
    rets = [e for e in exits if e.kind == 'return' and isinstance(e.value, dict)]
    if not rets:
        ctx.undecided('get_key_format: no dictionary result')
    K = ('var', 'key')

    def prep(t):
        def f(x):
            if isinstance(x, tuple) and x and x[0] == 'isinstance' and x[1] == K:
                return 'TYPE_TEXT' in show(x[2]) or show(x[2]).endswith("'str')")
            if x == ('not', K):
                return False
            return None
        return rewrite(t, f)
    fmt_t = prep(term(rets[-1].value['format']))
    n = 0
    for pre in ('6PR', '6PY', '6Pf', '6Pg', '6Pn', '6Po'):
        env = {K: seg.seg(pre.encode(), ('rest', 55))}
        # the tests under which the format becomes wif_protected (the earlier tests of the chain are about other lengths)
        guards = [x[1] for x in subterms(('w', fmt_t)) if isinstance(x, tuple) and len(x) == 4 and x[0] == 'cond' and x[2] == 'wif_protected']
        if not guards:
            ctx.undecided('get_key_format: no test yields the format wif_protected')
        f = None
        for gd in guards:
            try:
                c = seg.seg_truth(seg.seg_eval(gd, env))
            except seg.SegUnknown as e:
                ctx.undecided('get_key_format: BIP38 test not evaluable for a string starting %s: %s' % (pre, str(e)[:100]))
            if isinstance(c, seg.Dep):
                f = c
            elif c:
                f = 'wif_protected'
                break
        if f is None:
            f = 'not recognised by the BIP38 test'
        n += 1
        ctx.saw('58 characters starting %s -> %s' % (pre, f))
        ctx.require(f == 'wif_protected', q, 'a 58-character string starting %s is classified %s, not as a BIP38 key' % (pre, f if not isinstance(f, seg.Dep) else 'depending on its other characters'), fn,
                    'keys with lot / sequence and the compression flag (6Po..., the default output of bip38_create_new_encrypted_wif for such an intermediate code) cannot be imported with the right passphrase')
    ctx.floor(n, 6, 'BIP38 prefixes')


def _fold_bytes(t):
    """bytes value of a layout term made of constants only (concatenations, fixed-width integers); the term itself otherwise"""
    if isinstance(t, bytes):
        return t
    if isinstance(t, tuple) and t and t[0] == 'cat':
        parts = [_fold_bytes(x) for x in t[1]]
        return b''.join(parts) if all(isinstance(x, bytes) for x in parts) else t
    if isinstance(t, tuple) and len(t) == 4 and t[0] == 'int2bytes' and isinstance(t[1], int) and isinstance(t[2], int) and t[3] in ('big', 'little'):
        try:
            return t[1].to_bytes(t[2], t[3])
        except OverflowError:
            return t
    return t


@PROP.obligation('C15.lot-sequence-field', canaries=[
    mut.replace_expr('keys', 'bip38_intermediate_password', 'lot * 4096 + sequence', '((lot & 0x7ffff) << 12) | (sequence & 0xfff)', 'the lot number is masked to 19 bits'),
    mut.replace_expr('keys', 'bip38_intermediate_password', 'lot * 4096 + sequence', 'lot * 4095 + sequence', 'lot multiplied by 4095'),
])
def lot_sequence_field(ctx):
    """BIP38 packs lot and sequence into four bytes as lot * 4096 + sequence (20 + 12 bits, big endian) after the first four bytes of the
    owner salt. The expression that builds owner_entropy in bip38_intermediate_password is evaluated for lots across the whole accepted
    range 100000 .. 999999 - below and above 2^19 = 524288 - and sequences 0, 1, 4095: the eight bytes are salt[:4] followed by that
    number. A narrower mask makes lot 806938 (the lot of the BIP38 document's second vector) collide with lot 282650."""
    q = 'keys:bip38_intermediate_password'
    fn = ctx.repo.func(q)
    asg = [a for a in ast.walk(fn) if isinstance(a, ast.Assign) and any(norm(t) == 'owner_entropy' for t in a.targets) and 'lot' in norm(a.value) and 'sequence' in norm(a.value)]
    if len(asg) != 1:
        ctx.undecided('bip38_intermediate_password: %d assignments build owner_entropy from lot and sequence, expected 1' % len(asg))
    salt = bytes(range(0xa0, 0xa8))
    n = 0
    for lot in (100000, 263183, 524287, 524288, 806938, 999999):
        for seq in (0, 1, 4095):
            it = Interp(ctx.repo, 'keys')
            st = State(env={'lot': lot, 'sequence': seq, 'owner_salt': salt})
            try:
                got = it.eval(asg[0].value, st)
            except AnalysisError as e:
                ctx.undecided('bip38_intermediate_password: owner_entropy not evaluable for lot %d / sequence %d: %s' % (lot, seq, str(e)[:80]))
            exp = salt[:4] + (lot * 4096 + seq).to_bytes(4, 'big')
            n += 1
            got = _fold_bytes(term(got) if isinstance(got, S) else got)
            if got != exp:
                gv = got.hex() if isinstance(got, bytes) else (show(got)[:60] if isinstance(got, tuple) else repr(got))
                ctx.violate(q, 'lot %d, sequence %d: owner entropy is %s, BIP38 prescribes %s (salt[:4] + BE32(lot * 4096 + sequence))' % (lot, seq, gv, exp.hex()), asg[0],
                            'the intermediate code of lot 806938 carries lot 282650: keys made from it do not match the BIP38 document and decryption reports the wrong lot')
                break
    ctx.saw('%d (lot, sequence) pairs evaluated through `%s`' % (n, norm(asg[0].value)[:70]))
    ctx.floor(n, 6, '(lot, sequence) pairs')


@PROP.obligation('C15.decrypt-witness-forwarded', canaries=[
    mut.Canary('the command line wallet tool checks a BIP38 key against the default witness type', 'tools.clw', lambda tree: _drop_last_arg(tree, 'create_wallet', '_bip38_decrypt')),
    mut.Canary('HDKey() checks a BIP38 key against the default witness type', 'keys', lambda tree: _drop_last_arg(tree, '__init__', '_bip38_decrypt', cls='HDKey')),
])
def decrypt_witness_forwarded(ctx):
    """HDKey._bip38_decrypt(key, password, network, witness_type) verifies the decrypted key against the 4-byte address hash inside the BIP38
    string, and WHICH address that is follows the witness type (a standard BIP38 key carries the hash of the legacy P2PKH address). Every
    call of it in the package - HDKey.__init__ and the command line wallet tool - hands over the witness type the caller was given, as
    fourth argument or keyword: with the default ('segwit') the right passphrase of a standard key is refused as wrong."""
    n = 0
    for modname, m in sorted(ctx.repo.modules.items()):
        for name, fn in sorted(m.functions.items()):
            for c in walk_no_nested(fn):
                if not (isinstance(c, ast.Call) and isinstance(c.func, ast.Attribute) and c.func.attr == '_bip38_decrypt'):
                    continue
                base = norm(c.func.value)
                cls = name.split('.')[0] if '.' in name else None
                is_hd = base == 'HDKey' or (base in ('self', 'cls') and cls == 'HDKey')
                if not is_hd:
                    continue
                q = '%s:%s' % (modname, name)
                n += 1
                wt = c.args[3] if len(c.args) > 3 else next((k.value for k in c.keywords if k.arg == 'witness_type'), None)
                ctx.saw('%s: HDKey._bip38_decrypt(...) witness_type=%s' % (q, norm(wt) if wt is not None else None))
                ctx.require(wt is not None and 'witness_type' in norm(wt), q, '`%s` does not hand the witness type on (fourth argument: %s)' % (norm(c)[:70], norm(wt) if wt is not None else 'missing'), c,
                            "clw new -w NAME -c <standard BIP38 key> --password <right passphrase> -j legacy is rejected with 'Addresshash verification failed': the key cannot be recovered although the passphrase is right")
    ctx.floor(n, 2, 'calls of HDKey._bip38_decrypt')


def _drop_last_arg(tree, fname, callee, cls=None):
    for top in tree.body:
        fns = []
        if isinstance(top, ast.FunctionDef) and cls is None:
            fns = [top]
        elif isinstance(top, ast.ClassDef) and top.name == cls:
            fns = [f for f in top.body if isinstance(f, ast.FunctionDef)]
        for f in fns:
            if f.name != fname:
                continue
            for c in ast.walk(f):
                if isinstance(c, ast.Call) and isinstance(c.func, ast.Attribute) and c.func.attr == callee and len(c.args) > 3:
                    c.args = c.args[:3]
                    return True
    return False


@PROP.obligation('C15.lot-sequence-domain', canaries=[
    mut.replace_expr('keys', 'bip38_intermediate_password', '0 <= sequence <= 4095', '0 <= sequence < 4095', 'the last sequence number 4095 is refused'),
    mut.replace_expr('keys', 'bip38_intermediate_password', '100000 <= lot <= 999999', '100000 < lot <= 999999', 'the first lot number 100000 is refused'),
])
def lot_sequence_domain(ctx):
    """BIP38 lot numbers are 100000 .. 999999 and sequence numbers 0 .. 4095 (a 12-bit field). Every raise of
    bip38_intermediate_password that is guarded by a test of lot or sequence alone is evaluated at the ends and in the middle of those
    ranges: none fires for a documented value - a key for sequence 4095 or lot 100000 can be made - and each fires just outside."""
    q = 'keys:bip38_intermediate_password'
    fn = ctx.repo.func(q)
    n = 0
    for i_ in ast.walk(fn):
        if not (isinstance(i_, ast.If) and any(isinstance(x, ast.Raise) for x in i_.body)):
            continue
        names = set(x.id for x in ast.walk(i_.test) if isinstance(x, ast.Name))
        for var, inside, outside in (('sequence', (0, 1, 2048, 4094, 4095), (-1, 4096)), ('lot', (100000, 100001, 524288, 999998, 999999), (99999, 1000000))):
            if names != {var}:
                continue
            n += 1
            for v, want in [(x, False) for x in inside] + [(x, True) for x in outside]:
                try:
                    r = bool(eval(compile(ast.Expression(i_.test), '<range>', 'eval'), {'__builtins__': {}}, {var: v}))
                except Exception as e:
                    ctx.undecided('bip38_intermediate_password: range test `%s` not evaluable: %r' % (norm(i_.test)[:50], e))
                if r != want:
                    ctx.violate(q, '`%s` %s %s = %d' % (norm(i_.test)[:60], 'refuses the documented value' if r else 'accepts the out-of-range value', var, v), i_,
                                'bip38_intermediate_password(passphrase, lot=..., sequence=4095) raises: no EC-multiplied key can be made for the last sequence number of a lot')
                    break
            ctx.saw('range test `%s` evaluated at the ends of the %s range' % (norm(i_.test)[:50], var))
    ctx.floor(n, 2, 'range tests of lot / sequence')
