"""C06 Transaction and block serialization round-trips; ids exact — writer/reader layout agreement."""
import ast

from ..core import Property, AnalysisError, unparse, norm, walk_no_nested
from ..sym import Interp, S, term, show, subterms, State, flatten_cat, rewrite
from ..layout import LAYOUT_HOOKS, Stream, canon_layout, normalize, plus_to_cat, opaque_subterms
from .. import intv, mut
from ..cfg import build_cfg
from . import c18

PROP = Property(
    'C06', 'Writer/reader agreement for transactions and blocks, txid layout, sibling readers',
    'Static: the field sequence Transaction.raw writes (widths, CompactSize counts, length-prefixed items, repeated groups, '
    'marker/flag, position of the witness section) is compared with the access sequence of Transaction.parse_bytesio '
    '(+ Input.parse / Output.parse) extracted with a stream model; every parsed field is pushed through the constructor '
    'conventions and the writer expression and must rewrite to the bytes that were read (decode/encode inverse per field); the '
    'dict block reader must read the same sequence and re-assemble rawtx / txid from exactly the pieces it read; the txid must '
    'hash the serialization without marker, flag and witness; block header writer/reader agree. Byte equality over all '
    'transactions is NOT decided beyond these per-field arguments.',
    ['io.BytesIO read/seek semantics', 'CompactSize reader/writer are inverse (C18)', 'a read of n bytes returns n bytes (well-formed input)'])

SELF = ('var', 'self')
A = lambda b, n: ('attr', b, n)
WIDTH = {'version': 4, 'prev_txid': 32, 'output_n': 4, 'prev_block': 32, 'merkle_root': 32, 'bits': 4, 'nonce': 4}


def _shapes(parts, ctx, what):
    """layout parts -> [('f', n) | ('v',) | ('b',) | ('rep', key, [...])]"""
    out = []
    for p in parts:
        if isinstance(p, bytes):
            if p:
                out.append(('f', len(p)))
            continue
        if not isinstance(p, tuple):
            ctx.undecided('%s: unexpected layout part %r' % (what, p))
        op = p[0]
        if op == 'rev' and isinstance(p[1], tuple) and p[1][0] == 'attr' and p[1][2] in WIDTH:
            out.append(('f', WIDTH[p[1][2]]))
        elif op == 'int2bytes' and isinstance(p[2], int):
            out.append(('f', p[2]))
        elif op == 'varint':
            out.append(('v',))
        elif op == 'varstr':
            out += [('v',), ('b',)]
        elif op == 'repeat':
            key = show(p[1])
            out.append(('rep', key, _shapes(flatten_cat(p[3]), ctx, what)))
        elif op == 'cond':
            a = _shapes(flatten_cat(p[2]), ctx, what)
            b = _shapes(flatten_cat(p[3]), ctx, what)
            test = show(p[1])
            if "nonstandard_0001" in test:
                # the repository's own work-around for the varstr(b'\\0') sentinel (accounted to finding D14): skip
                continue
            if b == [('f', 1)] and a and a[0] == ('v',) and p[3] == b'\x00':
                # (items ? CompactSize(n) . items : 00) == CompactSize(n) . items with n = 0 (canonical CompactSize, C18)
                out += a
                continue
            if a == b:
                out += a
                continue
            ctx.undecided('%s: conditional layout part not understood: %s' % (what, show(p)[:120]))
        else:
            ctx.undecided('%s: layout part outside the model: %s' % (what, show(p)[:100]))
    return out


def _reader_shapes(log, ctx, what):
    """stream access log -> shapes (loop nesting from the recorded loop context)"""
    # drop the trailing "seek(start); read(len)" re-read of the raw bytes
    log = list(log)
    while log and log[-1][1] == 'read' and len(log) >= 2 and log[-2][1] == 'seek' and len(log[-2][2]) == 1:
        log = log[:-2]

    def build(entries, depth):
        out = []
        i = 0
        while i < len(entries):
            ctxs, kind, n = entries[i]
            if len(ctxs) > depth:
                j = i
                while j < len(entries) and len(entries[j][0]) > depth and entries[j][0][:depth + 1] == ctxs[:depth + 1]:
                    j += 1
                out.append(('rep', ctxs[depth], build(entries[i:j], depth + 1)))
                i = j
                continue
            if kind == 'varint':
                out.append(('v',))
            elif kind == 'read':
                if isinstance(n, int):
                    out.append(('f', n))
                else:
                    # length taken from data read earlier (CompactSize or otherwise): a variable-length item
                    out.append(('b',))
            elif kind == 'seek':
                out.append(('seek',) + tuple(n))
            i += 1
        return out
    return build(log, 0)


def _fmt(shapes):
    def one(s):
        if s[0] == 'f':
            return '%dB' % s[1]
        if s[0] == 'v':
            return 'varint'
        if s[0] == 'b':
            return 'bytes[n]'
        if s[0] == 'rep':
            return '{%s}*' % ' '.join(one(x) for x in s[2])
        if s[0] == 'opt':
            return '(only when %s: %s | else: %s)' % (s[1], _fmt(s[2]) or 'nothing', _fmt(s[3]) or 'nothing')
        return str(s)
    return ' '.join(one(s) for s in shapes)


def _strip_keys(shapes):
    return [('rep', _strip_keys(s[2])) if s[0] == 'rep' else s for s in shapes]


def _flatten_unrolled(shapes):
    """groups that the evaluator unrolled (one representative element of a list it knows to be a repeat) are compared flat"""
    out = []
    for s in shapes:
        if s[0] == 'rep' and s[1] == 'concrete':
            out += _flatten_unrolled(s[2])
        elif s[0] == 'rep':
            out.append(('rep', s[1], _flatten_unrolled(s[2])))
        else:
            out.append(s)
    return out


def _tx_hooks(repo):
    def h_input_parse(interp, args, kw, st, node):
        return interp.inline_call(repo.func('transactions:Input.parse'), 'transactions', args, kw, st, self_val=S(('global', 'Input')))

    def h_output_parse(interp, args, kw, st, node):
        return interp.inline_call(repo.func('transactions:Output.parse'), 'transactions', args, kw, st, self_val=S(('global', 'Output')))
    hooks = dict(LAYOUT_HOOKS)
    hooks['Input.parse'] = h_input_parse
    hooks['Output.parse'] = h_output_parse
    return hooks


def _run_reader(ctx):
    repo = ctx.repo
    it = Interp(repo, 'transactions', hooks=_tx_hooks(repo), decide=lambda t: True if isinstance(t, tuple) and t[0] == 'isinstance' else None)
    it.assume_full_reads = True
    stm = Stream('rawtx')
    exits = it.run_function(repo.func('transactions:Transaction.parse_bytesio'), {'rawtx': stm, 'strict': True})
    rets = [e for e in exits if e.kind == 'return']
    if len(rets) != 1:
        ctx.undecided('Transaction.parse_bytesio: %d return paths' % len(rets))
    return stm, rets[0], exits


def _run_writer(ctx, wt):
    repo = ctx.repo
    it = Interp(repo, 'transactions', hooks=LAYOUT_HOOKS, self_cls='transactions:Transaction')
    exits = it.run_function(repo.func('transactions:Transaction.raw'), {'sign_id': None, 'hash_type': 1, 'witness_type': wt})
    rets = [e for e in exits if e.kind == 'return']
    if len(rets) != 1:
        ctx.undecided('Transaction.raw(None, %s): %d return paths' % (wt, len(rets)))
    return canon_layout(term(rets[0].value))


@PROP.obligation('C06.tx-order', canaries=[
    mut.replace_stmt('transactions', 'Transaction.raw', 'r += self.locktime.to_bytes(4, \'little\')', 'pass', 'locktime not written') if False else
    mut.replace_stmt('transactions', 'Transaction.raw', "r += i.sequence.to_bytes(4, 'little')", "r += i.sequence.to_bytes(8, 'little')", 'writer: 8-byte sequence'),
    mut.replace_expr('transactions', 'Input.parse', 'raw.read(32)', 'raw.read(31)', 'reader: 31-byte outpoint hash'),
    mut.replace_stmt('transactions', 'Output.parse', 'lock_script_size = read_varbyteint(raw)', 'lock_script_size = int.from_bytes(raw.read(1), "little")', 'reader: 1-byte script length'),
    mut.replace_expr('transactions', 'Transaction.parse_bytesio', 'rawtx.read(4)[::-1]', 'rawtx.read(8)[::-1]', 'reader: 8-byte locktime', nth=1),
])
def tx_order(ctx):
    """The sequence of fields Transaction.raw(sign_id=None) writes equals the sequence Transaction.parse_bytesio reads, for a
    segwit serialization (version, marker+flag, inputs, outputs, witness stacks, locktime) and a legacy one."""
    stm, ret, exits = _run_reader(ctx)
    rs = _reader_shapes(stm.log, ctx, 'Transaction.parse_bytesio')
    ctx.saw('reader : %s' % _fmt(rs))
    # the optional marker/flag probe: read 1, [read 1], seek(-1)
    ok_probe = len(rs) > 4 and rs[1] == ('f', 1) and rs[2] == ('f', 1) and rs[3][0] == 'seek' and rs[3][1:] == (-1, 1)
    if not ok_probe:
        ctx.violate('transactions:Transaction.parse_bytesio', 'marker/flag probe is %s, expected read(1), read(1) with seek(-1, 1) when there is no marker' % _fmt(rs[1:4]), None,
                    'legacy and segwit serializations are confused')
        return
    r_seg = [rs[0], ('f', 2)] + rs[4:]
    # legacy form: no marker/flag and no witness section (third top-level repeat group)
    reps = [i for i, s in enumerate(rs) if s[0] == 'rep']
    if len(reps) != 3:
        ctx.undecided('reader: expected three repeated groups (inputs, outputs, witness stacks), found %d' % len(reps))
    r_leg = [rs[0]] + [s for i, s in enumerate(rs[4:], 4) if i != reps[2]]
    for wt, rshape in (('segwit', r_seg), ('legacy', r_leg)):
        w = _run_writer(ctx, wt)
        ws = _shapes(flatten_cat(w), ctx, 'Transaction.raw(%s)' % wt)
        ctx.saw('writer %s: %s' % (wt, _fmt(ws)))
        if _strip_keys(ws) != _strip_keys(rshape):
            ctx.violate('transactions:Transaction.raw', '%s serialization writes [%s] but parse_bytesio reads [%s]' % (wt, _fmt(ws), _fmt(rshape)), ctx.repo.func('transactions:Transaction.raw'),
                        'a transaction the library writes is not read back with the same fields (or vice versa)')
    # the witness group iterates once per input (writer: self.inputs, reader: range(len(inputs)))
    w = _run_writer(ctx, 'segwit')
    wreps = [p for p in flatten_cat(w) if isinstance(p, tuple) and p[0] == 'repeat']
    ctx.require(len(wreps) == 3 and wreps[2][1] == A(SELF, 'inputs'), 'transactions:Transaction.raw', 'witness section is not one stack per input of self.inputs', None)


def _abstract_reads(t):
    """positions are irrelevant for the per-field argument: read(pos, n) -> rd(n), read-varint(pos) -> rv"""
    def f(x):
        if isinstance(x, tuple) and len(x) == 3 and x[0] == 'read':
            n = x[2]
            if isinstance(n, tuple) and n and n[0] in ('read-varint', 'rv'):
                n = 'V'
            return ('rd', n)
        if isinstance(x, tuple) and len(x) == 2 and x[0] == 'read-varint':
            return ('rv',)
        return None
    return rewrite(t, f)


def _inverse_norm(t):
    """int2bytes(bytes2int(x, e), w, e) = x for a w-byte x ; rev(rev(x)) = x (done by normalize)"""
    def f(x):
        if isinstance(x, tuple) and len(x) == 4 and x[0] == 'int2bytes' and isinstance(x[1], tuple) and len(x[1]) == 3 and x[1][0] == 'bytes2int':
            src, e1 = x[1][1], x[1][2]
            if e1 == x[3] and isinstance(src, tuple) and src[0] == 'rd' and src[1] == x[2]:
                return src
        return None
    return rewrite(normalize(t), f)


@PROP.obligation('C06.tx-fields', canaries=[
    mut.replace_expr('transactions', 'Output.parse', "int.from_bytes(raw.read(8)[::-1], 'big')", "int.from_bytes(raw.read(8), 'big')", 'reader: output value big-endian'),
    mut.replace_expr('transactions', 'Transaction.parse_bytesio', "rawtx.read(4)[::-1]", "int.from_bytes(rawtx.read(4), 'little')", 'reader: version handed over as int (0 is replaced by the default)', nth=0),
    mut.replace_expr('transactions', 'Input.parse', 'raw.read(32)[::-1]', 'raw.read(32)', 'reader: outpoint hash not reversed'),
    mut.replace_expr('transactions', 'Transaction.raw', "self.locktime.to_bytes(4, 'little')", "self.locktime.to_bytes(4, 'big')", 'writer: locktime big-endian'),
    mut.replace_expr('transactions', 'Transaction.__init__', "version.to_bytes(4, 'big')", "version.to_bytes(4, 'little')", 'constructor: int version stored little-endian') if False else
    mut.replace_expr('transactions', 'Input.__init__', "int.from_bytes(sequence, 'little')", "int.from_bytes(sequence, 'big')", 'constructor: parsed sequence decoded big-endian'),
])
def tx_fields(ctx):
    """For every field: the value parse_bytesio hands to the constructors, pushed through the constructor's storage convention and
    the expression Transaction.raw writes for that attribute, rewrites to exactly the bytes that were read (version, locktime,
    outpoint hash and index, script, sequence, output value, output script)."""
    repo = ctx.repo
    stm, ret, exits = _run_reader(ctx)
    rv = _abstract_reads(normalize(term(ret.value)))
    if not (isinstance(rv, tuple) and rv[0] == 'call' and rv[1] == 'Transaction'):
        ctx.undecided('parse_bytesio does not return Transaction(...)')
    pos_names = ['inputs', 'outputs', 'locktime', 'version', 'network']
    targs = dict(zip(pos_names, rv[2]))
    targs.update(dict(rv[3]))

    def first_ctor(t, name):
        for s in subterms(t):
            if isinstance(s, tuple) and len(s) == 4 and s[0] == 'call' and s[1] == name:
                return dict(s[3])
        ctx.undecided('parse_bytesio: no %s(...) construction found' % name)
    inp = first_ctor(targs.get('inputs'), 'Input')
    outp = first_ctor(targs.get('outputs'), 'Output')
    # constructor conventions, evaluated on the repository's constructors
    def tx_version(v):
        from .common_txinit import stored_version
        is_int = isinstance(v, tuple) and v and v[0] in ('bytes2int', 'int')
        return stored_version(ctx, v, is_int)[0]
    checks = []
    # (field name, stored attribute term, writer expression over that attribute, bytes expected)
    v_stored = tx_version(targs.get('version'))
    checks.append(('version', ('rev', v_stored), ('rd', 4)))
    lt = targs.get('locktime')
    checks.append(('locktime', ('int2bytes', lt, 4, 'little'), ('rd', 4)))
    checks.append(('input prev_txid', ('rev', inp.get('prev_txid')), ('rd', 32)))
    checks.append(('input output_n', ('rev', inp.get('output_n')), ('rd', 4)))
    # Input.__init__ decodes a bytes sequence little-endian (C01.storage); the writer emits LE4(sequence)
    fn_i = repo.func('transactions:Input.__init__')
    seq_conv = [n for n in walk_no_nested(fn_i) if isinstance(n, ast.Assign) and unparse(n.targets[0]) == 'self.sequence' and 'from_bytes' in unparse(n.value)]
    if len(seq_conv) != 1:
        ctx.undecided('Input.__init__: decoding of a parsed sequence not found')
    order = [a.value for a in ast.walk(seq_conv[0].value) if isinstance(a, ast.Constant) and a.value in ('little', 'big')]
    checks.append(('input sequence', ('int2bytes', ('bytes2int', inp.get('sequence'), order[0] if order else '?'), 4, 'little'), ('rd', 4)))
    checks.append(('input script', inp.get('unlocking_script'), ('rd', 'V')))
    checks.append(('output value', ('int2bytes', outp.get('value'), 8, 'little'), ('rd', 8)))
    checks.append(('output script', outp.get('lock_script'), ('rd', 'V')))
    # the writer really uses these expressions (taken from its layout)
    w = _run_writer(ctx, 'legacy')
    wtxt = show(w)
    for needle in ('Rev(self.version)', "LE4(self.locktime)", "Rev(elem(self.inputs, '_').prev_txid)", "Rev(elem(self.inputs, '_').output_n)",
                   "LE4(elem(self.inputs, '_').sequence)", "varstr(elem(self.inputs, '_').unlocking_script)", "LE8(elem(self.outputs, '_').value)",
                   "varstr(elem(self.outputs, '_').lock_script)"):
        if needle not in wtxt:
            ctx.violate('transactions:Transaction.raw', 'writer no longer emits %s (layout: %s)' % (needle, wtxt[:200]), repo.func('transactions:Transaction.raw'),
                        'field is written in a form the reader does not decode')
    for name, composed, expect in checks:
        got = _inverse_norm(composed)
        ctx.saw('%-16s write(parse(bytes)) = %s' % (name, show(got)[:90]))
        if got != expect:
            op = opaque_subterms(got)
            if op and not any(o[0] in ('rd', 'rv') for o in op if isinstance(o, tuple)) and False:
                ctx.undecided('%s: %s' % (name, show(got)[:100]))
            ctx.violate('transactions:Transaction.parse_bytesio', 'field %s: re-serializing the parsed value gives %s instead of the %s bytes that were read' % (name, show(got)[:140], expect[1]), None,
                        'parse followed by serialize does not reproduce the transaction bytes for that field')


@PROP.obligation('C06.txid', canaries=[
    mut.replace_expr('transactions', 'Transaction.__init__', 'self.signature_hash()[::-1].hex()', 'double_sha256(self.raw())[::-1].hex()', 'txid over the witness serialization'),
    mut.replace_expr('transactions', 'Transaction.parse_bytesio', "'' if witness_type == 'segwit' else double_sha256(raw_bytes)[::-1].hex()", "double_sha256(raw_bytes)[::-1].hex()", 'parsed segwit txid hashes the witness bytes'),
    mut.replace_expr('transactions', 'Transaction.signature', "witness_type == 'legacy' or sign_id is None", "witness_type == 'legacy'", 'signature(None) of a segwit tx no longer the stripped serialization'),
])
def txid(ctx):
    """txid = reversed double-SHA256 of the serialization WITHOUT marker, flag and witness: Transaction.__init__ derives a missing txid
    from signature_hash() = dsha256(raw(None, ., 'legacy')); parse_bytesio hashes the raw bytes only for non-segwit input."""
    repo = ctx.repo
    q = 'transactions:Transaction.__init__'
    fn = repo.func(q)
    st_nodes = [n for n in walk_no_nested(fn) if isinstance(n, ast.Assign) and unparse(n.targets[0]) == 'self.txid' and 'txid' != unparse(n.value)]
    ctx.saw('Transaction.__init__: txid fallback %s' % [norm(n.value) for n in st_nodes])
    ok = len(st_nodes) == 1 and norm(st_nodes[0].value) == 'self.signature_hash()[::-1].hex()'
    ctx.require(ok, q, 'a missing txid is computed as %s, expected self.signature_hash()[::-1].hex()' % [norm(n.value) for n in st_nodes], fn,
                'txid of a segwit transaction would include marker, flag and witness data')
    # signature(None, ...) -> raw(None, hash_type, 'legacy')  for every transaction witness type
    q = 'transactions:Transaction.signature'
    fn = repo.func(q)
    for wt in ('legacy', 'segwit'):
        it = Interp(repo, 'transactions', self_cls='transactions:Transaction', decide=lambda t, w=wt: None)
        st = State(env={})
        st.heap[A(SELF, 'witness_type')] = wt
        exits = it.run_function(fn, {'sign_id': None, 'hash_type': 1, 'witness_type': None}, st)
        rets = [e for e in exits if e.kind == 'return']
        v = term(rets[0].value) if rets else None
        ctx.saw('signature(sign_id=None) for a %s transaction -> %s' % (wt, show(v)))
        ctx.require(v == ('mcall', SELF, 'raw', (None, 1, 'legacy'), ()), q, 'with sign_id=None a %s transaction is serialized as %s, expected raw(None, hash_type, "legacy")' % (wt, show(v)), fn,
                    'the id of a segwit transaction would cover witness data')
    w = _run_writer(ctx, 'legacy')
    parts = flatten_cat(w)
    ctx.require(not any(p == b'\x00\x01' for p in parts) and len([p for p in parts if isinstance(p, tuple) and p[0] == 'repeat']) == 2,
                'transactions:Transaction.raw', "raw(None, ., 'legacy') contains marker/flag or a witness section", None)
    q = 'transactions:Transaction.parse_bytesio'
    stm, ret, exits = _run_reader(ctx)
    kw = dict(term(ret.value)[3])
    t = kw.get('txid')
    ctx.saw('parse_bytesio txid = %s' % show(normalize(t))[:160])
    ok = isinstance(t, tuple) and t[0] == 'cond' and t[2] == '' and isinstance(t[3], tuple) and t[3][0] == 'hex'
    if ok:
        test = show(t[1])
        ok = "== 'segwit'" in test
        body = normalize(t[3][1])
        ok = ok and isinstance(body, tuple) and body[0] == 'rev' and body[1][:2] == ('hash', 'dsha256')
    ctx.require(ok, q, 'txid of a parsed transaction is %s; the raw bytes may be hashed only for non-segwit input' % show(normalize(t))[:160], None,
                'the id of a parsed segwit transaction would be the wtxid')


def _dict_reader(ctx):
    repo = ctx.repo
    hooks = dict(LAYOUT_HOOKS)
    it = Interp(repo, 'blocks', hooks=hooks, self_cls='blocks:Block', decide=lambda t: True if isinstance(t, tuple) and t[0] in ('isinstance',) else None)
    it.assume_full_reads = True
    stm = Stream('txs')
    st = State(env={})
    st.heap[A(SELF, 'txs_data')] = stm
    exits = it.run_function(repo.func('blocks:Block.parse_transaction_dict'), {'index': S(('var', 'index'), 'int')}, st)
    return stm, exits


@PROP.obligation('C06.siblings', canaries=[
    mut.replace_stmt('blocks', 'Block.parse_transaction_dict', 'witnesses_raw += raw_n_items', 'pass', 'dict reader: stack count of an input dropped from rawtx') if False else
    mut.drop_stmt('blocks', 'Block.parse_transaction_dict', 'witnesses_raw += raw_n_items', 'dict reader: witness stack count missing from rawtx'),
    mut.replace_expr('blocks', 'Block.parse_transaction_dict', 'self.txs_data.read(8)', 'self.txs_data.read(4)', 'dict reader: 4-byte output value'),
    mut.replace_expr('blocks', 'Block.parse_transaction_dict', "tx['version'][::-1] + raw_n_inputs + inputs_raw + raw_n_outputs + outputs_raw + tx_locktime", "tx['version'][::-1] + raw_flag + raw_n_inputs + inputs_raw + raw_n_outputs + outputs_raw + tx_locktime", 'dict reader: txid includes marker/flag'),
])
def siblings(ctx):
    """Block.parse_transaction_dict reads the same field sequence as Transaction.parse_bytesio; its rawtx is the concatenation of
    every piece it read, in order, and its txid hashes the same pieces without flag and witness pieces."""
    stm_t, ret_t, _ = _run_reader(ctx)
    rs_t = _reader_shapes(stm_t.log, ctx, 'Transaction.parse_bytesio')
    stm_d, exits = _dict_reader(ctx)
    rs_d = _reader_shapes(stm_d.log, ctx, 'Block.parse_transaction_dict')
    ctx.saw('tx reader  : %s' % _fmt(rs_t))
    ctx.saw('dict reader: %s' % _fmt(rs_d))
    q = 'blocks:Block.parse_transaction_dict'
    fn = ctx.repo.func(q)
    if _strip_keys(rs_t) != _strip_keys(rs_d):
        ctx.violate(q, 'reads [%s] whereas Transaction.parse_bytesio reads [%s]' % (_fmt(rs_d), _fmt(rs_t)), fn,
                    'the two readers of one format disagree: a transaction parsed from a block differs from the same transaction parsed alone')
    rets = [e for e in exits if e.kind == 'return' and isinstance(e.value, dict)]
    if not rets:
        ctx.undecided('parse_transaction_dict: no dictionary result')
    tx = rets[-1].value
    raw = _abstract_reads(canon_layout(term(tx.get('rawtx'))))
    tid = _abstract_reads(canon_layout(term(tx.get('txid'))))
    pieces = flatten_cat(raw)
    ctx.saw('rawtx = %s' % show(raw)[:300])
    # every piece must be something that was read (rd / raw varint / repeats of those) or the marker+flag constant
    def leaf_ok(p):
        if isinstance(p, bytes):
            return p == b'\x00\x01'
        if isinstance(p, tuple) and p[0] in ('rd', 'raw-varint'):
            return True
        if isinstance(p, tuple) and p[0] == 'rev' and isinstance(p[1], tuple) and p[1][0] == 'rev':
            return True
        if isinstance(p, tuple) and p[0] == 'repeat':
            return all(leaf_ok(x) for x in flatten_cat(p[3]))
        if isinstance(p, tuple) and p[0] == 'cond':
            return all(leaf_ok(x) for x in flatten_cat(p[2])) and all(leaf_ok(x) for x in flatten_cat(p[3]))
        if isinstance(p, tuple) and p[0] == 'after-loop':
            return True
        return False
    bad = [p for p in pieces if not leaf_ok(p)]
    ctx.require(not bad, q, 'rawtx contains %s which is not a piece that was read' % show(bad[0])[:100] if bad else '', fn)
    rshape = _piece_shapes(pieces, ctx)
    # the marker/flag pair is present exactly when the probe byte was 00 (the reader consumed 2 bytes then, else it seeks back)
    if len(rshape) > 1 and rshape[1][0] == 'opt' and "== 00'h" in rshape[1][1] and rshape[1][2] == [('f', 2)] and rshape[1][3] == []:
        rshape[1] = ('f', 2)
    # the witness section is re-assembled exactly when the serialization is segwit (the reader reads it under the same test)
    norm_shape = []
    for x in rshape:
        if x[0] == 'opt' and "'segwit'" in x[1] and x[3] == []:
            norm_shape += x[2]
        else:
            norm_shape.append(x)
    rshape = norm_shape
    ctx.saw('rawtx pieces : %s' % _fmt(rshape))
    want = [rs_d[0], ('f', 2)] + [s for s in rs_d[4:]]
    if _strip_keys(_flatten_unrolled(rshape)) != _strip_keys(_flatten_unrolled(want)):
        ctx.violate(q, 'rawtx re-assembles [%s] but the reader consumed [%s]' % (_fmt(rshape), _fmt(want)), fn,
                    'the raw transaction reported for a block transaction is not the bytes of that transaction')
    if not (isinstance(tid, tuple) and tid[0] == 'rev' and tid[1][:2] == ('hash', 'dsha256')):
        ctx.undecided('dict reader txid is not Rev(dsha256(...)): %s' % show(tid)[:100])
    tshape = _piece_shapes(flatten_cat(tid[1][2]), ctx)
    ctx.saw('txid pieces  : %s' % _fmt(tshape))
    reps = [i for i, s in enumerate(want) if s[0] == 'rep']
    want_id = [want[0]] + [s for i, s in enumerate(want[2:], 2) if i != reps[2]]
    if _strip_keys(_flatten_unrolled(tshape)) != _strip_keys(_flatten_unrolled(want_id)):
        ctx.violate(q, 'txid hashes [%s], expected the stripped serialization [%s]' % (_fmt(tshape), _fmt(want_id)), fn,
                    'ids reported by the dict reader differ from the real transaction ids')


def _piece_shapes(pieces, ctx):
    out = []
    for p in pieces:
        if isinstance(p, bytes):
            out.append(('f', len(p)))
        elif isinstance(p, tuple) and p[0] == 'rd':
            out.append(('f', p[1]) if isinstance(p[1], int) else ('b',))
        elif isinstance(p, tuple) and p[0] == 'raw-varint':
            out.append(('v',))
        elif isinstance(p, tuple) and p[0] == 'rev' and isinstance(p[1], tuple) and p[1][0] == 'rev':
            out += _piece_shapes([p[1][1]], ctx)
        elif isinstance(p, tuple) and p[0] == 'repeat':
            out.append(('rep', show(p[1])[:40], _piece_shapes(flatten_cat(p[3]), ctx)))
        elif isinstance(p, tuple) and p[0] == 'cond':
            a, b = _piece_shapes(flatten_cat(p[2]), ctx), _piece_shapes(flatten_cat(p[3]), ctx)
            if a == b:
                out += a
            elif (not a or not b) and all(x[0] == 'rep' for x in (a or b)):
                out += (a or b)          # a repeated group may be empty on one branch
            else:
                out.append(('opt', show(p[1])[:60], a, b))   # a piece present on one branch only
        else:
            ctx.undecided('dict reader: piece %s not understood' % show(p)[:80])
    return out


@PROP.obligation('C06.block', canaries=[
    mut.replace_expr('blocks', 'Block.serialize', "self.time.to_bytes(4, 'little')", "self.time.to_bytes(4, 'big')", 'block writer: time big-endian'),
    mut.replace_expr('blocks', 'Block.parse_bytesio', 'raw.read(80)', 'raw.read(84)', 'block hash over 84 bytes'),
    mut.replace_expr('blocks', 'Block.target', 'exponent - 3', 'exponent - 2', 'target exponent off by one'),
    mut.replace_stmt('blocks', 'Block.serialize', 'rb += self.merkle_root[::-1]', 'rb += self.merkle_root', 'block writer: merkle root not reversed'),
])
def block(ctx):
    """Block.serialize writes version . prev_block . merkle_root . time . bits . nonce (4,32,32,4,4,4 bytes, reversed / little-endian) .
    CompactSize(#tx) . each transaction's raw(); Block.parse_bytesio reads the same sequence, hashes the first 80 bytes for the block
    id and compares a supplied hash; target = coefficient * 256**(exponent - 3)."""
    repo = ctx.repo
    q = 'blocks:Block.serialize'
    fn = repo.func(q)
    it = Interp(repo, 'blocks', hooks=LAYOUT_HOOKS, self_cls='blocks:Block', decide=lambda t: False if isinstance(t, tuple) and t[0] == 'cmp' and t[1] == '!=' and t[3] == 80 else None)
    exits = it.run_function(fn, {})
    rets = [e for e in exits if e.kind == 'return']
    if len(rets) != 1:
        ctx.undecided('Block.serialize: %d return paths' % len(rets))
    w = canon_layout(term(rets[0].value))
    ctx.saw('Block.serialize = %s' % show(w)[:300])
    exp = ('cat', (('rev', A(SELF, 'version')), ('rev', A(SELF, 'prev_block')), ('rev', A(SELF, 'merkle_root')), ('int2bytes', A(SELF, 'time'), 4, 'little'),
                   ('rev', A(SELF, 'bits')), ('rev', A(SELF, 'nonce')), ('varint', ('len', A(SELF, 'transactions'))),
                   ('repeat', A(SELF, 'transactions'), '_', ('mcall', ('elem', A(SELF, 'transactions'), '_'), 'raw', (), ()))))
    if w != exp:
        from ..layout import diff_layout
        d = diff_layout(w, exp)
        pos, gm, em = d[0]
        ctx.violate(q, 'block layout part %d is %s, expected %s' % (pos, ' . '.join(show(x) for x in gm)[:160], ' . '.join(show(x) for x in em)[:160]), fn,
                    'serialized blocks do not re-parse to the same header')
    q = 'blocks:Block.parse_bytesio'
    fn = repo.func(q)
    stm = Stream('raw')
    it = Interp(repo, 'blocks', hooks=LAYOUT_HOOKS, decide=lambda t: True if isinstance(t, tuple) and t[0] == 'isinstance' else None)
    it.assume_full_reads = True
    exits = it.run_function(fn, {'raw': stm, 'block_hash': S(('var', 'block_hash')), 'parse_transactions': False})
    log = [(c, k, n) for (c, k, n) in stm.log]
    reads = [n for (c, k, n) in log if k == 'read']
    ctx.saw('Block.parse_bytesio reads %s' % [show(x) for x in reads][:10])
    ctx.require(reads[:7] == [80, 4, 32, 32, 4, 4, 4], q, 'header is read as %s, expected 80 (hash), then 4, 32, 32, 4, 4, 4' % reads[:7], fn)
    ctx.require(any(k == 'varint' for (c, k, n) in log), q, 'transaction count is not read as CompactSize', fn)
    rets = [e for e in exits if e.kind == 'return']
    if not rets:
        ctx.undecided('Block.parse_bytesio: no return')
    rv = normalize(term(rets[-1].value))
    args = rv[2]
    p0 = ('var', 'raw.pos0')
    want_hash = ('rev', ('hash', 'dsha256', ('read', p0, 80)))
    hs = [s for s in subterms(rv) if isinstance(s, tuple) and s[:2] == ('hash', 'dsha256')]
    ctx.require(any(h == want_hash[1] for h in hs) or not hs, q, 'block hash is computed over %s, expected the first 80 bytes' % [show(h)[:60] for h in hs], fn)
    ctx.require(any(e.kind == 'raise' and any(isinstance(t, tuple) and t[0] == 'cmp' and t[1] == '!=' and ('var', 'block_hash') in (t[2], t[3]) for t, pol in e.pc if pol) for e in exits), q,
                'a supplied block hash that differs from the computed one is not refused', fn)
    hdr = [normalize(a) for a in args[1:7]]
    ctx.saw('header fields: %s' % [show(h)[:40] for h in hdr])
    ctx.require(all(isinstance(h, tuple) and h[0] == 'rev' and h[1][0] == 'read' for h in hdr), q, 'header fields are not stored as the reversed wire bytes: %s' % [show(h)[:40] for h in hdr], fn)
    q = 'blocks:Block.target'
    fn = repo.func(q)
    it = Interp(repo, 'blocks', self_cls='blocks:Block', decide=lambda t: True if t == A(SELF, 'bits') else None)
    exits = it.run_function(fn, {})
    v = term([e for e in exits if e.kind == 'return'][-1].value)
    ctx.saw('target = %s' % show(v)[:140])
    bits = A(SELF, 'bits')
    try:
        # evaluate the arithmetic shape with coefficient c and exponent e as atoms
        coef = [s for s in subterms(v) if isinstance(s, tuple) and s[0] == 'bytes2int']
        expo = ('index', bits, 0)
        vals = [intv.value_eval(v, {coef[0]: c, expo: e}) for c, e in ((1, 3), (0xffff, 0x1d), (2, 4))]
    except Exception:
        ctx.undecided('Block.target not evaluable')
    ctx.require(vals == [1, 0xffff * 256 ** (0x1d - 3), 512], q, 'target(coefficient, exponent) gives %s for (1,3),(0xffff,0x1d),(2,4); expected coefficient * 256**(exponent-3)' % [str(x)[:20] for x in vals], fn)
    ctx.require(bool(coef) and coef[0][2] == 'big' and show(coef[0][1]).endswith('self.bits[1:]'), q, 'coefficient is %s, expected the last three bytes of bits, big-endian' % show(coef[0])[:80], fn)


PROP.obligation('C06.varint', canaries=[mut.cmpop('encoding', 'int_to_varbyteint', 'inp <= 65535', ast.Lt, 'count 0xffff written non-canonically')])(c18.canonical)
PROP.obligation('C06.varint-readers')(c18.readers)
PROP.obligation('C06.prefix-total')(c18.prefix_total)


@PROP.obligation('C06.injective')
def injective(ctx):
    """The witness reader maps distinct wire items to distinct stored values (an empty item and the one-byte item 00 must not collide)."""
    q = 'transactions:Transaction.parse_bytesio'
    fn = ctx.repo.func(q)
    hits = []
    for n in walk_no_nested(fn):
        if isinstance(n, ast.If) and 'item_size == 0' in unparse(n.test):
            for s in n.body:
                if isinstance(s, ast.Assign) and isinstance(s.value, ast.Constant) and s.value.value not in (b'',):
                    hits.append((n, s))
    ctx.saw('witness reader: special case for empty items: %s' % [norm(s) for n, s in hits])
    for n, s in hits:
        ctx.violate(q, 'an empty witness item is stored as %r, the same value as the one-byte item %r read from the wire' % (s.value.value, s.value.value), n,
                    'the items <empty> and 00 are indistinguishable after parsing: one of them cannot re-serialize identically')
    if not hits:
        ctx.saw('no collision')


@PROP.obligation('C06.block-readers-agree', canaries=[
    mut.replace_expr('blocks', 'Block.parse_transaction', 'Transaction.parse_bytesio(self.txs_data, strict=False, network=self.network)', 'Transaction.parse_bytesio(self.txs_data, network=self.network)', 'incremental block reader parses strictly'),
    mut.replace_expr('blocks', 'Block.parse_bytesio', 'Transaction.parse_bytesio(raw, strict=False, network=network, index=index)', 'Transaction.parse_bytesio(raw, strict=False, index=index)', 'eager block reader parses on the default network'),
])
def block_readers_agree(ctx):
    """The three block readers (Block.parse_bytesio eager loop, Block.parse_transactions, Block.parse_transaction) call
    Transaction.parse_bytesio the same way: strict=False (blocks contain non-standard scripts; a strict reader raises on them) and the
    network of the block (otherwise addresses and values of the transactions are reported on the default network)."""
    m = ctx.repo.mod('blocks')
    sites = []
    for q, f in m.functions.items():
        for c in ast.walk(f):
            if isinstance(c, ast.Call) and norm(c.func) == 'Transaction.parse_bytesio':
                kw = {k.arg: norm(k.value) for k in c.keywords}
                pos = [norm(a) for a in c.args]
                sites.append((q, c, kw, pos))
    ctx.floor(len(sites), 3, 'Transaction.parse_bytesio call sites in blocks.py')
    for q, c, kw, pos in sites:
        qual = 'blocks:%s' % q
        ctx.saw('%s: parse_bytesio(%s)' % (qual, ', '.join(pos[1:] + ['%s=%s' % kv for kv in sorted(kw.items())])))
        strict = kw.get('strict', pos[1] if len(pos) > 1 else None)
        net = kw.get('network', pos[2] if len(pos) > 2 else None)
        if strict is None:
            ctx.violate(qual, 'this block reader calls Transaction.parse_bytesio without strict=False while its siblings pass it', c,
                        'blocks with non-standard scripts or data-only witness items cannot be read through this reader')
        elif strict != 'False':
            ctx.unsure('%s: strict=%s' % (qual, strict))
        if net is None:
            ctx.violate(qual, 'this block reader calls Transaction.parse_bytesio without the network of the block while its siblings pass it', c,
                        'Block.parse(raw, parse_transactions=True, network=litecoin) reports bitcoin addresses for the outputs')
        elif net not in ('network', 'self.network', 'self.network.name'):
            ctx.unsure('%s: network=%s' % (qual, net))


@PROP.obligation('C06.legacy-no-witness', canaries=[
    mut.replace_expr('transactions', 'Transaction.raw', "i.witnesses and i.witness_type != 'legacy'", 'i.witnesses', 'legacy inputs serialised with a witness stack'),
])
def legacy_no_witness(ctx):
    """Transaction.raw: Input.update_scripts fills Input.witnesses with [signature, key] for every single-key input, also legacy P2PKH ones.
    The statement that serialises the witness stack of an input is therefore guarded by a test that is false for witness_type 'legacy'
    (evaluated) - a legacy input inside a segwit-serialised transaction carries the empty stack 00 - and true for segwit and p2sh-segwit."""
    q = 'transactions:Transaction.raw'
    fn = ctx.repo.func(q)
    ifs = [n for n in ast.walk(fn) if isinstance(n, ast.If) and any(isinstance(x, ast.AugAssign) and norm(x.target) == 'r_witness' and 'witnesses' in norm(x.value) for x in n.body)]
    if len(ifs) != 1:
        ctx.undecided('Transaction.raw: statement that serialises the witness stack of an input not found')
    it = Interp(ctx.repo, 'transactions', self_cls='transactions:Transaction')
    I = ('var', 'i')
    res = {}
    import itertools
    # other names the guard reads (the serialisation format of the whole transaction): the verdict for a legacy input must not depend on them
    free = sorted(set(x.id for x in ast.walk(ifs[0].test) if isinstance(x, ast.Name) and x.id not in ('i', 'self')))
    for wt in ('legacy', 'segwit', 'p2sh-segwit'):
        vals = set()
        for combo in itertools.product(('segwit', 'legacy', 'p2sh-segwit'), repeat=len(free)):
            st = State(env=dict({'i': S(I), 'self': S(('var', 'self'))}, **dict(zip(free, combo))))
            st.heap[('attr', I, 'witnesses')] = [b'sig', b'key']
            st.heap[('attr', I, 'witness_type')] = wt
            st.heap[('attr', ('var', 'self'), 'witness_type')] = combo[0] if combo else 'segwit'
            v = it.truth(it.eval(ifs[0].test, st), st)
            if not isinstance(v, bool):
                ctx.undecided('Transaction.raw: witness guard `%s` not decidable' % norm(ifs[0].test))
            if combo and combo[0] == 'legacy' and wt != 'legacy':
                continue        # a transaction serialised in the legacy format has no witness section at all
            vals.add(v)
        res[wt] = (True in vals) if wt == 'legacy' else (False not in vals)
    ctx.saw('input with a filled witnesses list: stack serialised for %s' % res)
    ctx.require(res['legacy'] is False, q, 'the witness stack of a LEGACY input is serialised (guard `%s`)' % norm(ifs[0].test), ifs[0],
                'a parsed transaction that mixes P2PKH and segwit inputs re-serialises 107 bytes longer per legacy input')
    ctx.require(res['segwit'] and res['p2sh-segwit'], q, 'the witness stack of segwit inputs is not serialised', ifs[0])
    ctx.require(any(isinstance(x, ast.AugAssign) and norm(x.target) == 'r_witness' and norm(x.value) in ("b'\\x00'",) for x in ifs[0].orelse), q, 'inputs without witness do not get the empty stack 00', ifs[0])


@PROP.obligation('C06.witness-default', canaries=[
    mut.replace_stmt('transactions', 'Input.__init__', 'if not self.witnesses:', "self.witness_type = 'legacy'", 'input with a witness stack and a script type defaults to legacy', nth=0),
    mut.replace_expr('transactions', 'Input.__init__', "['p2sh_p2wpkh', 'p2sh_p2wsh']", "['p2sh_p2wpkh']", 'p2sh_p2wsh inputs default to legacy', nth=1),
    mut.replace_expr('transactions', 'Input.__init__', 'witnesses[cursor + size:cursor + item_size + size]', 'witnesses[cursor + size:cursor + item_size]', 'serialised witness items cut short'),
])
def witness_default(ctx):
    """Input.__init__ without witness_type (the form add_input receives from providers and dictionaries): the statements that read or write
    witness_type / witnesses are evaluated for every script type with and without a witness stack. An input given a non-empty stack ends
    as segwit (p2sh-segwit for the nested script types), one without as legacy - Transaction.raw only serialises the stack of
    non-legacy inputs (C06.legacy-no-witness), so a legacy default drops the witness data that was handed over."""
    q = 'transactions:Input.__init__'
    fn = ctx.repo.func(q)

    def mentions(s):
        for n in ast.walk(s):
            if isinstance(n, ast.Name) and n.id in ('witness_type', 'witnesses'):
                return True
            if isinstance(n, ast.Attribute) and n.attr in ('witness_type', 'witnesses'):
                return True
        return False
    stmts = [x for x in fn.body if mentions(x) and not (isinstance(x, ast.Expr) and isinstance(x.value, ast.Constant))]
    ctx.floor(len(stmts), 4, 'statements of Input.__init__ touching witness_type / witnesses')
    I = ('var', 'self')
    n = 0
    for stype in ('sig_pubkey', 'p2sh_multisig', 'signature', None, 'p2sh_p2wpkh', 'p2sh_p2wsh'):
        for wit, label in (([S(('var', 'w0'), 'bytes'), S(('var', 'w1'), 'bytes')], 'a witness stack'), (None, 'no witnesses'), ([], 'an empty witness list')):
            it = Interp(ctx.repo, 'transactions', hooks=LAYOUT_HOOKS, self_cls='transactions:Input')
            st = State(env={'self': S(I), 'witness_type': None, 'witnesses': wit, 'encoding': None, 'script_type': stype, 'signatures': None, 'keys': None, 'strict': True,
                            'sigs_required': None, 'address': ''})
            for k, v in (('script_type', stype), ('unlocking_script', b''), ('locking_script', None), ('signatures', []), ('keys', []), ('address_obj', None)):
                st.heap[('attr', I, k)] = v
            it.frames.append([])
            try:
                for x in stmts:
                    st = it.exec_stmt(x, st)
                    if st is None:
                        break
            except AnalysisError as e:
                ctx.undecided('Input.__init__(script_type=%r, %s): witness-type statements not evaluable: %s' % (stype, label, str(e)[:100]))
            if st is None:
                ctx.undecided('Input.__init__(script_type=%r, %s): constructor ends inside the witness-type statements' % (stype, label))
            got = term(st.heap.get(('attr', I, 'witness_type')))
            exp = 'p2sh-segwit' if stype in ('p2sh_p2wpkh', 'p2sh_p2wsh') else ('segwit' if wit else 'legacy')
            n += 1
            ctx.saw('script_type=%s, %s -> witness_type %s' % (stype, label, show(got)[:60]))
            ctx.require(got == exp, q, 'an input created with script_type=%r and %s (no witness_type) ends with witness_type %s, expected %r' % (stype, label, show(got)[:80], exp), fn,
                        'Transaction.raw serialises the witness stack only for non-legacy inputs: the witness data handed to add_input is dropped from the transaction' if wit else
                        'an input without witness data is serialised in the segwit format')
    ctx.floor(n, 18, 'script type x witness combinations')
    # an input described by the scriptPubKey it spends (locking_script): a witness program (0014.. / 0020..) makes it a segwit input whether or
    # not the caller also names the script type - the BIP143 digest and the witness serialisation depend on it
    LS = ('var', 'ls')
    for prog, stype in (('p2wpkh', None), ('p2wpkh', 'sig_pubkey'), ('p2wsh', None), ('p2wsh', 'p2sh_multisig')):
        hooks = dict(LAYOUT_HOOKS)
        hooks['Script.parse_bytes'] = lambda interp, args, kwargs, st_, node: S(LS)
        it = Interp(ctx.repo, 'transactions', hooks=hooks, self_cls='transactions:Input')
        st = State(env={'self': S(I), 'witness_type': None, 'witnesses': None, 'encoding': None, 'script_type': stype, 'signatures': None, 'keys': None, 'strict': True,
                        'sigs_required': None, 'address': ''})
        for k, v in (('script_type', stype), ('unlocking_script', b''), ('locking_script', b'\x00\x20' + b'\x11' * 32 if prog == 'p2wsh' else b'\x00\x14' + b'\x11' * 20),
                     ('signatures', []), ('keys', []), ('address_obj', None), ('public_hash', b'')):
            st.heap[('attr', I, k)] = v
        st.heap[('attr', LS, 'script_types')] = [prog]
        st.heap[('attr', LS, 'public_hash')] = b'\x11' * (32 if prog == 'p2wsh' else 20)
        it.frames.append([])
        try:
            for x in stmts:
                st = it.exec_stmt(x, st)
                if st is None:
                    break
        except AnalysisError as e:
            ctx.undecided('Input.__init__(locking_script=%s program, script_type=%r): witness-type statements not evaluable: %s' % (prog, stype, str(e)[:100]))
        got = term(st.heap.get(('attr', I, 'witness_type'))) if st is not None else None
        ctx.saw('locking_script %s, script_type=%s -> witness_type %s' % (prog, stype, show(got)[:40]))
        ctx.require(got == 'segwit', q, 'an input that spends a %s scriptPubKey (given as locking_script) with script_type=%r ends with witness_type %s, expected segwit' % (prog, stype, show(got)[:60]), fn,
                    'the input is signed and checked with the legacy preimage instead of BIP143 and serialised with a scriptSig: verify() is True, the signatures are invalid on the network')
    # the same statements on a witness stack handed over as one serialised byte string (the form the wallet database and the service
    # cache store): every item is decoded from its own length and bytes; an empty item is the library's placeholder 00, whatever precedes it
    def ser(items):
        return bytes([len(items)]) + b''.join(bytes([len(x)]) + x for x in items)
    stacks = [[b'\xaa\xbb', b'', b'\xcc'], [b'', b'\x30\x01', b'\x30\x02', b'', b'\x51'], [b'', b'\xaa'], [b'\xaa', b'\xbb\xcc'], [b'\xaa', b'', b'']]
    for items in stacks:
        it = Interp(ctx.repo, 'transactions', self_cls='transactions:Input', inline={'varbyteint_to_int', 'encoding:varbyteint_to_int'})
        st = State(env={'self': S(I), 'witness_type': 'segwit', 'witnesses': ser(items), 'encoding': None, 'script_type': 'p2sh_multisig', 'signatures': None, 'keys': None, 'strict': True,
                        'sigs_required': None, 'address': ''})
        for k, v in (('script_type', 'p2sh_multisig'), ('unlocking_script', b''), ('locking_script', None), ('signatures', []), ('keys', []), ('address_obj', None)):
            st.heap[('attr', I, k)] = v
        it.frames.append([])
        try:
            for x in stmts:
                st = it.exec_stmt(x, st)
                if st is None:
                    break
        except AnalysisError as e:
            ctx.undecided('Input.__init__: decoder of a serialised witness stack not evaluable: %s' % str(e)[:100])
        got = st.heap.get(('attr', I, 'witnesses')) if st is not None else None
        exp = [x if x else b'\x00' for x in items]
        ctx.saw('serialised stack %s -> %s' % (ser(items).hex(), [g.hex() if isinstance(g, bytes) else show(term(g)) for g in got] if isinstance(got, list) else got))
        ctx.require(got == exp, q, 'the serialised witness stack %s is decoded as %s, its items are %s' % (ser(items).hex(), [g.hex() if isinstance(g, bytes) else '?' for g in got] if isinstance(got, list) else got, [x.hex() for x in exp]), fn,
                    'an input reloaded from the database / built with add_input(witnesses=<bytes>) serialises another witness stack than the one it was given')


@PROP.obligation('C06.bip34-guard', canaries=[
    mut.replace_expr('blocks', 'Block.__init__', 'height and calc_height != height and (height > 227835)', 'height and calc_height != height', 'height mismatch raised for blocks whose height push is shorter than 3 bytes'),
])
def bip34_guard(ctx):
    """Block.__init__ reads the BIP34 height as the fixed three bytes coinbase_script[1:4]; that is the height only when the push is 3 bytes
    long (heights 32768 and up; below, OP_n / 1- / 2-byte pushes are followed by other script bytes). The consistency check that raises
    on calc_height != height must therefore be switched off for every caller-given height below that, whatever was decoded - otherwise a
    well-formed low-height version-2 block handed over with its correct height is refused."""
    q = 'blocks:Block.__init__'
    fn = ctx.repo.func(q)
    calc = [n for n in ast.walk(fn) if isinstance(n, ast.Assign) and norm(n.targets[0]) == 'calc_height']
    ifs = [n for n in ast.walk(fn) if isinstance(n, ast.If) and any(isinstance(x, ast.Raise) for x in n.body) and 'calc_height' in norm(n.test)]
    if not calc:
        ctx.saw('Block.__init__ no longer derives calc_height: nothing to check')
        return
    fixed = all('[1:4]' in norm(c.value) for c in calc)
    ctx.saw('calc_height = %s' % '; '.join(norm(c.value)[:110] for c in calc))
    if not fixed:
        ctx.saw('the height is no longer decoded from a fixed 3-byte slice: the premise of the rule is gone')
        return
    ctx.saw('%d raising consistency checks on calc_height' % len(ifs))
    for n in ifs:
        for h in (1, 16, 17, 127, 128, 255, 256, 32767):
            it = Interp(ctx.repo, 'blocks', self_cls='blocks:Block')
            st = State(env={'self': S(('var', 'self')), 'height': h, 'calc_height': S(('var', 'calc_height'), 'int')})
            try:
                t = it.truth(it.eval(n.test, st), st)
                v = t if isinstance(t, bool) else intv.truth_eval(t, {})
            except (intv.Unknown, KeyError, TypeError, AnalysisError):
                v = None
            if v is not False:
                ctx.violate(q, 'for the caller-given height %d the check `%s` can raise although the 3-byte decode [1:4] is not the height of such a block (push of %s)' % (
                    h, norm(n.test), 'OP_n' if h <= 16 else '%d byte(s)' % (1 if h < 128 else 2)), n,
                    'Block.parse(..., height=h, parse_transactions=True) of a well-formed version-2 block below height 32768 (regtest, testnet, altcoin chains) raises ValueError')
                break


@PROP.obligation('C06.version-writers', canaries=[
    mut.replace_expr('transactions', 'Transaction.sign_and_update', "self.version_int.to_bytes(4, 'big')", "self.version_int.to_bytes(4, 'little')", 'version bytes rebuilt little endian'),
    mut.replace_expr('transactions', 'Transaction.add_input', "b'\\x00\\x00\\x00\\x02'", "b'\\x02\\x00\\x00\\x00'", 'version bytes of the BIP68 upgrade in wire order'),
])
def version_writers(ctx):
    """Transaction.version is stored big-endian (raw() writes it reversed; the constructor stores int.to_bytes(4, 'big')). EVERY assignment
    to a `.version` attribute in transactions.py, wallets.py and blocks.py must follow that convention: `<int>.to_bytes(4, 'big')`, a
    4-byte constant that is the big-endian form of the version_int assigned beside it, a copy of another object's `.version`, or the
    constructor's bytes argument. A little-endian writer makes the wire bytes disagree with version_int."""
    n = 0
    for modname in ('transactions', 'wallets', 'blocks'):
        m = ctx.repo.mod(modname)
        for q, f in m.functions.items():
            body_assigns = [x for x in ast.walk(f) if isinstance(x, ast.Assign)]
            for a_ in body_assigns:
                t = a_.targets[0]
                if not (isinstance(t, ast.Attribute) and t.attr == 'version'):
                    continue
                n += 1
                v = a_.value
                qual = '%s:%s' % (modname, q)
                txt = norm(v)
                ok = None
                if isinstance(v, ast.Call) and isinstance(v.func, ast.Attribute) and v.func.attr == 'to_bytes':
                    args = [norm(x) for x in v.args] + ['%s=%s' % (k.arg, norm(k.value)) for k in v.keywords]
                    order = [x for x in args if 'big' in x or 'little' in x]
                    if args and args[0] == '4' and order and 'big' in order[0]:
                        ok = True
                    elif order and 'little' in order[0]:
                        ok = False
                elif isinstance(v, ast.Constant) and isinstance(v.value, bytes) and len(v.value) == 4:
                    # the version_int assigned in the same block
                    sib = [norm(b.value) for b in body_assigns if isinstance(b.targets[0], ast.Attribute) and b.targets[0].attr == 'version_int' and norm(b.targets[0].value) == norm(t.value)
                           and isinstance(b.value, ast.Constant) and abs(b.lineno - a_.lineno) <= 2]
                    if sib:
                        ok = int.from_bytes(v.value, 'big') == int(sib[0])
                elif isinstance(v, ast.Attribute) and v.attr == 'version':
                    ok = True
                elif isinstance(v, ast.Name) and v.id == 'version':
                    ok = True
                elif isinstance(v, ast.Call) and norm(v.func) == 'to_bytes' and len(v.args) == 1 and norm(v.args[0]) == 'version':
                    ok = True
                elif isinstance(v, ast.IfExp) and all((isinstance(b, ast.Name) and b.id == 'version') or (isinstance(b, ast.Call) and norm(b.func) == 'to_bytes' and len(b.args) == 1 and norm(b.args[0]) == 'version')
                                                       for b in (v.body, v.orelse)):
                    ok = True       # the value as given, or the same value through to_bytes: no byte order involved
                elif isinstance(v, ast.Subscript) and txt.endswith('[::-1]'):
                    ok = False
                ctx.saw('%s: %s = %s' % (qual, norm(t), txt))
                if ok is False:
                    ctx.violate(qual, '`%s = %s` stores the version in another byte order than the big-endian convention of Transaction.version' % (norm(t), txt), a_,
                                'version_int says 2 while the serialised transaction carries version 0x02000000; re-parsing gives another transaction id')
                elif ok is None:
                    ctx.unsure('%s: version writer `%s` not recognised' % (qual, txt))
    ctx.floor(n, 8, 'assignments to a .version attribute')
    # the reader side of the convention
    raw = ctx.repo.func('transactions:Transaction.raw')
    ctx.require(any(norm(x) == 'self.version[::-1]' for x in ast.walk(raw) if isinstance(x, ast.Subscript)), 'transactions:Transaction.raw', 'raw() no longer writes self.version reversed', raw)


@PROP.obligation('C06.rawtx-writers', canaries=[
    mut.replace_expr('wallets', 'Wallet.send', 'transaction.raw()', 'transaction.raw_hex()', 'rawtx stored as hex text'),
])
def rawtx_writers(ctx):
    """Transaction.rawtx holds BYTES (the parser stores the bytes it read; the database column is binary). Every assignment to a `.rawtx`
    attribute in transactions.py and wallets.py must be bytes-valued: raw(), another object's rawtx, a bytes parameter, to_bytes(...) /
    bytes.fromhex(...). The dictionary form of a transaction carries 'raw' as hex TEXT (as_dict: raw_hex()), so it must be converted."""
    n = 0
    asdict = ctx.repo.func('transactions:Transaction.as_dict')
    hex_in_dict = any(isinstance(d, ast.Dict) and any(isinstance(k, ast.Constant) and k.value == 'raw' and 'raw_hex' in norm(v) for k, v in zip(d.keys, d.values)) for d in ast.walk(asdict))
    for modname in ('transactions', 'wallets'):
        for q, f in ctx.repo.mod(modname).functions.items():
            for a_ in ast.walk(f):
                if not (isinstance(a_, ast.Assign) and isinstance(a_.targets[0], ast.Attribute) and a_.targets[0].attr == 'rawtx'):
                    continue
                n += 1
                txt = norm(a_.value)
                qual = '%s:%s' % (modname, q)
                ctx.saw('%s: %s = %s' % (qual, norm(a_.targets[0]), txt))
                v = a_.value
                if (isinstance(v, ast.Call) and norm(v.func).split('.')[-1] in ('raw', 'to_bytes', 'fromhex')) or (isinstance(v, ast.Attribute) and v.attr in ('rawtx', 'raw')) or \
                        (isinstance(v, ast.Name) and v.id in ('rawtx', 'raw_bytes')) or (isinstance(v, ast.Constant) and isinstance(v.value, bytes)):
                    continue
                if (isinstance(v, ast.Call) and norm(v.func).split('.')[-1] in ('raw_hex', 'hex')) or (isinstance(v, ast.Subscript) and isinstance(v.slice, ast.Constant) and v.slice.value == 'raw' and hex_in_dict):
                    ctx.violate(qual, '`%s = %s` stores hex text in rawtx, which holds bytes everywhere else' % (norm(a_.targets[0]), txt), a_,
                                'transaction_import(t.as_dict()) followed by send(): the transaction is broadcast, then storing it raises and the spent outputs stay unspent in the wallet')
                else:
                    ctx.unsure('%s: rawtx writer `%s` not recognised' % (qual, txt))
    ctx.floor(n, 3, 'assignments to a .rawtx attribute')


@PROP.obligation('C06.cache-keys')
def cache_keys(ctx):
    """Memoisation (serialisations and ids): every container that a function both looks up and stores into is found (none exists on the reference tree; a
    fixture self-test keeps the detector honest) and the key that is looked up must carry every parameter - and for containers shared
    between objects every attribute of self - that the cached value depends on through data or control flow."""
    from .common_cache import cache_keys as run
    run(ctx, [('transactions', lambda q: True), ('blocks', lambda q: True)], 'transactions and blocks')


@PROP.obligation('C06.attr-memos')
def attr_memos(ctx):
    """Values cached in attributes of Input / Output / Transaction: every method that assigns state a cached value was computed from (and that the reuse test
    does not validate) must reset the cache."""
    from .common_cache import attr_memos as run
    run(ctx, 'transactions', [['Input'], ['Output'], ['Transaction']], 'Input / Output / Transaction', 'the address / serialisation reported afterwards describes the previous state')


@PROP.obligation('C06.arg-binding')
def arg_binding(ctx):
    """Calls inside transactions, blocks, scripts that pass two or more positional arguments: a variable passed positionally must not land on a parameter of another
    name while the callee has a parameter of the variable's own name elsewhere (argument inserted / dropped / swapped)."""
    from .common_argsel import arg_binding as run
    run(ctx, ['transactions', 'blocks', 'scripts'], 'a field is parsed / serialised with the value of its neighbour')


@PROP.obligation('C06.field-representation', canaries=[
    mut.replace_expr('wallets', 'Wallet.send', 'transaction.raw()', 'transaction.raw_hex()', 'rawtx stored as hex text by one writer'),
])
def field_representation(ctx):
    """Every attribute of Transaction / Input / Output / Block is written in ONE representation by all its writers in transactions.py,
    blocks.py and wallets.py (bytes, hex text, int, list ... inferred from the shape of the assigned expression; unknown shapes are not
    judged): a writer that stores hex text where the others store bytes makes the serialisers and the database layer fail or differ
    for objects that took that path only."""
    from .. import ftype
    allw = {}
    for mod, cov in (('transactions', {}), ('blocks', {}), ('wallets', {'rt': 'Transaction', 'transaction': 'Transaction'})):
        for k, v in ftype.writers(ctx.repo.mod(mod), cov).items():
            key = ('Transaction', k[1]) if k[0] == 'WalletTransaction' else k
            allw.setdefault(key, []).extend(v)
    n = 0
    for (cls, attr), ws in sorted(allw.items()):
        if cls not in ('Transaction', 'Input', 'Output', 'Block'):
            continue
        known = [(t, q, node) for t, q, node in ws if t not in ('none', 'unknown')]
        n += len(known)
        ts = sorted(set(t for t, _, _ in known))
        if len(ts) > 1:
            # the minority writers are reported
            counts = {t: sum(1 for x in known if x[0] == t) for t in ts}
            major = max(ts, key=lambda t: counts[t])
            for t, q, node in known:
                if t != major:
                    ctx.violate(q, '%s.%s is written as %s here (`%s`) and as %s by %d other writer(s)' % (cls, attr, t, norm(node.value)[:60], major, counts[major]), node,
                                'objects that took this path carry the field in another representation: serialisation / storing fails or differs')
    ctx.saw('%d typed writes to attributes of Transaction / Input / Output / Block compared' % n)
    ctx.floor(n, 60, 'typed attribute writes')


@PROP.obligation('C06.fixed-width')
def fixed_width_mods(ctx):
    """Every int.to_bytes of transactions.py / blocks.py (version, locktime, sequence, value, outpoint index, header fields) uses a width that does not depend on the value."""
    from .common_width import fixed_width_modules as run
    run(ctx, ['transactions', 'blocks'], 'a field with leading zero bytes is written shorter than its wire width: the serialisation no longer parses back', 15)


@PROP.obligation('C06.explicit-falsy')
def explicit_falsy(ctx):
    """A parameter of transactions.py / blocks.py / scripts.py that gets its default through a truthiness test is never passed an explicit falsy constant by a caller inside the package (version 0, locktime 0, index 0, empty script are values)."""
    from .common_falsy import falsy_defaults as run
    run(ctx, ['transactions', 'blocks', 'scripts'], 'a field given as 0 / empty on purpose is replaced by a default: the object no longer serialises to the bytes it was parsed from')


@PROP.obligation('C06.target-compact', canaries=[
    mut.replace_expr('blocks', 'Block.target', 'coefficient * 256 ** (exponent - 3)', 'coefficient << 8 * (exponent - 3)', 'target of a compact value with size byte below 3 raises'),
    mut.replace_expr('blocks', 'Block.target', 'coefficient * 256 ** (exponent - 3)', 'coefficient * 256 ** (exponent - 2)', 'target one byte too large'),
])
def target_compact(ctx):
    """Block.target evaluated on compact `bits` values of every size class (size byte 0..4, 0x1d, 0x20; mantissas whose dropped bytes are
    zero): the result equals Bitcoin Core's SetCompact (mantissa >> 8*(3-size) for size <= 3, mantissa << 8*(size-3) above) and no
    value makes the evaluation fail."""
    q = 'blocks:Block.target'
    fn = ctx.repo.func(q)
    I = ('var', 'self')
    n = 0
    for bits in (b'\x1d\x00\xff\xff', b'\x1b\x04\x04\xcb', b'\x20\x7f\xff\xff', b'\x03\x12\x34\x56', b'\x04\x12\x34\x56', b'\x05\x00\x92\x34', b'\x02\x00\x80\x00', b'\x02\x12\x34\x00', b'\x01\x12\x00\x00', b'\x01\x00\x00\x00'):
        size, mant = bits[0], int.from_bytes(bits[1:], 'big')
        exp = mant >> (8 * (3 - size)) if size <= 3 else mant << (8 * (size - 3))
        it = Interp(ctx.repo, 'blocks', self_cls='blocks:Block')
        st = State()
        st.heap[('attr', I, 'bits')] = bits
        try:
            exits = it.run_function(fn, {'self': S(I)}, st=st)
        except AnalysisError as e:
            ctx.violate(q, 'target of bits %s cannot be computed: %s' % (bits.hex(), str(e)[:100]), fn, 'target, difficulty and check_proof_of_work raise for a well-formed header (SetCompact gives %#x)' % exp)
            continue
        rets = [term(e.value) for e in exits if e.kind == 'return']
        n += 1
        if len(rets) != 1 or isinstance(rets[0], tuple):
            ctx.undecided('Block.target(bits=%s) evaluates to %s' % (bits.hex(), [show(r)[:60] for r in rets]))
        ctx.require(rets[0] == exp, q, 'target of bits %s is %s, SetCompact gives %#x' % (bits.hex(), rets[0], exp), fn, 'the target of the header is not recovered exactly')
    ctx.saw('%d compact values agree with SetCompact' % n)


@PROP.obligation('C06.serialisers-fresh', canaries=[
    mut.insert_before('transactions', 'Transaction.as_bytes', 'return self.raw()', 'if self.rawtx:\n    return self.rawtx', 'as_bytes answers with the bytes stored at parse time'),
    mut.insert_before('scripts', 'Script.serialize', "raw = b''", 'if self._raw:\n    return self._raw', 'Script.serialize answers with the bytes stored earlier'),
])
def serialisers_fresh(ctx):
    """The serialisers - Transaction.raw / raw_hex / as_bytes / as_hex and Script.serialize / serialize_list - compute their answer from the
    current fields: none of them reads the serialisation stored on the object (Transaction.rawtx is filled by the parsers, the block
    readers, the wallet import and the providers; Script._raw by parse and by `+`). Nothing invalidates those stores when inputs,
    outputs, locktime or commands change, so an accessor that answers from them returns the bytes of an earlier state."""
    from .common_fresh import serialisers_fresh as run
    run(ctx)


@PROP.obligation('C06.raw-bytes-origin', canaries=[
    mut.replace_stmt('transactions', 'Transaction.parse', 'return cls.parse_bytesio(rawtx, strict, network, raw_bytes=raw_bytes)',
                     'if isinstance(rawtx, BytesIO) and not raw_bytes:\n    raw_bytes = rawtx.getvalue()\nreturn cls.parse_bytesio(rawtx, strict, network, raw_bytes=raw_bytes)', 'whole buffer of a caller-supplied stream handed over as the bytes of the transaction'),
    mut.replace_expr('transactions', 'Transaction.parse_hex', 'BytesIO(raw_bytes)', 'BytesIO(raw_bytes[4:])', 'stream and raw bytes of parse_hex differ'),
])
def raw_bytes_origin(ctx):
    """parse_bytesio TRUSTS a supplied raw_bytes: it becomes Transaction.rawtx, the size and (legacy) the hashed bytes of the txid, and the
    stream is not sliced. Every caller that passes raw_bytes therefore passes a stream it has just built from exactly those bytes
    (BytesIO(raw_bytes)); for a stream supplied by ITS caller - whose buffer may hold other transactions or start elsewhere - it passes
    none. Each wrapper is evaluated for an argument that is bytes, str and a stream."""
    m = ctx.repo.mod('transactions')
    n = 0
    for qn, fn in sorted(m.functions.items()):
        calls = [c for c in ast.walk(fn) if isinstance(c, ast.Call) and isinstance(c.func, ast.Attribute) and c.func.attr == 'parse_bytesio' and (any(k.arg == 'raw_bytes' for k in c.keywords) or len(c.args) >= 5)]
        if not calls:
            continue
        q = 'transactions:' + qn
        params = [a.arg for a in fn.args.args]
        for kind in ('bytes', 'str', 'BytesIO'):
            seen = []

            def hook(it, base, args, kwargs, st, node):
                rb = kwargs.get('raw_bytes', args[4] if len(args) >= 5 else b'')
                seen.append((term(args[0]) if args else None, term(rb), node))
                return S(('var', 'tx'))

            def decide(t, kind=kind):
                if isinstance(t, tuple) and t and t[0] == 'isinstance':
                    return kind in show(t[2])
                return None
            it = Interp(ctx.repo, 'transactions', hooks={'.parse_bytesio': hook}, decide=decide)
            try:
                it.run_function(fn, {p_: S(('var', p_)) for p_ in params[:2]})
            except AnalysisError as e:
                ctx.undecided('%s with a %s argument not evaluable: %s' % (qn, kind, str(e)[:100]))
            if not seen:
                ctx.undecided('%s with a %s argument: parse_bytesio is not reached' % (qn, kind))
            for stream, rb, node in seen:
                n += 1
                ctx.saw('%s(%s) -> parse_bytesio(%s, raw_bytes=%s)' % (qn, kind, show(stream)[:40], show(rb)[:40]))
                if rb in (b'', None):
                    continue
                ok = stream == ('call', 'BytesIO', (rb,), ())
                ctx.require(ok, q, 'for a %s argument parse_bytesio is given the stream `%s` and raw_bytes `%s`: the stream was not built from exactly those bytes' % (kind, show(stream)[:60], show(rb)[:60]), node,
                            'a legacy transaction read from a stream that holds more than this one transaction reports the hash of the whole buffer as its txid, and that buffer as rawtx / size')
    ctx.floor(n, 9, 'wrapper scenarios')


def _mut_unguard_unlock(tree):
    """dedent the body of `if not self.unlocking_script or self.strict:` in Input.update_scripts"""
    for cls in tree.body:
        if isinstance(cls, ast.ClassDef) and cls.name == 'Input':
            for f in cls.body:
                if isinstance(f, ast.FunctionDef) and f.name == 'update_scripts':
                    for n in ast.walk(f):
                        for field in ('body', 'orelse'):
                            lst = getattr(n, field, None)
                            if not isinstance(lst, list):
                                continue
                            for i, st_ in enumerate(lst):
                                if isinstance(st_, ast.If) and 'self.strict' in unparse(st_.test) and 'unlocking_script' in unparse(st_.test):
                                    lst[i:i + 1] = st_.body
                                    return True
    return False


@PROP.obligation('C06.nonstrict-keeps-script', canaries=[
    mut.Canary('scriptSig of a <sig> <pubkey> input regenerated by the non-strict readers too', 'transactions', _mut_unguard_unlock),
])
def nonstrict_keeps_script(ctx):
    """The non-strict readers (Block.parse, parse_transactions, Transaction.parse(strict=False)) keep the scriptSig bytes they read, so
    that raw() / Block.serialize() reproduce them. Input.update_scripts - run by the constructor - is evaluated as a whole for an input
    that arrives with an unlocking script, strict=False, one parsed signature and key, for the <sig> <pubkey> script types and every
    witness type: self.unlocking_script ends as the bytes it started with (a non-minimal push or a signature with sighash byte 0 is not
    re-encoded)."""
    q = 'transactions:Input.update_scripts'
    fn = ctx.repo.func(q)
    U = S(('var', 'scriptsig'), 'bytes')
    n = 0
    for stype, wt in (('sig_pubkey', 'legacy'), ('sig_pubkey', 'segwit'), ('p2sh_p2wpkh', 'p2sh-segwit')):
        heap = {A(SELF, 'script_type'): stype, A(SELF, 'witness_type'): wt, A(SELF, 'strict'): False, A(SELF, 'unlocking_script'): U,
                A(SELF, 'public_hash'): S(('var', 'h'), 'bytes'), A(SELF, 'keys'): [S(('var', 'key'))], A(SELF, 'signatures'): [S(('var', 'sig'))],
                A(SELF, 'locktime_cltv'): None, A(SELF, 'locktime_csv'): None}

        def decide(t):
            if t in (('var', 'scriptsig'), ('var', 'h'), ('len', ('var', 'scriptsig')), ('len', ('var', 'h'))):
                return True
            return None
        it = Interp(ctx.repo, 'transactions', hooks=LAYOUT_HOOKS, self_cls='transactions:Input', decide=decide)
        try:
            exits = it.run_function(fn, {'self': S(SELF), 'hash_type': 1}, State(heap=heap))
        except AnalysisError as e:
            ctx.undecided('Input.update_scripts for a non-strict %s / %s input not evaluable: %s' % (stype, wt, str(e)[:100]))
        rets = [e for e in exits if e.kind == 'return']
        if not rets:
            ctx.undecided('Input.update_scripts for a non-strict %s / %s input: no normal exit' % (stype, wt))
        for e in rets:
            got = term(e.heap.get(A(SELF, 'unlocking_script')))
            n += 1
            ctx.saw('non-strict %s / %s input with a scriptSig -> unlocking_script = %s' % (stype, wt, show(got)[:60]))
            ctx.require(got == ('var', 'scriptsig'), q, 'a %s / %s input read with strict=False ends with unlocking_script = %s instead of the bytes that were read' % (stype, wt, show(got)[:100]), fn,
                        'a scriptSig with a non-minimal push or a signature with sighash byte 0, read through Block.parse / parse(strict=False), is re-encoded: raw() and Block.serialize() are no longer the bytes read')
    ctx.floor(n, 3, 'non-strict scenarios')


@PROP.obligation('C06.parsed-script-kept')
def parsed_script_kept(ctx):
    """The same evaluation of Input.update_scripts for the remaining ways a parsed scriptSig reaches it: the default strict=True reader with
    a <sig> <pubkey> input, and a legacy P2SH multisig input under either reader. Serialising again reproduces the bytes read only if
    self.unlocking_script ends as it started; a regenerated script re-encodes every non-minimal push (valid before segwit, present in
    old blocks) and drops a signature whose sighash byte is 0."""
    q = 'transactions:Input.update_scripts'
    fn = ctx.repo.func(q)
    U = S(('var', 'scriptsig'), 'bytes')
    rs = b'\x52' + b'\x21' + b'\x02' * 33 + b'\x21' + b'\x03' * 33 + b'\x52\xae'
    n = 0
    for stype, strict in (('sig_pubkey', True), ('p2sh_multisig', False), ('p2sh_multisig', True)):
        heap = {A(SELF, 'script_type'): stype, A(SELF, 'witness_type'): 'legacy', A(SELF, 'strict'): strict, A(SELF, 'unlocking_script'): U,
                A(SELF, 'public_hash'): S(('var', 'h'), 'bytes'), A(SELF, 'locktime_cltv'): None, A(SELF, 'locktime_csv'): None}
        if stype == 'sig_pubkey':
            heap.update({A(SELF, 'keys'): [S(('var', 'key'))], A(SELF, 'signatures'): [S(('var', 'sig'))]})
        else:
            heap.update({A(SELF, 'keys'): [S(('var', 'key1')), S(('var', 'key2'))], A(SELF, 'signatures'): [S(('var', 'sig1')), S(('var', 'sig2'))],
                         A(SELF, 'redeemscript'): rs, A(SELF, 'sigs_required'): 2})

        def decide(t):
            if t in (('var', 'scriptsig'), ('var', 'h'), ('len', ('var', 'scriptsig')), ('len', ('var', 'h'))):
                return True
            return None
        it = Interp(ctx.repo, 'transactions', hooks=LAYOUT_HOOKS, self_cls='transactions:Input', decide=decide)
        try:
            exits = it.run_function(fn, {'self': S(SELF), 'hash_type': 1}, State(heap=heap))
        except AnalysisError as e:
            ctx.undecided('Input.update_scripts for a parsed %s input (strict=%s) not evaluable: %s' % (stype, strict, str(e)[:100]))
        rets = [e for e in exits if e.kind == 'return']
        if not rets:
            ctx.undecided('Input.update_scripts for a parsed %s input (strict=%s): no normal exit' % (stype, strict))
        n += 1
        kept = all(term(e.heap.get(A(SELF, 'unlocking_script'))) == ('var', 'scriptsig') for e in rets)
        ctx.saw('parsed legacy %s input, strict=%s -> scriptSig %s' % (stype, strict, 'kept' if kept else 'regenerated from the parsed signatures and keys'))
        ctx.require(kept, q, 'the scriptSig of a legacy %s input parsed with strict=%s is regenerated from the parsed signatures and keys instead of kept' % (stype, strict), fn,
                    'Transaction.parse(raw).raw() != raw for a well-formed transaction whose scriptSig uses a non-minimal push (OP_PUSHDATA1 for a 71-byte signature)')
    ctx.floor(n, 3, 'parsed-input scenarios')


@PROP.obligation('C06.resign-updates-script', canaries=[
    mut.replace_expr('transactions', 'Input.update_scripts', "unlock_script != b''", "unlock_script != b'' and (not self.unlocking_script)", 'a complete multisig scriptSig is never rewritten', nth=1),
])
def resign_updates_script(ctx):
    """The other side of C06.parsed-script-kept: Input.update_scripts is also what writes the scriptSig after signing. For an input of a
    transaction built through the API (strict=True) that already carries a complete scriptSig and whose signature list has been replaced
    (set_locktime_*, bumpfee, sign(replace_signatures=True), merge), the serialised scriptSig is rebuilt from the CURRENT signatures -
    otherwise raw() keeps emitting the old signatures while verify(), which reads Input.signatures, answers True."""
    q = 'transactions:Input.update_scripts'
    fn = ctx.repo.func(q)
    U = S(('var', 'old_scriptsig'), 'bytes')
    rs = b'\x52' + b'\x21' + b'\x02' * 33 + b'\x21' + b'\x03' * 33 + b'\x52\xae'
    n = 0
    for stype in ('sig_pubkey', 'p2sh_multisig'):
        heap = {A(SELF, 'script_type'): stype, A(SELF, 'witness_type'): 'legacy', A(SELF, 'strict'): True, A(SELF, 'unlocking_script'): U,
                A(SELF, 'public_hash'): S(('var', 'h'), 'bytes'), A(SELF, 'locktime_cltv'): None, A(SELF, 'locktime_csv'): None}
        if stype == 'sig_pubkey':
            heap.update({A(SELF, 'keys'): [S(('var', 'key'))], A(SELF, 'signatures'): [S(('var', 'newsig'))]})
        else:
            heap.update({A(SELF, 'keys'): [S(('var', 'key1')), S(('var', 'key2'))], A(SELF, 'signatures'): [S(('var', 'newsig1')), S(('var', 'newsig2'))],
                         A(SELF, 'redeemscript'): rs, A(SELF, 'sigs_required'): 2})

        def decide(t):
            if t in (('var', 'old_scriptsig'), ('var', 'h'), ('len', ('var', 'old_scriptsig')), ('len', ('var', 'h'))):
                return True
            return None
        it = Interp(ctx.repo, 'transactions', hooks=LAYOUT_HOOKS, self_cls='transactions:Input', decide=decide)
        try:
            exits = it.run_function(fn, {'self': S(SELF), 'hash_type': 1}, State(heap=heap))
        except AnalysisError as e:
            ctx.undecided('Input.update_scripts for a re-signed %s input not evaluable: %s' % (stype, str(e)[:100]))
        rets = [e for e in exits if e.kind == 'return']
        if not rets:
            ctx.undecided('Input.update_scripts for a re-signed %s input: no normal exit' % stype)
        n += 1
        for e in rets:
            got = term(e.heap.get(A(SELF, 'unlocking_script')))
            fresh = any(isinstance(x, tuple) and x[:1] == ('var',) and str(x[1]).startswith('newsig') for x in subterms(('w', got)))
            stale = got == ('var', 'old_scriptsig')
            ctx.saw('re-signed legacy %s input -> scriptSig %s' % (stype, 'kept as it was' if stale else ('rebuilt from the current signatures' if fresh else show(got)[:50])))
            ctx.require(fresh and not stale, q, 'after the signatures of a legacy %s input were replaced, the scriptSig %s' % (stype, 'is left as it was' if stale else 'is `%s`, which does not contain the current signatures' % show(got)[:60]), fn,
                        'set_locktime_blocks() / bumpfee() / sign(replace_signatures=True) on a fully signed input: verify() is True and the txid changes, but raw() still carries the old signatures - invalid for every other verifier')
    ctx.floor(n, 2, 're-sign scenarios')


@PROP.obligation('C06.dict-reader-restores', canaries=[
    mut.replace_stmt('blocks', 'Block.parse_transactions_dict', 'self.txs_data = txs_data_orig', 'self.txs_data.seek(80 + len(int_to_varbyteint(self.tx_count)))', 'stream rewound to the first transaction instead of to where it was'),
    mut.drop_stmt('blocks', 'Block.parse_transactions_dict', 'self.txs_data = txs_data_orig', 'stream left at its end'),
])
def dict_reader_restores(ctx):
    """Block.parse_transactions_dict reads the remaining transactions as dictionaries and must leave the block's transaction stream where
    it FOUND it - the object readers (parse_transactions / parse_transaction) continue from that position. On every path to its return the
    method restores what it saved before reading: the stream object it copied (self.txs_data = <copy made before the loop>) or the
    position it noted (seek(<tell() taken before the loop>)). A rewind to a computed offset is only right for a block nobody has read yet."""
    q = 'blocks:Block.parse_transactions_dict'
    fn = ctx.repo.func(q)
    g = build_cfg(fn)
    loops = [n for n in ast.walk(fn) if isinstance(n, (ast.While, ast.For))]
    if not loops:
        ctx.undecided('parse_transactions_dict: reading loop not found')
    first_loop = min(l.lineno for l in loops)
    saved_obj, saved_pos = set(), set()
    for a in ast.walk(fn):
        if isinstance(a, ast.Assign) and isinstance(a.targets[0], ast.Name) and a.lineno < first_loop:
            v = a.value
            if isinstance(v, ast.Call) and norm(v.func) in ('deepcopy', 'copy', 'copy.deepcopy', 'copy.copy') and v.args and norm(v.args[0]) == 'self.txs_data':
                saved_obj.add(a.targets[0].id)
            if isinstance(v, ast.Call) and norm(v.func) == 'self.txs_data.tell':
                saved_pos.add(a.targets[0].id)
    restores = []
    for node in g.nodes:
        a = node.ast
        if a is None:
            continue
        for y in ast.walk(a):
            if isinstance(y, ast.Assign) and any(norm(t) == 'self.txs_data' for t in y.targets) and isinstance(y.value, ast.Name) and y.value.id in saved_obj and y.lineno > first_loop:
                restores.append(node.id)
            if isinstance(y, ast.Call) and norm(y.func) == 'self.txs_data.seek' and y.args and isinstance(y.args[0], ast.Name) and y.args[0].id in saved_pos and y.lineno > first_loop:
                restores.append(node.id)
    ctx.saw('saved before reading: stream copies %s, positions %s; restoring statements after the loop: %d' % (sorted(saved_obj), sorted(saved_pos), len(restores)))
    exits = [x.id for x in g.nodes if x.kind == 'return'] + [g.exit_return]
    reads = [node.id for node in g.nodes if node.ast is not None and any(isinstance(y, ast.Call) and norm(y.func) in ('self.parse_transaction_dict',) for y in ast.walk(node.ast))]
    if not reads:
        ctx.undecided('parse_transactions_dict: the call that reads a transaction was not found')
    p_ = g.path_avoiding(exits, via=restores, start=reads[0])
    ctx.require(p_ is None, q, 'after reading from self.txs_data the method can return without restoring the stream it saved before (%s)' % (g.describe_path(p_) if p_ else ''), fn,
                'Block.parse(limit=k) followed by parse_transactions_dict() and parse_transactions(): the object reader restarts at transaction 0 - the first transactions twice, the last ones never, serialize() differs from the bytes parsed')


@PROP.obligation('C06.raw-header-fields', canaries=[
    mut.replace_expr('blocks', 'Block.__init__', 'nonce if isinstance(nonce, bytes) and len(nonce) == 4 else to_bytes(nonce)', 'to_bytes(nonce)', 'raw nonce passed through the hex-sniffing normaliser'),
    mut.replace_expr('blocks', 'Block.__init__', 'bits if isinstance(bits, bytes) and len(bits) == 4 else to_bytes(bits)', 'to_bytes(bits)', 'raw bits passed through the hex-sniffing normaliser'),
])
def raw_header_fields(ctx):
    """encoding.to_bytes reads bytes that consist of ASCII hex digits as a hexadecimal STRING (b'dcba' -> ab cd). Block.parse hands the raw
    header fields it read from the stream to Block.__init__; the constructor, evaluated with 4-byte fields made of such characters (one
    nonce in 18000 is) and 32-byte hashes, stores every field exactly as given - version, bits, nonce 4 bytes, the hashes 32 bytes."""
    q = 'blocks:Block.__init__'
    fn = ctx.repo.func(q)
    a = fn.args
    names = [x.arg for x in a.args]
    defaults = {}
    for n_, d in zip(names[len(names) - len(a.defaults):], a.defaults):
        try:
            defaults[n_] = ast.literal_eval(d)
        except Exception:
            defaults[n_] = S(('var', n_))
    fields = {'block_hash': b'0123456789abcdef0123456789abcdef', 'version': b'1000', 'prev_block': b'a' * 32, 'merkle_root': b'\x22' * 32, 'bits': b'1d00', 'nonce': b'dcba'}
    args = dict(defaults)
    args.update(fields)
    args.update({'self': S(SELF), 'time': 1600000000, 'network': 'bitcoin'})
    it = Interp(ctx.repo, 'blocks', hooks={'Network': lambda it_, a_, kw, st, node: S(('var', 'net'))}, self_cls='blocks:Block', inline=['to_bytes'])
    try:
        exits = it.run_function(fn, {k: v for k, v in args.items() if k in names})
    except AnalysisError as e:
        ctx.undecided('Block.__init__ not evaluable on raw header fields: %s' % str(e)[:100])
    rets = [e for e in exits if e.kind == 'return']
    if len(rets) != 1:
        ctx.undecided('Block.__init__ on raw header fields: %d normal exits' % len(rets))
    n = 0
    for k, v in sorted(fields.items()):
        got = rets[0].heap.get(A(SELF, k))
        n += 1
        ctx.saw('%s given as %r -> stored %s' % (k, v[:8], show(term(got))[:40]))
        ctx.require(got == v, q, 'the raw header field %s = %r is stored as %s' % (k, v[:12], show(term(got))[:50]), fn,
                    "a block whose nonce bytes are b'dcba' parses with nonce ab cd (2 bytes): nonce_int is wrong and serialize() raises - about one header in 18000")
    ctx.floor(n, 6, 'header fields')


@PROP.obligation('C06.txid-follows-scripts')
def txid_follows_scripts(ctx):
    """Transaction.txid is a stored value, filled once by the constructor. The id of a legacy transaction commits to the scriptSigs, so
    every method of Transaction that rewrites the unlocking scripts of its inputs (calls Input.update_scripts on them) assigns self.txid
    afterwards on every path - directly or through a method that does - otherwise the object keeps reporting the id of the transaction it
    was before signing."""
    methods = {k: ctx.repo.func('transactions:Transaction.' + k) for k in ctx.repo.methods_of('transactions:Transaction')}
    setters = set(k for k, f in methods.items() if any(isinstance(a, ast.Assign) and any(norm(t) == 'self.txid' for t in a.targets) for a in ast.walk(f)))
    n = 0
    for name, f in sorted(methods.items()):
        if name == '__init__':
            continue
        g = build_cfg(f)
        upd, sets = [], []
        for node in g.nodes:
            if node.ast is None:
                continue
            for y in ast.walk(node.ast):
                if isinstance(y, ast.Call) and isinstance(y.func, ast.Attribute) and y.func.attr == 'update_scripts' and 'self.inputs' in norm(y.func.value):
                    upd.append((node, y))
                if isinstance(y, ast.Assign) and any(norm(t) == 'self.txid' for t in y.targets):
                    sets.append(node.id)
                if isinstance(y, ast.Call) and isinstance(y.func, ast.Attribute) and norm(y.func.value) == 'self' and y.func.attr in setters and y.func.attr != name:
                    sets.append(node.id)
        if not upd:
            continue
        # only methods that CHANGE the signatures (sign): regenerating scripts from unchanged signatures gives the same bytes
        if not any(isinstance(a, ast.Assign) and any(isinstance(t, ast.Attribute) and t.attr == 'signatures' for t in a.targets) for a in ast.walk(f)):
            ctx.saw('Transaction.%s regenerates scripts without changing signatures: not a change of the id' % name)
            continue
        exits = [x.id for x in g.nodes if x.kind == 'return'] + [g.exit_return]
        done = set()
        for node, y in upd:
            if id(y) in done:
                continue
            done.add(id(y))
            n += 1
            p_ = g.path_avoiding(exits, via=sets, start=node.id, skip_exc=True)
            ctx.saw('Transaction.%s rewrites input scripts (`%s`); txid assigned afterwards on every path: %s' % (name, norm(y)[:50], p_ is None))
            ctx.require(p_ is None, 'transactions:Transaction.' + name, 'the scripts of an input are rewritten (`%s`) and the method can return without assigning self.txid' % norm(y)[:60], y,
                        't = Transaction(); t.add_input(...); t.add_output(...); t.sign(k): t.txid (and as_dict()["txid"], info()) is still the id the object had before signing, not the double-SHA256 of t.raw()')
    ctx.floor(n, 1, 'script rewrites in methods that change signatures')


@PROP.obligation('C06.witness-list-kept', canaries=[
    mut.replace_expr('transactions', 'Input.__init__', '[bytes.fromhex(w) if isinstance(w, str) else w for w in witnesses]', '[bytes.fromhex(w) if isinstance(w, str) else w for w in witnesses if w]', 'empty witness items are dropped'),
    mut.replace_expr('transactions', 'Input.__init__', '[bytes.fromhex(w) if isinstance(w, str) else w for w in witnesses]', '[bytes.fromhex(w) if isinstance(w, str) else w for w in witnesses[:2]]', 'only two witness items kept'),
])
def witness_list_kept(ctx):
    """A witness stack handed to Input(...) / add_input(...) as a list is serialized item by item: an EMPTY item is a stack element (the
    CHECKMULTISIG dummy of every P2WSH multisig spend, the branch selector of an OP_IF). The statement of Input.__init__ that takes the
    list over is evaluated on stacks with empty items, as bytes and as hex text: self.witnesses has the same items in the same order."""
    q = 'transactions:Input.__init__'
    fn = ctx.repo.func(q)
    stmt = [s_ for s_ in fn.body if isinstance(s_, ast.If) and norm(s_.test) == 'isinstance(witnesses, bytes)']
    if len(stmt) != 1:
        ctx.undecided('Input.__init__: the statement that takes over the witnesses argument was not found')
    n = 0
    for given, exp in (([b'', b'\x30\x45\x01', b'\x51\xae'], [b'', b'\x30\x45\x01', b'\x51\xae']), ([b'\x30\x45', b'', b''], [b'\x30\x45', b'', b'']),
                       (['', '304501', '51ae'], [b'', b'\x30\x45\x01', b'\x51\xae']), ([b'\x02\x03'], [b'\x02\x03'])):
        it = Interp(ctx.repo, 'transactions', self_cls='transactions:Input')
        st = State(env={'self': S(SELF), 'witnesses': list(given)})
        st.heap[('attr', SELF, 'witnesses')] = []
        it.frames.append([])
        try:
            end = it.exec_block(stmt, st)
        except AnalysisError as e:
            ctx.undecided('Input.__init__: witness statement not evaluable on %r: %s' % (given, str(e)[:100]))
        it.frames.pop()
        if end is None:
            ctx.undecided('Input.__init__: witness statement raises on %r' % (given,))
        got = end.heap.get(('attr', SELF, 'witnesses'))
        n += 1
        ctx.saw('witnesses=%r -> self.witnesses = %r' % (given, got))
        ctx.require(got == exp, q, 'Input(..., witnesses=%r) keeps %r: %d of %d stack items' % (given, got, len(got) if isinstance(got, list) else -1, len(exp)), stmt[0],
                    'the dummy element of a P2WSH multisig witness is dropped: raw() serializes a witness of 3 items where 4 were given, and the spend is invalid')
    ctx.floor(n, 4, 'witness stacks')


def _seek_calls(node_ast):
    for y in ast.walk(node_ast):
        if isinstance(y, ast.Call) and isinstance(y.func, ast.Attribute) and y.func.attr == 'seek':
            yield y


def _seek_kind(c):
    """'end' for seek(x, 2) / seek(x, os.SEEK_END), 'abs' for seek(pos) / seek(pos, 0), 'rel' for seek(x, 1)"""
    whence = c.args[1] if len(c.args) > 1 else next((k.value for k in c.keywords if k.arg == 'whence'), None)
    if whence is None:
        return 'abs'
    w = norm(whence)
    if w in ('2', 'os.SEEK_END', 'SEEK_END', 'io.SEEK_END'):
        return 'end'
    if w in ('0', 'os.SEEK_SET', 'SEEK_SET', 'io.SEEK_SET'):
        return 'abs'
    if w in ('1', 'os.SEEK_CUR', 'SEEK_CUR', 'io.SEEK_CUR'):
        return 'rel'
    return 'other'


@PROP.obligation('C06.stream-rewound', canaries=[
    mut.drop_stmt('blocks', 'Block.parse_bytesio', 'raw.seek(tx_start_pos)', 'the block stream stays at its end after its size was measured'),
    mut.replace_stmt('blocks', 'Block.parse', 'return cls.parse_bytesio(raw, block_hash, height, parse_transactions, limit, network)',
                     'b = cls.parse_bytesio(raw, block_hash, height, parse_transactions, limit, network)\nb.size = raw.seek(0, 2)\nreturn b', 'Block.parse measures the stream and leaves it at its end'),
])
def stream_rewound(ctx):
    """A Block keeps the stream it was parsed from (txs_data) and both transaction readers continue reading it on demand; the transaction
    and script parsers hand their stream back to the caller. A seek to the END of a stream (seek(x, 2), the idiom that measures the
    size) is therefore followed on every path to a return by an absolute seek on the same stream: a stream left at its end yields no
    transactions (parse_transactions_dict() == []) while header, hash and tx_count still look right."""
    n = 0
    total = 0
    for modname in ('blocks', 'transactions', 'scripts', 'encoding'):
        mod = ctx.repo.mod(modname)
        for name, fn in sorted(mod.functions.items()):
            ends = [c for c in _seek_calls(fn) if _seek_kind(c) in ('end', 'other')]
            total += sum(1 for _ in _seek_calls(fn))
            if not ends:
                continue
            q = '%s:%s' % (modname, name)
            g = build_cfg(fn)
            exits = [x.id for x in g.nodes if x.kind == 'return'] + [g.exit_return]
            for node in g.nodes:
                if node.ast is None:
                    continue
                for c in _seek_calls(node.ast) if node.kind == 'stmt' or not isinstance(node.ast, (ast.If, ast.For, ast.While, ast.Try, ast.With)) else ():
                    if _seek_kind(c) not in ('end', 'other'):
                        continue
                    stream = norm(c.func.value)
                    n += 1
                    back = [m.id for m in g.nodes if m.ast is not None and m.id != node.id and not isinstance(m.ast, (ast.If, ast.For, ast.While, ast.Try, ast.With)) and
                            any(_seek_kind(c2) == 'abs' and norm(c2.func.value) == stream for c2 in _seek_calls(m.ast))]
                    p_ = g.path_avoiding(exits, via=back, start=node.id)
                    ctx.saw('%s: %s, absolute seek on `%s` on every path afterwards: %s' % (q, norm(c), stream, p_ is None))
                    ctx.require(p_ is None, q, '`%s` moves the stream to its end and the function can return without an absolute seek on `%s` (%s)' % (norm(c), stream, g.describe_path(p_) if p_ else ''), c,
                                'Block.parse(BytesIO(raw)) returns a block whose transaction readers find the stream at its end: parse_transactions_dict() is empty and parse_transaction() raises, although hash and tx_count are right')
    ctx.saw('%d seek calls in the parsers, %d of them to the end of a stream' % (total, n))
    ctx.floor(n, 1, 'seeks to the end of a stream')
    ctx.floor(total, 8, 'seek calls')


from . import c05 as _c05
PROP.obligation('C06.script-built')(_c05.script_built)


@PROP.obligation('C06.output-script-kept', canaries=[
    mut.insert_before('transactions', 'Output.__init__', 'if self.script.keys:', "if self.script_type in ['p2pkh', 'p2sh', 'p2wpkh', 'p2wsh']:\n    self.lock_script = self.script.serialize()", 'the locking script of a parsed output is rebuilt with minimal pushes'),
])
def output_script_kept(ctx):
    """The bytes of a parsed output script are what raw(), the txid and both signature digests commit to: Output.__init__ keeps the
    lock_script it was given byte for byte. Besides the initial `self.lock_script = ... lock_script ...`, the only assignment of
    self.lock_script is the one that BUILDS a script for an output described by an address / hash / key, guarded by `not self.script`
    (no script was given or parsed). A re-serialisation of the parsed script (76a9 4c14 <hash> 88ac -> 76a9 14 <hash> 88ac) changes the
    bytes and the id of a well-formed transaction and hides a script that was altered after signing."""
    from ..dfa import guards_of
    q = 'transactions:Output.__init__'
    fn = ctx.repo.func(q)
    g = build_cfg(fn)
    n = 0
    for nd in g.nodes:
        a = nd.ast
        if a is None or not (isinstance(a, ast.Assign) and any(norm(t) == 'self.lock_script' for t in a.targets)):
            continue
        n += 1
        from_arg = any(isinstance(x, ast.Name) and x.id == 'lock_script' for x in ast.walk(a.value))
        gs = [(norm(g[t].ast), pol) for t, pol in guards_of(g, nd.id)]
        built = any(('self.script' == s_ and pol == 'F') or ('self.lock_script' == s_ and pol == 'F') or ('lock_script' == s_ and pol == 'F') for s_, pol in gs)
        ctx.saw('`%s`: takes the argument over: %s; guarded by "no script yet": %s' % (norm(a)[:60], from_arg, built))
        ctx.require(from_arg or built, q, '`%s` replaces the locking script although one was given / parsed (guards: %s)' % (norm(a)[:60], [s_ for s_, _ in gs][:4]), a,
                    'a transaction with the output script 76a9 4c14 <hash> 88ac parses, re-serialises to other bytes and another txid, and its valid signatures no longer verify')
    ctx.floor(n, 2, 'assignments of Output.lock_script')
