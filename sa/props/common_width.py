"""Shared obligation: fixed-width protocol fields are serialised with a constant width.

Every int.to_bytes(width, order) inside the named functions must have a width that folds to a constant (or is a plain parameter /
len() of a given field): a width computed from the VALUE (x.bit_length(), len(hex(x)), len(bin(x))) gives the shortest encoding and
drops leading zero bytes, so hashes and ciphertexts over the field differ for 1 in 256 values."""
import ast

from ..core import norm, fold, NotConst


def _value_dependent(expr):
    for c in ast.walk(expr):
        if isinstance(c, ast.Call):
            f = c.func
            if isinstance(f, ast.Attribute) and f.attr == 'bit_length':
                return 'bit_length()'
            if isinstance(f, ast.Name) and f.id == 'len' and c.args and isinstance(c.args[0], ast.Call) and isinstance(c.args[0].func, ast.Name) and c.args[0].func.id in ('hex', 'bin', 'str'):
                return 'len(%s(...))' % c.args[0].func.id
    return None


def fixed_width(ctx, quals, why, floor):
    n = 0
    for q in quals:
        fn = ctx.repo.func(q)
        # locals holding a value-dependent width
        tainted = {}
        for s in ast.walk(fn):
            if isinstance(s, ast.Assign) and len(s.targets) == 1 and isinstance(s.targets[0], ast.Name):
                v = _value_dependent(s.value)
                if v:
                    tainted[s.targets[0].id] = v
        for c in ast.walk(fn):
            if not (isinstance(c, ast.Call) and isinstance(c.func, ast.Attribute) and c.func.attr == 'to_bytes' and (c.args or c.keywords)):
                continue
            w = c.args[0] if c.args else next((k.value for k in c.keywords if k.arg == 'length'), None)
            if w is None:
                continue
            n += 1
            v = _value_dependent(w)
            if not v:
                for x in ast.walk(w):
                    if isinstance(x, ast.Name) and x.id in tainted:
                        v = '%s = ...%s' % (x.id, tainted[x.id])
            if v:
                ctx.violate(q, '`%s` is written with a width that depends on its value (%s)' % (norm(c)[:90], v), c, why)
    ctx.saw('%d to_bytes conversions in %d functions have a width that does not depend on the value' % (n, len(quals)))
    ctx.floor(n, floor, 'to_bytes conversions')


def fixed_width_modules(ctx, modules, why, floor, exceptions=('scripts:encode_num',)):
    """the same rule over whole modules; script numbers (encode_num) are minimal-length by definition"""
    quals = []
    for mn in modules:
        m = ctx.repo.mod(mn)
        quals += ['%s:%s' % (mn, q) for q in sorted(m.functions) if '%s:%s' % (mn, q) not in exceptions]
    fixed_width(ctx, quals, why, floor)
