"""Shared scenario: how Transaction.__init__ stores the version it is given (used by C01.storage and C06.tx-fields)."""
import ast

from ..core import AnalysisError
from ..sym import Interp, S, term, State
from ..layout import LAYOUT_HOOKS

SELF = ('var', 'self')


def version_statements(fn):
    """top-level statements of Transaction.__init__ that read or write `version` / self.version / self.version_int"""
    out = []
    for s in fn.body:
        hit = False
        for n in ast.walk(s):
            if isinstance(n, ast.Name) and n.id == 'version':
                hit = True
            if isinstance(n, ast.Attribute) and isinstance(n.value, ast.Name) and n.value.id == 'self' and n.attr in ('version', 'version_int') and isinstance(n.ctx, ast.Store):
                hit = True
        if hit and not (isinstance(s, ast.Expr) and isinstance(s.value, ast.Constant)):
            out.append(s)
    return out


def stored_version(ctx, v, is_int):
    """(self.version, self.version_int) terms after the version statements ran on the argument term v.
    bytes scenario: v is a 4-byte wire read (non-empty, hence truthy); int scenario: v is a non-zero integer."""
    repo = ctx.repo
    fn = repo.func('transactions:Transaction.__init__')
    stmts = version_statements(fn)
    if not stmts or not any(isinstance(n, ast.Attribute) and n.attr == 'version' and isinstance(n.ctx, ast.Store) for s in stmts for n in ast.walk(s)):
        ctx.undecided('Transaction.__init__: statements storing self.version not found')
    it = Interp(repo, 'transactions', hooks=LAYOUT_HOOKS, self_cls='transactions:Transaction')
    it.assume_full_reads = True

    def decide(t):
        if isinstance(t, tuple) and t and t[0] == 'isinstance' and (t[1] == v or not is_int):
            ty = t[2] if len(t) > 2 else None
            names = [ty] if not isinstance(ty, (tuple, list)) else list(ty)
            txt = repr(names)
            if 'int' in txt and 'bytes' not in txt:
                return is_int
            if 'bytes' in txt and 'int' not in txt:
                return not is_int
            return None
        u, w = t, v
        while isinstance(u, tuple) and u and u[0] == 'rev':
            u = u[1]
        while isinstance(w, tuple) and w and w[0] == 'rev':
            w = w[1]
        if (u == w and isinstance(w, tuple) and w[0] == 'var') or (isinstance(u, tuple) and u and u[0] in ('rd', 'read')):
            return True       # a 4-byte read is non-empty; the integer scenario is about a given, non-zero version
        return None
    it.decide = decide
    st = State(env={'version': S(v, 'int' if is_int else 'bytes'), 'self': S(SELF)})
    it.frames.append([])
    try:
        for s in stmts:
            st = it.exec_stmt(s, st)
            if st is None:
                ctx.undecided('Transaction.__init__: version statements end the constructor')
    except AnalysisError as e:
        ctx.undecided('Transaction.__init__: version statements not evaluable: %s' % str(e)[:120])
    return term(st.heap.get(('attr', SELF, 'version'))), term(st.heap.get(('attr', SELF, 'version_int'))), stmts
