"""C04 Private key -> public key -> address mapping; invalid keys refused (validation guards + decision table)."""
import ast
import json
import os

from ..core import Property, AnalysisError, unparse, norm, walk_no_nested
from ..cfg import build_cfg
from ..sym import Interp, S, term, show, subterms, State, flatten_cat
from ..layout import LAYOUT_HOOKS, normalize, plus_to_cat
from .. import intv, mut
from .common_sig import N, P, fast

PROP = Property(
    'C04', 'Key validation guards, point/decompression formulas, address decision table, prefixes',
    'Static: Key.__init__ must raise for imported public points with x >= p or off the curve (scenario evaluation of its '
    'decision structure) and for secrets outside [1, n-1]; the public point of a private key is ec_point(secret) with the '
    'compressed prefix chosen by the parity of y and both encodings built from the same (x, y) at fixed width; '
    'decompression uses y^2 = x^3 + 7 with the (p+1)/4 exponent and parity fix-up; Address.__init__ is partially evaluated '
    'over script_type x encoding x witness_type into a decision table (hash function, P2SH-P2W* wrapping, prefix field, witness '
    'version) compared with the standard table; Key.address may reuse its cached Address only when every input of the '
    'address agrees; network prefixes are compared with the published values. The scalar multiplication itself is fastecdsa\'s.',
    ['fastecdsa point multiplication is correct', 'hash160/sha256 are correct'])

SELF = ('var', 'self')


def _key_init(ctx, strict=True):
    fn = ctx.repo.func('keys:Key.__init__')
    it = Interp(ctx.repo, 'keys', hooks=LAYOUT_HOOKS, self_cls='keys:Key', decide=fast(True))
    exits = it.run_function(fn, {'import_key': S(('var', 'import_key')), 'strict': strict})
    return fn, exits


@PROP.obligation('C04.range')
def secret_range(ctx):
    """Key.__init__: an imported secret is refused unless 0 < secret < n (some raise must be guarded by a comparison of the
    secret with the curve order and with zero)."""
    q = 'keys:Key.__init__'
    fn, exits = _key_init(ctx)
    guards = []
    for e in exits:
        if e.kind != 'raise':
            continue
        for t, pol in e.pc:
            for s in subterms(('w', t)):
                if isinstance(s, tuple) and s[0] == 'cmp' and (s[2] == N or s[3] == N) and s[1] in ('<', '<=', '>', '>='):
                    guards.append(s)
    ctx.saw('Key.__init__: %d exits, comparisons of an imported value with secp256k1_n guarding a raise: %d' % (len(exits), len(guards)))
    if not guards:
        ctx.violate(q, 'no raise is guarded by a comparison of the imported secret with secp256k1_n: scalars 0, n and above are accepted', fn,
                    "Key(n) yields the 'public key' 02 00..00, Key(n+1) equals Key(1): key objects and addresses nobody can spend from")


@PROP.obligation('C04.oncurve', canaries=[
    mut.replace_expr('keys', 'Key.__init__', 'not 0 <= px < secp256k1_p', 'False', 'on-curve test loses the x < p range check'),
    mut.replace_expr('keys', 'Key.__init__', 'not 0 <= py < secp256k1_p', 'False', 'on-curve test loses the y < p range check'),
    mut.drop_stmt('keys', 'Key.__init__', 'if strict:', 'on-curve test removed', nth=1),
    mut.const('keys', 'Key.__init__', 7, 3, 'curve constant b = 3', nth=0),
    mut.replace_expr('scripts', 'Script.parse_bytesio', 'Key(data, strict=strict)', 'Key(data, strict=False)', 'script parser never validates keys') if False else
    mut.replace_expr('keys', 'Key.__init__', 'px, py = self.public_point()', 'px, py = (self._x, self._x)', 'on-curve test applied to the wrong coordinates') if False else
    mut.cmpop('keys', 'Key.__init__', '(py * py - px * px * px - 7) % secp256k1_p != 0', ast.Eq, 'on-curve test inverted'),
])
def oncurve(ctx):
    """Key.__init__(strict=True): for an imported public key, a coordinate outside [0, p) raises (x as well as y: the equation is
    tested modulo p, so y + p satisfies it too), and a point violating y^2 = x^3 + 7 (mod p) raises; a point satisfying all is accepted. Decided on the extracted decision structure with the curve equation as an atom."""
    q = 'keys:Key.__init__'
    fn, exits = _key_init(ctx, strict=True)
    pp = ('mcall', SELF, 'public_point', (), ())
    px, py = ('index', pp, 0), ('index', pp, 1)
    # the curve-equation atom
    eqs = []
    for e in exits:
        for t, pol in e.pc:
            for s in subterms(('w', t)):
                if isinstance(s, tuple) and s[0] == 'cmp' and s[1] in ('!=', '==') and s[3] == 0 and isinstance(s[2], tuple) and s[2][:2] == ('binop', '%') and s[2][3] == P:
                    if s not in eqs:
                        eqs.append(s)
    if not eqs:
        ctx.violate(q, 'no curve-membership test (.. % secp256k1_p) guards the import of a public key', fn,
                    'points that are not on secp256k1 produce key objects and addresses nobody can spend from')
        return
    eq = eqs[0]
    lhs = eq[2][2]
    # the polynomial must be y^2 - x^3 - 7 over the point that the object reports
    try:
        vals = [intv.value_eval(lhs, {px: a, py: b}) for a, b in ((2, 5), (3, 7), (10, 1))]
    except Exception:
        ctx.undecided('curve polynomial is not a function of public_point(): %s' % show(lhs)[:120])
    ctx.saw('curve polynomial %s at (2,5),(3,7),(10,1) = %s' % (show(lhs).replace(show(pp), 'pt')[:90], vals))
    want = [b * b - a ** 3 - 7 for a, b in ((2, 5), (3, 7), (10, 1))]
    if vals != want and [v % P for v in vals] != [w % P for w in want]:
        ctx.violate(q, 'curve test evaluates %s, which is not y^2 - x^3 - 7' % show(lhs).replace(show(pp), 'pt')[:120], fn)
    pub = [e for e in exits if not any(t == ('not', ('cond', ('not', ('var', 'import_key')), True, ('index', ('call', 'get_key_format', (('var', 'import_key'),), ()), 'is_private'))) and not pol for t, pol in e.pc)]

    # the path on which a public key is imported = the conditions leading to the validation raise
    R = [e for e in exits if e.kind == 'raise' and e.pc and any(eq_ in list(subterms(('w', e.pc[-1][0]))) for eq_ in eqs)]
    if not R:
        ctx.undecided('raise guarded by the curve test not found')
    public_path = list(R[0].pc[:-1])

    def scen(name, sub, atoms, expect_raise):
        feas = []
        for e in exits:
            if not any(eq_ in [s for t, pol in e.pc for s in subterms(('w', t))] for eq_ in eqs):
                continue      # only exits that went through the public-key validation
            pc2 = []
            for t, pol in e.pc:
                try:
                    pc2.append((intv.specialise(t, sub), pol))
                except Exception:
                    pc2.append((t, pol))
            atoms2 = [(intv.specialise(a, sub), v) for a, v in atoms.items()]
            path2 = [(intv.specialise(t, sub), pol) for t, pol in public_path]
            if intv.satisfiable(pc2, atoms2 + path2):
                feas.append(e)
        kinds = sorted(set(e.kind for e in feas))
        ctx.saw('scenario %-34s -> %s' % (name, kinds))
        if expect_raise and 'return' in kinds:
            ctx.violate(q, 'scenario "%s": the key is accepted' % name, fn, 'values that are not valid public keys produce key objects and addresses')
        if not expect_raise and 'return' not in kinds:
            ctx.violate(q, 'scenario "%s": a valid public key is refused' % name, fn)
    base_eq = ('cmp', '==', eq[2], eq[3])
    on = {base_eq: True}       # polynomial % p == 0
    off = {base_eq: False}
    scen('x < p, on the curve', {px: 5}, on, False)
    scen('x < p, off the curve', {px: 5}, off, True)
    scen('x = p + 1 (non-canonical), equation holds', {px: P + 1}, on, True)
    scen('x = p, equation holds', {px: P}, on, True)
    scen('x = -1', {px: -1}, on, True)
    # the generator with its y coordinate shifted by the field prime: the same residue, so the equation still holds
    GX, GY = 0x79BE667EF9DCBBAC55A06295CE870B07029BFCDB2DCE28D959F2815B16F81798, 0x483ADA7726A3C4655DA4FBFC0E1108A8FD17B448A68554199C47D08FFB10D4B8
    scen('the generator point', {px: GX, py: GY}, on, False)
    scen('generator with y + p (non-canonical), equation holds', {px: GX, py: GY + P}, on, True)
    scen('generator with y - p (negative), equation holds', {px: GX, py: GY - P}, on, True)


def _subst(t, a, v):
    if t == a:
        return v
    if isinstance(t, tuple):
        return tuple(_subst(x, a, v) for x in t)
    return t


@PROP.obligation('C04.point', canaries=[
    mut.replace_expr('keys', 'Key.__init__', 'self._y % 2', 'self._x % 2', 'compressed prefix from parity of x', nth=0) if False else
    mut.replace_expr('keys', 'Key.__init__', "'04' + self.x_hex + self.y_hex", "'04' + self.y_hex + self.x_hex", 'uncompressed encoding swaps x and y', nth=1),
    mut.replace_expr('keys', 'Key.__init__', 'change_base(self._y, 10, 16, 64)', 'change_base(self._y, 10, 16, 62)', 'y encoded with width 62'),
    mut.replace_expr('keys', 'Key.__init__', 'ec_point(self.secret)', 'ec_point(self.secret + 1)', 'public point of another scalar'),
])
def point(ctx):
    """Private key branch of Key.__init__: (x, y) = ec_point(secret); x_hex / y_hex are 64-digit hex of that x / y; compressed
    = ('03' if y odd else '02') + x_hex; uncompressed = '04' + x_hex + y_hex."""
    q = 'keys:Key.__init__'
    fn = ctx.repo.func(q)
    blk = None
    for n in walk_no_nested(fn):
        if isinstance(n, ast.If) and 'ec_point' in unparse(n) and 'self.is_private' in unparse(n.test) and any('ec_point' in unparse(s) for s in n.body):
            blk = n
    if blk is None:
        ctx.undecided('block deriving the public point from the secret not found')
    it = Interp(ctx.repo, 'keys', hooks=LAYOUT_HOOKS, self_cls='keys:Key', decide=lambda t: True if t == ('global', 'USE_FASTECDSA') or t == ('attr', SELF, 'is_private') else (False if t in (('attr', SELF, 'public_byte'), ('attr', SELF, 'public_hex')) else None))
    st = State(env={'self': S(SELF)})
    it.frames.append([])
    end = it.exec_if(blk, st)
    if end is None:
        ctx.undecided('public point block always exits')
    h = {k[2]: term(v) for k, v in end.heap.items() if k[0] == 'attr' and k[1] == SELF}
    pt = ('call', 'ec_point', (('attr', SELF, 'secret'),), ())
    X, Y = ('attr', pt, 'x'), ('attr', pt, 'y')
    ctx.saw('_x = %s, _y = %s' % (show(h.get('_x')), show(h.get('_y'))))
    ctx.require(h.get('_x') == X and h.get('_y') == Y, q, 'public point is (%s, %s), expected ec_point(self.secret)' % (show(h.get('_x'))[:60], show(h.get('_y'))[:60]), blk)
    xh, yh = ('call', 'change_base', (X, 10, 16, 64), ()), ('call', 'change_base', (Y, 10, 16, 64), ())
    ctx.require(h.get('x_hex') == xh, q, 'x_hex is %s, expected 64-digit hex of x' % show(h.get('x_hex'))[:80], blk)
    ctx.require(h.get('y_hex') == yh, q, 'y_hex is %s, expected 64-digit hex of y' % show(h.get('y_hex'))[:80], blk, 'leading zero digits of y would be lost')
    comp = plus_to_cat(h.get('public_compressed_hex'))
    ctx.saw('public_compressed_hex = %s' % show(comp)[:120])
    okc = isinstance(comp, tuple) and comp[0] == 'cat' and len(comp[1]) == 2 and comp[1][1] == xh and comp[1][0] == ('cond', ('binop', '%', Y, 2), '03', '02')
    ctx.require(okc, q, "compressed key is %s, expected ('03' if y odd else '02') + x_hex" % show(comp)[:120], blk)
    unc = plus_to_cat(h.get('_public_uncompressed_hex'))
    ctx.require(unc == ('cat', ('04', xh, yh)), q, "uncompressed key is %s, expected '04' + x_hex + y_hex" % show(unc)[:120], blk)


@PROP.obligation('C04.decompress', canaries=[
    mut.replace_expr('keys', 'Key.public_uncompressed_hex', 'change_base(self._y, 10, 16, 64)', 'hex(self._y)[2:]', 'decompression: y hex without leading zeros'),
    mut.const('keys', 'Key.public_uncompressed_hex', 7, 5, 'decompression: x^3 + 5'),
    mut.replace_expr('keys', 'Key.public_uncompressed_hex', 'secp256k1_p - self._y', 'secp256k1_n - self._y', 'decompression: negation modulo n'),
    mut.cmpop('keys', 'Key.public_uncompressed_hex', "self._y & 1 != sign", ast.Eq, 'decompression: parity fix-up inverted'),
    mut.replace_expr('keys', 'mod_sqrt', 'k + 1', 'k', 'mod_sqrt exponent (p-3)/4'),
])
def decompress(ctx):
    """Key.public_uncompressed_hex: y = sqrt(x^3 + 7) via pow(., (p+1)//4, p); y replaced by p - y when its parity differs from the
    prefix; result '04' + x_hex + 64-digit hex of y."""
    q = 'keys:Key.public_uncompressed_hex'
    fn = ctx.repo.func(q)
    it = Interp(ctx.repo, 'keys', hooks=LAYOUT_HOOKS, self_cls='keys:Key', inline={'mod_sqrt'}, decide=lambda t: False if t == ('attr', SELF, '_public_uncompressed_hex') else None)
    exits = it.run_function(fn, {})
    rets = [e for e in exits if e.kind == 'return']
    if len(rets) != 1:
        ctx.undecided('public_uncompressed_hex: %d return paths' % len(rets))
    e = rets[0]
    y = term(e.heap.get(('attr', SELF, '_y')))
    ctx.saw('_y = %s' % show(y)[:200])
    X = ('attr', SELF, '_x')
    if not (isinstance(y, tuple) and y[0] == 'cond'):
        ctx.undecided('decompression: y is not a parity-dependent choice')
    test, neg, pos = y[1], y[2], y[3]
    root = pos
    ctx.require(neg == ('binop', '-', P, root), q, 'parity fix-up yields %s, expected p - y' % show(neg)[:100], fn)
    # root = pow(ys, (p+1)//4, p)
    ok_root = isinstance(root, tuple) and root[0] == 'call' and root[1] == 'pow' and len(root[2]) == 3 and root[2][2] == P
    if not ok_root:
        ctx.undecided('decompression: square root is not pow(.., e, p): %s' % show(root)[:100])
    ctx.require(root[2][1] == (P + 1) // 4, q, 'square-root exponent differs from (p+1)/4 by %s' % (root[2][1] - (P + 1) // 4 if isinstance(root[2][1], int) else '?'), fn)
    ys = root[2][0]
    try:
        vals = [intv.value_eval(_subst(ys, ('call', 'pow', (X, 3, P), ()), pow(x, 3, P)), {X: x}) % P for x in (1, 2, 12345)]
    except Exception:
        ctx.undecided('decompression: right-hand side not evaluable: %s' % show(ys)[:100])
    ctx.require(vals == [(x ** 3 + 7) % P for x in (1, 2, 12345)], q, 'y^2 is computed as %s, expected x^3 + 7' % show(ys)[:100], fn)
    # parity test: (y & 1) != (prefix == '03')
    sign = ('cmp', '==', ('slice', ('attr', SELF, 'public_hex'), None, 2, None), '03')
    ok_t = test in (('cmp', '!=', ('binop', '&', root, 1), sign), ('cmp', '!=', ('binop', '%', root, 2), sign))
    ctx.require(ok_t, q, 'parity test is %s, expected (y & 1) != (prefix == 03)' % show(test)[:140].replace(show(root), 'y'), fn)
    rv = plus_to_cat(term(e.value))
    yh = term(e.heap.get(('attr', SELF, 'y_hex')))
    ctx.saw('y_hex = %s' % show(yh)[:60].replace(show(y), 'y'))
    ctx.require(yh == ('call', 'change_base', (y, 10, 16, 64), ()), q, 'y_hex is %s, expected the 64-digit hex of y' % show(yh).replace(show(y), 'y')[:80], fn,
                'a y coordinate with leading zero digits gives a 64-byte "uncompressed key" and a wrong address')


SCRIPT_TYPES = ['p2pkh', 'p2sh', 'p2wpkh', 'p2wsh', 'p2sh_p2wpkh', 'p2sh_p2wsh', 'p2tr']


def _addr_row(ctx, script_type, encoding, witness_type, witver=0, hashed=False):
    fn = ctx.repo.func('keys:Address.__init__')
    it = Interp(ctx.repo, 'keys', hooks=LAYOUT_HOOKS, self_cls='keys:Address', decide=lambda t: True if isinstance(t, tuple) and t[0] == 'isinstance' else None)
    D = ('var', 'data')
    args = {'script_type': script_type, 'encoding': encoding, 'witness_type': witness_type, 'witver': witver, 'prefix': None,
            'network': S(('var', 'network')), 'network_overrides': None}
    if hashed:
        args['hashed_data'] = S(('var', 'hashed_data'), 'bytes')
        args['data'] = ''
    else:
        args['data'] = S(D, 'bytes')
        args['hashed_data'] = ''
    exits = it.run_function(fn, args)
    rets = [e for e in exits if e.kind == 'return']
    if not rets:
        return None
    e = rets[-1]
    addr = normalize(term(e.heap.get(('attr', SELF, 'address'))))
    return addr, term(e.heap.get(('attr', SELF, 'script_type'))), term(e.heap.get(('attr', SELF, 'encoding')))


@PROP.obligation('C04.addr-table', canaries=[
    mut.replace_expr('keys', 'Address.__init__', "self.script_type in ['p2wsh', 'p2sh_p2wsh']", "self.script_type in ['p2wsh']", 'p2sh_p2wsh hashed with hash160'),
    mut.replace_expr('keys', 'Address.__init__', "b'\\x00' + varstr(self.hash_bytes)", "varstr(self.hash_bytes)", 'p2sh-segwit redeem script loses the witness version byte'),
    mut.replace_expr('keys', 'Address.__init__', 'self.network.prefix_address_p2sh', 'self.network.prefix_address', 'p2sh family uses the p2pkh prefix'),
    mut.replace_expr('keys', 'Address.__init__', '1 if self.witver == 0 else self.witver', '1', 'p2tr: witness version forced to 1'),
    mut.replace_expr('keys', 'Address.__init__', 'pubkeyhash_to_addr(self.hash_bytes, prefix=self.prefix, encoding=self.encoding, witver=self.witver)', 'pubkeyhash_to_addr(self.hash_bytes, prefix=self.prefix, encoding=self.encoding)', 'Address: witness version not passed to the encoder'),
])
def addr_table(ctx):
    """Address.__init__ partially evaluated over script_type x encoding x witness_type (data = public key / script):
    payload hash (sha256 for p2wsh, p2sh_p2wsh; hash160 otherwise), P2SH-P2W* wrapping hash160(00 . push(hash)), prefix field
    (prefix_address_p2sh for the p2sh family, prefix_address for p2pkh, prefix_bech32 for bech32) and witness version."""
    D = ('var', 'data')
    NET = ('var', 'network')
    h160 = ('hash', 'hash160', D)
    s256 = ('mcall', ('call', 'hashlib.sha256', (D,), ()), 'digest', (), ())
    wrap = lambda h: ('hash', 'hash160', ('cat', (b'\x00', ('varstr', h))))
    spec = [
        # script_type, encoding, witness_type -> (payload, prefix attr, encoding, witver)
        ('p2pkh', 'base58', None, h160, 'prefix_address', 'base58', 0),
        ('p2pkh', None, None, h160, 'prefix_address', 'base58', 0),
        ('p2sh', 'base58', None, h160, 'prefix_address_p2sh', 'base58', 0),
        ('p2sh', None, None, h160, 'prefix_address_p2sh', 'base58', 0),
        ('p2wpkh', 'bech32', None, h160, 'prefix_bech32', 'bech32', 0),
        ('p2wpkh', None, None, h160, 'prefix_bech32', 'bech32', 0),
        ('p2wsh', 'bech32', None, s256, 'prefix_bech32', 'bech32', 0),
        ('p2wsh', None, None, s256, 'prefix_bech32', 'bech32', 0),
        ('p2sh_p2wpkh', 'base58', None, wrap(h160), 'prefix_address_p2sh', 'base58', 0),
        ('p2sh_p2wpkh', None, None, wrap(h160), 'prefix_address_p2sh', 'base58', 0),
        ('p2sh_p2wsh', 'base58', None, wrap(s256), 'prefix_address_p2sh', 'base58', 0),
        ('p2sh_p2wsh', None, None, wrap(s256), 'prefix_address_p2sh', 'base58', 0),
        (None, 'base58', 'p2sh-segwit', wrap(h160), 'prefix_address_p2sh', 'base58', 0),
        (None, 'base58', 'legacy', h160, 'prefix_address', 'base58', 0),
        (None, 'bech32', 'segwit', h160, 'prefix_bech32', 'bech32', 0),
    ]
    q = 'keys:Address.__init__'
    fn = ctx.repo.func(q)
    for st, enc, wt, payload, pfx, out_enc, wv in spec:
        row = _addr_row(ctx, st, enc, wt)
        if row is None:
            ctx.violate(q, 'script_type=%s encoding=%s witness_type=%s is refused' % (st, enc, wt), fn)
            continue
        addr, _, _ = row
        exp = ('call', 'pubkeyhash_to_addr', (payload,), (('encoding', out_enc), ('prefix', ('attr', NET, pfx)), ('witver', wv)))
        ctx.saw('(%s, %s, %s) -> %s' % (st, enc, wt, show(addr)[:150].replace("to_bytes(data)", 'D')))
        if addr != exp:
            ctx.violate(q, 'script_type=%s encoding=%s witness_type=%s: address = %s, expected %s' % (st, enc, wt, show(addr)[:170], show(exp)[:170]), fn,
                        'addresses derived for that combination are not the standard encoding of the key / script hash')
    # taproot rows are compared on the hashed_data path only (prefix, witness version)
    for wv_in, wv_out in ((0, 1), (1, 1), (2, 2), (16, 16)):
        row = _addr_row(ctx, 'p2tr', None, None, witver=wv_in, hashed=True)
        if row is None:
            ctx.violate(q, 'p2tr with hashed_data is refused', fn)
            continue
        addr = row[0]
        exp = ('call', 'pubkeyhash_to_addr', (('var', 'hashed_data'),), (('encoding', 'bech32'), ('prefix', ('attr', NET, 'prefix_bech32')), ('witver', wv_out)))
        ctx.saw('(p2tr, witver=%d, hashed_data) -> %s' % (wv_in, show(addr)[:120]))
        ctx.require(addr == exp, q, 'p2tr witver=%d: address = %s, expected bech32m of the program with witness version %d' % (wv_in, show(addr)[:150], wv_out), fn,
                    'witness v2..v16 programs are reported as v1 addresses (or v1 as v0)')


@PROP.obligation('C04.encoders', canaries=[
    mut.replace_expr('encoding', 'pubkeyhash_to_addr_bech32', 'witver > 0', 'witver > 1', 'bech32 encoder: v1 keeps the bech32 constant'),
    mut.replace_expr('encoding', 'pubkeyhash_to_addr', 'pubkeyhash_to_addr_bech32(pubkeyhash, prefix, witver)', 'pubkeyhash_to_addr_bech32(pubkeyhash, prefix)', 'pubkeyhash_to_addr drops the witness version'),
])
def encoders(ctx):
    """pubkeyhash_to_addr dispatches base58 / bech32 passing prefix and witness version; pubkeyhash_to_addr_bech32 uses checksum
    constant 1 for witness version 0 and the bech32m constant for versions 1..16, and refuses versions above 16."""
    repo = ctx.repo
    q = 'encoding:pubkeyhash_to_addr'
    fn = repo.func(q)
    H, PFX = ('var', 'pubkeyhash'), ('var', 'prefix')
    for enc in ('base58', 'bech32'):
        it = Interp(repo, 'encoding')
        exits = it.run_function(fn, {'pubkeyhash': S(H, 'bytes'), 'prefix': S(PFX), 'encoding': enc, 'witver': S(('var', 'witver'), 'int')})
        rets = [e for e in exits if e.kind == 'return']
        v = term(it.result_value(rets)) if rets else None
        ctx.saw('pubkeyhash_to_addr(%s) -> %s' % (enc, show(v)[:140]))
        if enc == 'bech32':
            alts = [s for s in subterms(('w', v)) if isinstance(s, tuple) and s[0] == 'call' and s[1] == 'pubkeyhash_to_addr_bech32']
            ok = bool(alts) and all(a[2][0] == H and (len(a[2]) > 2 and a[2][2] == ('var', 'witver') or dict(a[3]).get('witver') == ('var', 'witver')) for a in alts)
            ctx.require(ok, q, 'bech32 branch returns %s: the witness version does not reach the encoder' % show(v)[:120], fn)
        else:
            alts = [s for s in subterms(('w', v)) if isinstance(s, tuple) and s[0] == 'call' and s[1] == 'pubkeyhash_to_addr_base58']
            ctx.require(bool(alts) and all(a[2][0] == H for a in alts), q, 'base58 branch returns %s' % show(v)[:120], fn)
    q = 'encoding:pubkeyhash_to_addr_bech32'
    fn = repo.func(q)
    M = repo.consts('encoding').get('BECH32M_CONST')
    for wv in (0, 1, 2, 16, 17):
        it = Interp(repo, 'encoding', hooks=LAYOUT_HOOKS, decide=lambda t: (t[1] == 'in') if isinstance(t, tuple) and t[0] == 'cmp' and t[1] in ('in', 'not in') and isinstance(t[2], tuple) and t[2][0] == 'len' else None)
        exits = it.run_function(fn, {'pubkeyhash': S(H, 'bytes'), 'prefix': 'bc', 'witver': wv})
        rets = [e for e in exits if e.kind == 'return']
        if wv > 16:
            ctx.saw('bech32 encoder witver=%d: %s' % (wv, [e.kind for e in exits]))
            ctx.require(not rets, q, 'witness version %d is encoded instead of refused' % wv, fn)
            continue
        if not rets:
            ctx.violate(q, 'witness version %d is refused' % wv, fn)
            continue
        v = term(rets[-1].value)
        xors = [s for s in subterms(('w', v)) if isinstance(s, tuple) and s[0] == 'binop' and s[1] == '^' and isinstance(s[3], int) and isinstance(s[2], tuple) and s[2][:2] == ('call', '_bech32_polymod')]
        if not xors:
            ctx.undecided('bech32 encoder: checksum xor constant not found for witver %d' % wv)
        const = xors[0][3]
        ctx.saw('bech32 encoder witver=%d: checksum constant %#x' % (wv, const))
        ctx.require(const == (1 if wv == 0 else M), q, 'witness version %d is encoded with checksum constant %#x, expected %s' % (wv, const, '1 (bech32)' if wv == 0 else 'bech32m'), fn)
        # the version must be the first data value
        firsts = [s for s in subterms(('w', v)) if isinstance(s, tuple) and s[0] == 'list' and len(s) >= 2]
        ctx.require(any(s[1] == wv for s in firsts), q, 'witness version %d is not the first 5-bit value of the data part' % wv, fn)


@PROP.obligation('C04.oncurve-all-formats', canaries=[
    mut.drop_stmt('keys', 'Key.__init__', 'if strict:', 'on-curve test removed', nth=1),
])
def oncurve_all_formats(ctx):
    """Key.__init__: EVERY way of importing a public key (point tuple, compressed / uncompressed hex or bytes) passes the curve test before
    the constructor can finish: from the first statement of each format branch of the public-key block no path reaches the end of the
    function once the node of the curve test is removed from the control-flow graph."""
    q = 'keys:Key.__init__'
    fn = ctx.repo.func(q)
    g = build_cfg(fn)
    curve_ifs = [n for n in ast.walk(fn) if isinstance(n, ast.If) and any(isinstance(x, ast.Raise) for x in n.body) and 'secp256k1_p' in unparse(n.test) and '%' in unparse(n.test)]
    if not curve_ifs:
        ctx.violate(q, 'no curve-membership test guards the import of a public key', fn, 'points that are not on secp256k1 produce key objects and addresses')
        return
    tests = [n.id for n in g.nodes if n.kind == 'test' and any(sub is n.ast for ci in curve_ifs for sub in ast.walk(ci.test))]
    strict_ifs = [n for n in ast.walk(fn) if isinstance(n, ast.If) and unparse(n.test) == 'strict' and any(ci in list(ast.walk(n)) for ci in curve_ifs)]
    strict_tests = [n.id for n in g.nodes if n.kind == 'test' and any(n.ast is si.test for si in strict_ifs)]
    pub = [n for n in walk_no_nested(fn) if isinstance(n, ast.If) and unparse(n.test) == 'not self.is_private']
    if not pub:
        ctx.undecided('Key.__init__: public-key block not found')
    # the format branches: direct if/elif/else alternatives at the top of the public block
    fmt = [s for s in pub[0].body if isinstance(s, ast.If) and 'key_format' in unparse(s.test)]
    if not fmt:
        ctx.undecided('Key.__init__: format dispatch of the public-key block not found')
    branches = []
    cur = fmt[0]
    while True:
        branches.append((unparse(cur.test), cur.body[0]))
        if len(cur.orelse) == 1 and isinstance(cur.orelse[0], ast.If) and 'key_format' in unparse(cur.orelse[0].test):
            cur = cur.orelse[0]
            continue
        if cur.orelse:
            branches.append(('otherwise (hex / bytes encodings)', cur.orelse[0]))
        break
    ends = [n.id for n in g.nodes if n.kind in ('exit', 'return', 'end')] or [g.exit] if hasattr(g, 'exit') else [n.id for n in g.nodes if n.kind in ('return',)]
    ends = [n.id for n in g.nodes if not n.succ and n.kind != 'raise']
    for name, first in branches:
        start = [n.id for n in g.nodes if n.ast is first or (n.kind == 'test' and isinstance(first, ast.If) and n.ast is first.test) or (n.kind == 'test' and isinstance(first, ast.If) and any(sub is n.ast for sub in ast.walk(first.test)))]
        if not start:
            ctx.undecided('Key.__init__: first statement of branch `%s` has no CFG node' % name)
        # with strict=True the `if strict` test goes to its true side: block its false edges
        blocked_edges = []
        for t in strict_tests:
            blocked_edges += g.edges_of(t, 'F')
        seen = g.reach([start[0]], blocked_nodes=tests, blocked_edges=blocked_edges)
        escapes = [e for e in ends if e in seen]
        ctx.saw('public key given as `%s`: constructor can finish without the curve test: %s' % (name, bool(escapes)))
        if escapes:
            ctx.violate(q, 'a public key imported through the branch `%s` never reaches the curve test (strict=True)' % name, first,
                        'Key((x, y)) with an off-curve pair produces a key object and addresses')


@PROP.obligation('C04.compressed-form', canaries=[
    mut.replace_expr('keys', 'Key.address', 'self.public_compressed_byte', 'self.public_byte', 'compressed address built from the stored (possibly uncompressed) encoding'),
])
def compressed_form(ctx):
    """Key.address evaluated for the four combinations (key stored compressed / uncompressed) x (compressed argument True / False): the
    bytes hashed into the address are the compressed encoding when a compressed address is asked for and the uncompressed encoding
    otherwise - never `public_byte`, whose form depends on how the key was imported."""
    q = 'keys:Key.address'
    fn = ctx.repo.func(q)
    for stored in (True, False):
        for asked in (True, False, None):
            built = []

            def h_address(interp, args, kwargs, st, node, built=built):
                built.append(term(args[0]) if args else term(kwargs.get('data')))
                return NotImplemented
            it = Interp(ctx.repo, 'keys', hooks={'Address': h_address}, self_cls='keys:Key')
            st = State()
            st.heap[('attr', SELF, 'compressed')] = stored
            st.heap[('attr', SELF, '_address_obj')] = None
            it.run_function(fn, {'self': S(SELF), 'compressed': asked, 'prefix': None, 'script_type': None, 'encoding': 'base58'}, st=st)
            if len(built) != 1:
                ctx.undecided('Key.address: Address construction not reached exactly once for stored=%s asked=%s' % (stored, asked))
            want_c = asked if asked is not None else stored
            exp = ('attr', SELF, 'public_compressed_byte') if want_c else ('attr', SELF, 'public_uncompressed_byte')
            ok = built[0] == exp or (built[0] == ('attr', SELF, 'public_byte') and stored == want_c and False)
            ctx.saw('key stored %s, address(compressed=%s) hashes %s' % ('compressed' if stored else 'uncompressed', asked, show(built[0])))
            ctx.require(ok, q, 'key stored %s, address(compressed=%s) hashes %s, expected %s' % ('compressed' if stored else 'uncompressed', asked, show(built[0]), show(exp)), fn,
                        'the address of the other encoding of the key is returned')


@PROP.obligation('C04.address-cache', canaries=[
    mut.replace_expr('keys', 'Key.address', 'self._address_obj.network == self.network', 'True', 'Key.address: cached address reused across networks'),
    mut.replace_expr('keys', 'Key.address', 'self._address_obj.data_bytes == data', 'True', 'Key.address: cached address reused for the other compression'),
])
def address_cache(ctx):
    """Key.address reuses its cached Address object only under a condition that compares every input of the address
    (prefix, encoding, script type, the public key bytes used, network); otherwise a fresh Address is built from them."""
    q = 'keys:Key.address'
    fn = ctx.repo.func(q)
    built = []

    def h_address(interp, args, kwargs, st, node):
        inputs = dict(kwargs)
        if args:
            inputs['data'] = args[0]
        built.append((list(st.pc), {k: term(v) for k, v in inputs.items()}, node))
        return NotImplemented
    it = Interp(ctx.repo, 'keys', hooks={'Address': h_address}, self_cls='keys:Key')
    it.run_function(fn, {'compressed': S(('var', 'compressed')), 'prefix': S(('var', 'prefix')), 'script_type': S(('var', 'script_type')), 'encoding': S(('var', 'encoding'))})
    if not built:
        ctx.undecided('Key.address: construction of the Address object not reached')
    cached = ('attr', SELF, '_address_obj')
    attr_of = {'prefix': 'prefix', 'encoding': 'encoding', 'script_type': 'script_type', 'data': 'data_bytes', 'network': 'network'}
    for pc, inputs, node in built:
        if not pc:
            ctx.saw('Address is rebuilt unconditionally (no cache reuse)')
            continue
        reuse_pc = pc[:-1] + [(pc[-1][0], not pc[-1][1])]
        ctx.saw('Address(%s) is rebuilt when %s%s' % (', '.join(sorted(inputs)), '' if pc[-1][1] else 'not ', show(pc[-1][0])[:160]))
        for inp, attr in attr_of.items():
            if inp not in inputs:
                continue
            eq = ('cmp', '==', ('attr', cached, attr), inputs[inp])
            if intv.satisfiable(reuse_pc, [(eq, False)]):
                ctx.violate(q, 'the cached Address can be reused although its %s differs from the requested one (%s)' % (attr, show(inputs[inp])[:60]), node,
                            'a later request with another %s returns the address of the earlier request' % inp)


PUBLISHED = {
    # network: (p2pkh, p2sh, wif, bech32 hrp)   sources: chainparams.cpp of Bitcoin Core / Litecoin Core / Dogecoin Core
    'bitcoin': ('00', '05', '80', 'bc'),
    'testnet': ('6F', 'C4', 'EF', 'tb'),
    'regtest': ('6F', 'C4', 'EF', 'bcrt'),
    'signet': ('6F', 'C4', 'EF', 'tb'),
    'testnet4': ('6F', 'C4', 'EF', 'tb'),
    'litecoin': ('30', '32', 'B0', 'ltc'),
    'litecoin_testnet': ('6F', '3A', 'EF', 'tltc'),
    'dogecoin': ('1E', '16', '9E', None),
    'dogecoin_testnet': ('71', 'C4', 'F1', None),
}


@PROP.obligation('C04.prefixes')
def prefixes(ctx):
    """networks.json: address / WIF / bech32 prefixes of the supported public networks equal the published chain parameters."""
    path = os.path.join(ctx.repo.root, 'bitcoinlib', 'data', 'networks.json')
    try:
        data = json.load(open(path))
    except Exception as e:
        ctx.undecided('networks.json unreadable: %r' % e)
    ctx.floor(len(data), 11, 'network definitions')
    for net, (a, s, w, hrp) in sorted(PUBLISHED.items()):
        if net not in data:
            ctx.undecided('network %s vanished from networks.json' % net)
        d = data[net]
        got = (str(d.get('prefix_address', '')).upper(), str(d.get('prefix_address_p2sh', '')).upper(), str(d.get('prefix_wif', '')).upper(), d.get('prefix_bech32'))
        ctx.saw('%s: p2pkh %s p2sh %s wif %s hrp %s' % (net, got[0], got[1], got[2], got[3]))
        for name, g, want in (('prefix_address', got[0], a), ('prefix_address_p2sh', got[1], s), ('prefix_wif', got[2], w), ('prefix_bech32', got[3], hrp)):
            if want is None:
                continue
            if g != want:
                ctx.violate('bitcoinlib/data/networks.json', 'network %s: %s is %s, published value is %s' % (net, name, g, want), None,
                            'addresses / WIFs produced for that network are not the ones its nodes and wallets use')


@PROP.obligation('C04.cache-keys')
def cache_keys(ctx):
    """Memoisation (public key forms and addresses): every container that a function both looks up and stores into is found (none exists on the reference tree; a
    fixture self-test keeps the detector honest) and the key that is looked up must carry every parameter - and for containers shared
    between objects every attribute of self - that the cached value depends on through data or control flow."""
    from .common_cache import cache_keys as run
    run(ctx, [('keys', lambda q: q.startswith('Key.') or q.startswith('Address.') or '.' not in q), ('encoding', lambda q: True)], 'Key / Address methods, keys and encoding functions')


@PROP.obligation('C04.attr-memos')
def attr_memos(ctx):
    """Key / HDKey / Address cache derived values in attributes (_hash160, _wif, _address_obj, _public_uncompressed_*, _x, _y, ...). For
    every such memo the state it was computed from is collected (attributes of self read by the filling code, properties expanded, minus
    what the reuse test validates), and every method of the class family that assigns one of those attributes must reset the memo:
    otherwise the hash / address / WIF reported afterwards describes the previous state of the key."""
    from .common_cache import attr_memos as run
    n = run(ctx, 'keys', [['Address'], ['Key', 'HDKey'], ['Signature']], 'Key / HDKey / Address / Signature',
            'hash160, address or WIF of the key are reported for the compression flag / network it had before')
    ctx.floor(n, 8, 'attribute memos in keys.py')


@PROP.obligation('C04.explicit-falsy', canaries=[
    mut.replace_stmt('keys', 'HDKey.address', 'if compressed is None:', 'compressed = compressed or self.compressed', 'HDKey.address: explicit compressed=False replaced by the flag of the key'),
])
def explicit_falsy(ctx):
    """A parameter of keys.py that is given a default through a truthiness test (`p = p or d`, `if not p: p = d`) is never passed an
    explicit falsy constant by a caller inside the package: Key.address_uncompressed calls self.address(compressed=False), which
    dispatches to the HDKey override - there False must stay False (the `is None` form)."""
    from .common_falsy import falsy_defaults as run
    run(ctx, ['keys'], 'the address / encoding of the other public-key form is returned: address_uncompressed() of an extended key gives the compressed address')


ADDRESS_HASH = [
    # (encoding, script_type) -> payload of an address built from public-key / script data
    (('bech32', 'p2wpkh'), 'H160(data)', 20), (('bech32', 'p2wsh'), 'SHA256(data)', 32), (('bech32', 'p2tr'), 'SHA256(data)', 32),
    ((None, 'p2wpkh'), 'H160(data)', 20), ((None, 'p2wsh'), 'SHA256(data)', 32), ((None, 'p2tr'), 'SHA256(data)', 32),
    (('base58', 'p2pkh'), 'H160(data)', 20), (('base58', 'p2sh'), 'H160(data)', 20), ((None, 'p2pkh'), 'H160(data)', 20), ((None, None), 'H160(data)', 20),
    (('base58', 'p2sh_p2wpkh'), 'H160(00 . varstr(H160(data)))', 20), (('base58', 'p2sh_p2wsh'), 'H160(00 . varstr(SHA256(data)))', 20),
]


@PROP.obligation('C04.address-hash', canaries=[
    mut.replace_expr('keys', 'Address.__init__', "['p2sh', 'p2sh_multisig', 'p2tr']", "['p2sh', 'p2sh_multisig']", 'p2tr address of a key built from a 20-byte hash'),
    mut.replace_expr('keys', 'Address.__init__', "['p2wsh', 'p2sh_p2wsh']", "['p2sh_p2wsh']", 'p2wsh address built from a 20-byte hash'),
    mut.replace_expr('keys', 'Address.__init__', "b'\\x00' + varstr(self.hash_bytes)", "varstr(self.hash_bytes)", 'nested segwit redeem script without the version byte'),
])
def address_hash(ctx):
    """Address.__init__ evaluated as a whole for every (encoding, script type) of the property on symbolic key data: the payload
    (hash_bytes) is HASH160(data) for the 20-byte programs (p2pkh, p2wpkh, p2sh), SHA256(data) for the 32-byte programs (p2wsh, p2tr) and
    HASH160(00 . push(inner hash)) for the nested forms: a witness-v1 / v0 program of the other length is not an output of that key."""
    q = 'keys:Address.__init__'
    fn = ctx.repo.func(q)
    from ..layout import LAYOUT_HOOKS
    n = 0
    for (enc, stype), exp, size in ADDRESS_HASH:
        it = Interp(ctx.repo, 'keys', hooks=LAYOUT_HOOKS, self_cls='keys:Address')
        try:
            exits = it.run_function(fn, {'self': S(SELF), 'data': S(('var', 'data'), 'bytes'), 'hashed_data': '', 'script_type': stype, 'encoding': enc,
                                         'network': S(('var', 'network')), 'prefix': None, 'witness_type': None, 'witver': 0})
        except AnalysisError as e:
            ctx.undecided('Address.__init__(encoding=%r, script_type=%r) not evaluable: %s' % (enc, stype, str(e)[:100]))
        rets = [e for e in exits if e.kind == 'return']
        if len(rets) != 1:
            ctx.undecided('Address.__init__(encoding=%r, script_type=%r): %d normal exits' % (enc, stype, len(rets)))
        got = show(term(rets[0].heap.get(('attr', SELF, 'hash_bytes'))))
        got = got.replace("hash('hash160', ", 'H160(').replace('hashlib.sha256(', 'SHA256(').replace(').digest()', ')').replace("00'h", '00')
        n += 1
        ctx.saw('encoding=%s script_type=%s: payload %s' % (enc, stype, got))
        ctx.require(got == exp, q, 'address of key / script data with encoding=%r, script_type=%r carries %s; the standard payload is %s (%d bytes)' % (enc, stype, got[:120], exp, size), fn,
                    'the address is not an output of that key: a %d-byte program is required for this script type' % size)
    ctx.floor(n, 12, 'encoding / script type combinations')


@PROP.obligation('C04.defaults')
def api_defaults(ctx):
    """Defaults of the parameters that decide this property for callers who do not pass them: strict validation and compressed keys are the defaults."""
    from .common_defaults import defaults as run
    n = run(ctx, [('keys:Key.__init__', 'strict', 'True'), ('keys:Key.__init__', 'compressed', 'True'), ('keys:HDKey.__init__', 'compressed', 'True'), ('scripts:Script.parse', 'strict', 'True'), ('scripts:Script.parse_bytesio', 'strict', 'True'), ('scripts:Script.parse_bytes', 'strict', 'True'), ('scripts:Script.parse_hex', 'strict', 'True'), ('transactions:Input.__init__', 'strict', 'True'), ('transactions:Output.__init__', 'strict', 'True'), ('transactions:Transaction.parse', 'strict', 'True'), ('transactions:Transaction.parse_bytesio', 'strict', 'True'), ('transactions:Transaction.add_input', 'strict', 'True'), ('transactions:Transaction.add_output', 'strict', 'True')], 'invalid public keys / non-standard scripts are accepted by default')
    ctx.floor(n, 12, 'parameter defaults')


@PROP.obligation('C04.parity-numeric', canaries=[
    mut.replace_expr('keys', 'Key.__init__', "'03' if self._y % 2 else '02'", "'03' if self.y_hex[-1] in '13579bdf' else '02'", 'parity of y read from the last hex character, case-sensitively', nth=1),
])
def parity_numeric(ctx):
    """Everywhere keys.py chooses between the compressed prefixes 02 and 03 the choice is made on the NUMBER y (y % 2 / y & 1), never on
    characters of a hex string (an imported upper-case hex key would give the prefix of -P for y ending in B, D, F)."""
    n = 0
    m = ctx.repo.mod('keys')
    for q, fn in m.functions.items():
        for node in ast.walk(fn):
            test = None
            if isinstance(node, ast.IfExp) and isinstance(node.body, ast.Constant) and isinstance(node.orelse, ast.Constant) and {node.body.value, node.orelse.value} == {'02', '03'}:
                test = node.test
            elif isinstance(node, ast.If) and len(node.body) == 1 and len(node.orelse) == 1 and all(isinstance(b, ast.Assign) and isinstance(b.value, ast.Constant) for b in (node.body[0], node.orelse[0])) \
                    and {node.body[0].value.value, node.orelse[0].value.value} == {'02', '03'}:
                test = node.test
            if test is None:
                continue
            n += 1
            txt = norm(test)
            numeric = isinstance(test, ast.BinOp) and isinstance(test.op, (ast.Mod, ast.BitAnd)) and isinstance(test.right, ast.Constant) and test.right.value in (1, 2)
            ctx.saw('keys:%s line %d: prefix chosen by `%s`' % (q, node.lineno, txt))
            if numeric:
                continue
            if any(isinstance(x, ast.Compare) and isinstance(x.ops[0], (ast.In, ast.NotIn)) and isinstance(x.comparators[0], ast.Constant) and isinstance(x.comparators[0].value, str) for x in ast.walk(test)) or 'hex' in txt:
                ctx.violate('keys:' + q, 'the 02 / 03 prefix is chosen by `%s`: characters of a hex string instead of the parity of the number' % txt, node,
                            'Key(<upper-case uncompressed hex>) whose y ends in B / D / F gets the compressed form of -P: another address')
            else:
                ctx.unsure('keys:%s: parity test `%s` not recognised' % (q, txt))
    ctx.floor(n, 3, 'choices between the prefixes 02 and 03')


@PROP.obligation('C04.history-free')
def history_free(ctx):
    """hash160, address and WIF of a key are functions of the key and of the arguments of THIS call: no method of Key / HDKey reads a memo
    that depends on the arguments of an earlier call (Key._address_obj) outside its validating accessor, or fills another memo from it."""
    from .common_cache import history_reads as run
    run(ctx, 'keys', [['Key', 'HDKey']], 'Key / HDKey', 'the hash / address reported for the key is the one of the form (compressed or not, prefix) asked for by an earlier call')


@PROP.obligation('C04.uncompressed-bech32', canaries=[
    mut.replace_expr('keys', 'Key.address', "not compressed and encoding == 'bech32'", "not compressed and encoding == 'bech32' and not self._address_obj", 'refusal skipped when an address was produced before'),
])
def uncompressed_bech32(ctx):
    """A witness program over the hash of an UNCOMPRESSED public key is not an output its owner can spend in the standard way; Key.address
    refuses it. The method is evaluated as a whole for the uncompressed form with the encoding given explicitly, and with the encoding left
    to the one remembered from an earlier call (`self._address_obj.encoding`): every way out is a refusal or an address whose encoding is
    not bech32 - the refusal looks at the encoding that is finally used, not only at the argument."""
    q = 'keys:Key.address'
    fn = ctx.repo.func(q)
    AO = ('var', 'ao')
    A = lambda b, n: ('attr', b, n)
    n = 0
    for remembered, enc in (('bech32', None), ('bech32', 'bech32'), (None, 'bech32'), ('base58', 'bech32'), ('base58', None), (None, None)):
        heap = {A(SELF, 'compressed'): True, A(SELF, '_address_obj'): (S(AO) if remembered else None)}
        if remembered:
            heap.update({A(AO, 'encoding'): remembered, A(AO, 'script_type'): 'p2wpkh' if remembered == 'bech32' else 'p2pkh', A(AO, 'prefix'): None})
        calls = []

        def h_addr(it, args, kwargs, st, node):
            calls.append({k: (v if isinstance(v, (str, bytes, bool, type(None))) else term(v)) for k, v in kwargs.items()})
            return S(('var', 'newaddr'))
        it = Interp(ctx.repo, 'keys', hooks={'Address': h_addr}, self_cls='keys:Key', decide=lambda t: True if t == AO else None)
        try:
            exits = it.run_function(fn, {'self': S(SELF), 'compressed': False, 'prefix': None, 'script_type': None, 'encoding': enc}, State(heap=heap))
        except AnalysisError as e:
            ctx.undecided('Key.address(compressed=False, encoding=%r) with %s remembered not evaluable: %s' % (enc, remembered, str(e)[:100]))
        if any(e.pc for e in exits):
            ctx.undecided('Key.address(compressed=False, encoding=%r) with %s remembered: outcome depends on %s' % (enc, remembered, [show(t)[:50] for e in exits for t, _ in e.pc][:2]))
        n += 1
        final = [c.get('encoding') for c in calls]
        rets = [e for e in exits if e.kind == 'return']
        ctx.saw('uncompressed form, encoding=%r, remembered %s -> %s' % (enc, remembered, 'refused' if not rets else 'address with encoding %s' % final))
        want_refusal = enc == 'bech32' or (enc is None and remembered == 'bech32')
        if want_refusal:
            ctx.require(not rets or (final and all(f != 'bech32' for f in final)), q, 'Key.address(compressed=False, encoding=%r) after a call that left %s as the remembered encoding returns a bech32 address over the uncompressed key' % (enc, remembered), fn,
                        'k.address(encoding="bech32"); k.address_uncompressed() hands out bc1q... over HASH160 of the 65-byte key: an output its owner cannot spend in the standard way')
        else:
            ctx.require(bool(rets) and final and all(f == 'base58' for f in final), q, 'Key.address(compressed=False, encoding=%r) with %s remembered: %s' % (enc, remembered, 'refused' if not rets else final), fn)
    ctx.floor(n, 6, 'encoding scenarios')


NEGATING = {'Key.inverse', 'HDKey.inverse', 'Key.__neg__', 'HDKey.__neg__'}


@PROP.obligation('C04.parity-prefix', canaries=[
    mut.replace_expr('keys', 'Key.__init__', "'03' if self._y % 2 else '02'", "'02' if self._y % 2 else '03'", 'compressed prefix of an imported uncompressed key negated', nth=1),
    mut.replace_expr('keys', 'Key.__init__', "'03' if self._y % 2 else '02'", "'02' if self._y % 2 else '03'", 'compressed prefix of a point tuple negated', nth=0),
])
def parity_prefix(ctx):
    """SEC1: the compressed form of (x, y) is 03 || x for odd y and 02 || x for even y. Every expression of keys.py that chooses between
    the two prefixes by a parity test is evaluated for an odd and an even value: odd selects 03 - except in the methods that NEGATE the
    point (inverse), where the choice is the opposite by design. The compressed and the uncompressed form then describe the same point."""
    m = ctx.repo.mod('keys')
    n = 0
    for qn, fn in sorted(m.functions.items()):
        for e in ast.walk(fn):
            if not isinstance(e, ast.IfExp):
                continue
            vals = []
            for br in (e.body, e.orelse):
                v = br.value if isinstance(br, ast.Constant) else None
                vals.append({'02': 2, '03': 3, b'\x02': 2, b'\x03': 3, 2: 2, 3: 3}.get(v) if isinstance(v, (str, bytes, int)) and not isinstance(v, bool) else None)
            if sorted(x for x in vals if x) != [2, 3]:
                continue
            # the single value the test reads
            atoms = [x for x in ast.walk(e.test) if isinstance(x, (ast.Name, ast.Attribute)) and not any(x is y.value for y in ast.walk(e.test) if isinstance(y, ast.Attribute))]
            atoms = [x for x in atoms if not (isinstance(x, ast.Name) and x.id == 'self')]
            names = sorted(set(norm(a) for a in atoms))
            if len(names) != 1:
                ctx.unsure('%s: prefix selection `%s` reads %s' % (qn, norm(e)[:60], names))
                continue
            res = {}
            for y in (1, 2, 7, 0):
                src = norm(e).replace(names[0], '(%d)' % y)
                try:
                    got = eval(compile(ast.Expression(ast.parse(src, mode='eval').body), '<parity>', 'eval'), {'__builtins__': {}}, {})
                except Exception:
                    got = None
                res[y] = {'02': 2, '03': 3, b'\x02': 2, b'\x03': 3, 2: 2, 3: 3}.get(got)
            n += 1
            odd_is_3 = res.get(1) == 3 and res.get(7) == 3 and res.get(2) == 2 and res.get(0) == 2
            odd_is_2 = res.get(1) == 2 and res.get(7) == 2 and res.get(2) == 3 and res.get(0) == 3
            ctx.saw('%s: `%s` -> odd %s, even %s' % (qn, norm(e)[:50], res.get(1), res.get(2)))
            if qn in NEGATING:
                ctx.require(odd_is_2, 'keys:' + qn, 'the negated point is encoded with `%s`: odd y must give 02 here (the negation has even y)' % norm(e)[:60], e)
            else:
                ctx.require(odd_is_3, 'keys:' + qn, 'the compressed prefix is chosen by `%s`: odd y gives %s, even y gives %s (SEC1: odd 03, even 02)' % (norm(e)[:60], res.get(1), res.get(2)), e,
                            'a public key imported in uncompressed form exports the compressed form of the NEGATED point: another address, and an xpub that carries the wrong key')
    ctx.floor(n, 4, 'parity selections')


@PROP.obligation('C04.strict-forwarded', canaries=[
    mut.replace_expr('keys', 'HDKey.__init__', 'Key.__init__(self, key, network, compressed, password, is_private)', 'Key.__init__(self, key, network, compressed, password, is_private, strict=depth == 0)', 'derived extended keys imported without the curve test'),
])
def strict_forwarded(ctx):
    """The curve-membership test of Key.__init__ runs when `strict` is true (the default). Wherever the package passes a `strict`
    argument on, it is a constant, the caller's own `strict` parameter or `self.strict` - never an expression over other data (depth,
    key type, length ...), which would switch validation off for part of the inputs: an extended public key with depth >= 1 and an
    off-curve point would become a key object with addresses nobody can spend from."""
    n = 0
    for modname in sorted(ctx.repo.modules):
        m = ctx.repo.mod(modname)
        for qn, fn in sorted(m.functions.items()):
            for c in ast.walk(fn):
                if not isinstance(c, ast.Call):
                    continue
                for k in c.keywords:
                    if k.arg != 'strict':
                        continue
                    n += 1
                    v = k.value
                    ok = (isinstance(v, ast.Constant) and isinstance(v.value, bool)) or (isinstance(v, ast.Name) and v.id == 'strict') or norm(v) in ('self.strict', 'cls.strict')
                    if not ok:
                        ctx.violate('%s:%s' % (modname, qn), '`%s` is called with strict=%s: whether the input is validated depends on other data' % (norm(c.func)[:40], norm(v)[:40]), c,
                                    'HDKey(xpub with depth >= 1 whose 02||x is not on the curve) is accepted: a key object and addresses for a point that does not exist')
    ctx.saw('%d `strict=` arguments: each a constant or the caller\'s own strict' % n)
    ctx.floor(n, 30, 'strict arguments')


from . import c12 as _c12
PROP.obligation('C04.wif-chosen-network', canaries=[
    mut.replace_expr('keys', 'Key.from_wif', 'network or next(iter(networks), DEFAULT_NETWORK)', 'next(iter(networks), network or DEFAULT_NETWORK)', 'addresses of the first network sharing the version byte'),
])(_c12.wif_network_hint)


@PROP.obligation('C04.explicit-encoding', canaries=[
    mut.replace_stmt('keys', 'HDKey.__init__', 'if not encoding:', 'encoding = get_encoding_from_witness(witness_type) if witness_type else encoding', 'the witness type always decides the encoding'),
    mut.replace_stmt('keys', 'HDKey.__init__', 'self.encoding = encoding', 'self.encoding = get_encoding_from_witness(witness_type)', 'the stored encoding ignores the argument'),
])
def explicit_encoding(ctx):
    """HDKey(..., witness_type=W, encoding=E): the address encoding the caller chose is kept. The statements of HDKey.__init__ from the
    witness-type default to `self.encoding = ...` are evaluated with an explicit encoding that differs from the default of the witness
    type (legacy + bech32, segwit + base58) and with encoding=None: self.encoding is E in the first cases and the default of the witness
    type only in the last one."""
    q = 'keys:HDKey.__init__'
    fn = ctx.repo.func(q)
    body = fn.body
    i0 = [i for i, s_ in enumerate(body) if isinstance(s_, ast.If) and norm(s_.test) == 'witness_type is None']
    i1 = [i for i, s_ in enumerate(body) if isinstance(s_, ast.Assign) and any(norm(t) == 'self.encoding' for t in s_.targets)]
    if not i0 or not i1 or i1[-1] < i0[0]:
        ctx.undecided('HDKey.__init__: statements between the witness-type default and self.encoding not found')
    stmts = body[i0[0]:i1[-1] + 1]
    n = 0
    for wt, enc, exp in (('legacy', 'bech32', 'bech32'), ('segwit', 'base58', 'base58'), ('p2sh-segwit', 'bech32', 'bech32'), (None, 'base58', 'base58'),
                         ('segwit', None, 'default-of-segwit'), ('legacy', None, 'default-of-legacy')):
        hooks = {'get_encoding_from_witness': lambda it, a, kw, st, node: 'default-of-%s' % (a[0] if isinstance(a[0], str) else show(term(a[0]))),
                 'script_type_default': lambda it, a, kw, st, node: S(('var', 'script_type_default'), 'str'),
                 'Key.__init__': lambda it, a, kw, st, node: None}
        it = Interp(ctx.repo, 'keys', hooks=hooks, self_cls='keys:HDKey')
        st = State(env={'self': S(SELF), 'witness_type': wt, 'encoding': enc, 'script_type': None, 'multisig': False, 'key': S(('var', 'key'), 'bytes'), 'network': 'bitcoin',
                        'compressed': True, 'password': '', 'is_private': True, 'DEFAULT_WITNESS_TYPE': 'segwit'})
        it.frames.append([])
        try:
            end = it.exec_block(stmts, st)
        except AnalysisError as e:
            ctx.undecided('HDKey.__init__(witness_type=%r, encoding=%r): option statements not evaluable: %s' % (wt, enc, str(e)[:100]))
        it.frames.pop()
        if end is None:
            ctx.undecided('HDKey.__init__(witness_type=%r, encoding=%r): always raises' % (wt, enc))
        got = end.heap.get(('attr', SELF, 'encoding'))
        gv = got if isinstance(got, (str, type(None))) else show(term(got))
        n += 1
        ctx.saw('HDKey(witness_type=%r, encoding=%r) -> self.encoding = %s' % (wt, enc, gv))
        ctx.require(gv == exp, q, 'HDKey(..., witness_type=%r, encoding=%r) stores encoding %s, expected %s' % (wt, enc, gv, exp), body[i1[-1]],
                    "HDKey(k, witness_type='legacy', encoding='bech32').address() is the base58 address 1...: the chosen encoding is replaced by the default of the witness type, also for every child key")
    ctx.floor(n, 6, 'encoding scenarios')


def _residue_kind(e, fn, mod_names, depth=0):
    """'reduced' when the value of expression e is a residue in [0, M): pow(a, b, M), x % M, mod_sqrt(...), a constant below 2**32, a
    name whose every assignment in fn is reduced; 'overflow' when it is a reduced value combined with + or * WITHOUT a final reduction
    (so it can reach M or more); None when nothing is known."""
    if isinstance(e, ast.Call) and norm(e.func) == 'pow' and len(e.args) == 3 and norm(e.args[2]) in mod_names:
        return 'reduced'
    if isinstance(e, ast.Call) and norm(e.func) == 'mod_sqrt':
        return 'reduced'
    if isinstance(e, ast.BinOp) and isinstance(e.op, ast.Mod) and norm(e.right) in mod_names:
        return 'reduced'
    if isinstance(e, ast.Constant) and isinstance(e.value, int) and 0 <= e.value < 2 ** 32:
        return 'reduced'
    if isinstance(e, ast.BinOp) and isinstance(e.op, (ast.Add, ast.Mult)):
        ks = [_residue_kind(e.left, fn, mod_names, depth), _residue_kind(e.right, fn, mod_names, depth)]
        if 'reduced' in ks or 'overflow' in ks:
            if all(isinstance(x, ast.Constant) for x in (e.left, e.right)):
                return 'reduced'
            return 'overflow'
        return None
    if isinstance(e, (ast.Name, ast.Attribute)) and depth < 3:
        defs = [a.value for a in ast.walk(fn) if isinstance(a, ast.Assign) and any(norm(t) == norm(e) for t in a.targets)]
        ks = set(_residue_kind(d, fn, mod_names, depth + 1) for d in defs)
        if defs and ks == {'reduced'}:
            return 'reduced'
        if 'overflow' in ks:
            return 'overflow'
    return None


_RESIDUE_FIXTURE = '''
def bad(x, P):
    ys = pow(x, 3, P) + 7 % P
    y = mod_sqrt(ys)
    if pow(y, 2, P) != ys:
        raise ValueError('no point')

def good(x, P):
    ys = (pow(x, 3, P) + 7) % P
    y = mod_sqrt(ys)
    if pow(y, 2, P) != ys:
        raise ValueError('no point')
    if (y * y - x * x * x - 7) % P != 0:
        raise ValueError('no point')
'''


def _residue_compares(fn, mod_names):
    out = []
    for c in ast.walk(fn):
        if isinstance(c, ast.Compare) and len(c.ops) == 1 and isinstance(c.ops[0], (ast.Eq, ast.NotEq)):
            kl, kr = _residue_kind(c.left, fn, mod_names), _residue_kind(c.comparators[0], fn, mod_names)
            sides = [(c.left, kl), (c.comparators[0], kr)]
            if any(k in ('reduced', 'overflow') and not isinstance(x, ast.Constant) for x, k in sides):
                out.append((c, kl, kr))
    return out


@PROP.obligation('C04.residue-compare', canaries=[
    mut.insert_before('keys', 'Key.public_uncompressed_hex', 'if self._y & 1 != sign:', "if pow(self._y, 2, secp256k1_p) != ys:\n    raise BKeyError('no point with this x coordinate')",
                      'a residue is compared with the unreduced x^3 + 7'),
])
def residue_compare(ctx):
    """Curve equations are congruences modulo p. Wherever keys.py compares two values with == / != and one side is a residue (pow(a, b, p),
    x % p, mod_sqrt(...)), the other side is a residue as well - not a residue plus or times something without a final `% p`, which can
    be p or more and then differs from the residue it is congruent to: the points whose x^3 mod p lies in [p - 7, p - 1] (y = 1 and
    y = p - 1 among them) would be refused although they are on the curve."""
    res = {f.name: [(k1, k2) for _, k1, k2 in _residue_compares(f, ('P',))] for f in ast.parse(_RESIDUE_FIXTURE).body}
    if res != {'bad': [('reduced', 'overflow')], 'good': [('reduced', 'reduced'), ('reduced', 'reduced')]}:
        raise AnalysisError('residue-compare fixture classified %s' % res)
    ctx.saw('self-test on the embedded fixture: %s' % res)
    mod = ctx.repo.mod('keys')
    n = 0
    for name, fn in sorted(mod.functions.items()):
        for c, kl, kr in _residue_compares(fn, ('secp256k1_p', 'secp256k1_n')):
            n += 1
            ctx.saw('keys:%s: `%s` compares %s with %s' % (name, norm(c)[:70], kl, kr))
            if 'overflow' in (kl, kr) and 'reduced' in (kl, kr):
                ctx.violate('keys:' + name, '`%s` compares a residue modulo p with a value that is not reduced (a residue plus / times something, without `%% p`)' % norm(c)[:80], c,
                            'a valid compressed public key whose x^3 mod p lies in [p-7, p-1] (the points with y = 1 or y = p-1) is refused: the verifier raises for a triple standard ECDSA accepts')
    ctx.floor(n, 1, 'comparisons of residues')


@PROP.obligation('C04.address-hash-by-script-type', canaries=[
    mut.Canary('the cached HASH160 of the key is handed to every address type', 'keys', lambda tree: _hand_over_hash160(tree)),
])
def address_hash_by_script_type(ctx):
    """Which hash of the public key an address commits to follows the script type: HASH160 for p2pkh / p2wpkh / p2sh_p2wpkh, SHA256 for
    p2wsh / p2sh_p2wsh / p2tr. Address.__init__ makes that choice when it is given the key bytes and NO hashed_data. Key.address(),
    evaluated with a symbolic script type, builds its Address from the key bytes: if it hands over a precomputed hash (the cached
    HASH160 of the key), that hash becomes the witness program of a p2wsh / p2tr address as well - key.address(script_type='p2wsh')
    returns the key's P2WPKH address once key.hash160 has been read."""
    q = 'keys:Key.address'
    fn = ctx.repo.func(q)
    built = []

    def h_address(interp, args, kwargs, st, node):
        built.append((list(st.pc), {k: (term(v) if isinstance(v, S) else v) for k, v in kwargs.items()}, [term(a) if isinstance(a, S) else a for a in args], node))
        return NotImplemented
    n = 0
    for stype, enc in (('p2wsh', 'bech32'), ('p2tr', 'bech32'), ('p2sh_p2wsh', 'base58')):
        del built[:]
        it = Interp(ctx.repo, 'keys', hooks={'Address': h_address}, self_cls='keys:Key')
        try:
            it.run_function(fn, {'compressed': S(('var', 'compressed')), 'prefix': S(('var', 'prefix')), 'script_type': stype, 'encoding': enc})
        except AnalysisError as e:
            ctx.undecided('Key.address(script_type=%r) not evaluable: %s' % (stype, str(e)[:100]))
        if not built:
            ctx.undecided('Key.address(script_type=%r): construction of the Address object not reached' % stype)
        for pc, kw, args, node in built:
            n += 1
            hd = kw.get('hashed_data', args[1] if len(args) > 1 else None)
            ctx.saw('script_type=%s: Address(<key bytes>, ...) with hashed_data=%s' % (stype, show(hd)[:60] if isinstance(hd, tuple) else hd))
            if hd not in (None, b'', ''):
                ctx.violate(q, 'for script type %s Key.address hands the Address a precomputed hash (`%s`): Address.__init__ no longer takes SHA256 of the key' % (stype, show(hd)[:70] if isinstance(hd, tuple) else hd), node,
                            "after k.hash160 (or as_dict(), a fingerprint, a child derivation) k.address(script_type='p2wsh', encoding='bech32') is the key's P2WPKH address bc1qw508d6q...: a 20-byte program where SHA256 of the key is required")
                break
    ctx.floor(n, 3, 'Address constructions')


def _hand_over_hash160(tree):
    for cls in tree.body:
        if isinstance(cls, ast.ClassDef) and cls.name == 'Key':
            for f in cls.body:
                if isinstance(f, ast.FunctionDef) and f.name == 'address':
                    for c in ast.walk(f):
                        if isinstance(c, ast.Call) and norm(c.func) == 'Address' and not any(k.arg == 'hashed_data' for k in c.keywords):
                            c.keywords.append(ast.keyword(arg='hashed_data', value=ast.parse('self._hash160', mode='eval').body))
                            return True
    return False
