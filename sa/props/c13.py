"""C13 ECDSA signatures are canonical (low-S, DER), nonces derive from (message, key) or a CSPRNG, verifier range checks."""
import ast

from ..core import Property, unparse, norm, AnalysisError
from ..sym import Interp, S, term, show, subterms, State
from .. import intv, mut
from ..layout import plus_to_cat
from .common_sig import N, fast, sigrange, argorder, verify_args, SELF

PROP = Property(
    'C13', 'ECDSA: low-S, nonce provenance, r/s range, DER from normalised pair, curve membership',
    'Static: Signature.create is evaluated abstractly for both back ends; the emitted s must be min(s, n-s) decided by an '
    'INTEGER half-order comparison; the nonce must be the explicit k, RFC6979(digest, secret, n, sha256) or '
    'SystemRandom().randint(1, n-1); Signature.__init__ must raise outside 1 <= r,s < n (exact partition); the DER '
    'encoding must come from the normalised (r, s) with the hash-type byte appended once; the public-key setter must '
    'test curve membership; fastecdsa calls must pass operands in the extension\'s positional roles. The numerical '
    'correctness of the ECDSA arithmetic itself is fastecdsa\'s and is NOT decided.',
    ['fastecdsa _ecdsa.sign/_ecdsa.verify, RFC6979 and DEREncoder are correct', 'python-ecdsa (fallback back end) validates points in VerifyingKey.from_string'])


def _create_exits(ctx, use_fast):
    q = 'keys:Signature.create'
    fn = ctx.repo.func(q)
    it = Interp(ctx.repo, 'keys', decide=fast(use_fast))
    args = {'txid': S(('var', 'txid'), 'str'), 'private': S(('var', 'private')), 'k': S(('var', 'k')),
            'use_rfc6979': S(('var', 'use_rfc6979'), 'bool')}
    exits = it.run_function(fn, args)
    return q, fn, [e for e in exits if e.kind == 'return']


@PROP.obligation('C13.low-s', canaries=[
    mut.replace_expr('keys', 'Signature.create', 'secp256k1_n // 2', 'secp256k1_n / 2', 'low-S: float half order again (fastecdsa branch)', nth=0),
    mut.replace_expr('keys', 'Signature.create', 'secp256k1_n // 2', 'secp256k1_n / 2', 'low-S: float half order again (ecdsa branch)', nth=1),
    mut.replace_expr('keys', 'Signature.create', 'secp256k1_n - int(s)', 'secp256k1_p - int(s)', 'low-S: n - s replaced by p - s'),
    mut.drop_stmt('keys', 'Signature.create', 'if s > secp256k1_n // 2', 'low-S normalisation removed in ecdsa branch'),
    mut.cmpop('keys', 'Signature.create', 'int(s) > secp256k1_n // 2', ast.Lt, 'low-S: comparison inverted'),
])
def low_s(ctx):
    """Signature.create (both back ends): emitted s = n - s0 iff s0 > n//2 with an integer half order, else s0."""
    half = N // 2
    for use_fast in (True, False):
        q, fn, rets = _create_exits(ctx, use_fast)
        if not rets:
            ctx.undecided('Signature.create has no return path (backend fast=%s)' % use_fast)
        for e in rets:
            rv = term(e.value)
            if not (isinstance(rv, tuple) and rv[0] == 'call' and rv[1] == 'Signature' and len(rv[2]) >= 2):
                ctx.undecided('Signature.create does not return Signature(r, s, ...)')
            s_t = rv[2][1]
            ctx.saw('backend fastecdsa=%s: s = %s' % (use_fast, show(s_t)[:200]))
            if not (isinstance(s_t, tuple) and s_t[0] == 'cond'):
                ctx.violate(q, 'emitted s is %s: no low-S normalisation (fastecdsa=%s)' % (show(s_t)[:80], use_fast), e.node,
                            'high-S signatures are non-standard (BIP62/BIP146) and malleable')
                continue
            test, hi_v, lo_v = s_t[1], s_t[2], s_t[3]
            if isinstance(test, tuple) and test[0] == 'cmp' and test[1] in ('<', '<=') and not isinstance(test[2], (int, float)) and \
                    isinstance(hi_v, tuple) and hi_v[:3] == ('binop', '-', N):
                ctx.violate(q, 'n - s is substituted when s is BELOW the threshold (test %s): low s values are turned into high-S (fastecdsa=%s)' % (test[1], use_fast), e.node)
                continue
            if not (isinstance(test, tuple) and test[0] == 'cmp' and test[1] in ('>', '>=') and not isinstance(test[2], (int, float))):
                ctx.undecided('low-S test not of the form s > C: %s' % show(test))
            s0, c = test[2], test[3]
            if isinstance(c, float) or not isinstance(c, int):
                ctx.violate(q, 'half order in the low-S test is not an integer (%r); values of s between n//2 and that value stay high-S (fastecdsa=%s)' % (c, use_fast), e.node,
                            'float division rounds n/2 up to 2**255')
                continue
            bound = c if test[1] == '>' else c - 1
            if bound != half:
                ctx.violate(q, 'low-S threshold is %d away from n//2 (fastecdsa=%s)' % (bound - half, use_fast), e.node)
            strip = lambda t: t[1] if isinstance(t, tuple) and t[0] == 'int' else t
            ctx.require(hi_v == ('binop', '-', N, s0) or hi_v == ('binop', '-', N, strip(s0)) or hi_v == ('binop', '-', N, ('int', strip(s0))), q,
                        'replacement value is %s, expected n - s (fastecdsa=%s)' % (show(hi_v)[:120], use_fast), e.node)
            ctx.require(strip(lo_v) == strip(s0), q, 'value kept for low s is %s, expected s unchanged' % show(lo_v)[:120], e.node)


@PROP.obligation('C13.nonce', canaries=[
    mut.replace_expr('keys', 'Signature.create', 'RFC6979(txid, secret, secp256k1_n, hashlib.sha256)', 'RFC6979(txid, secp256k1_n, secp256k1_n, hashlib.sha256)', 'nonce: secret does not flow into RFC6979'),
    mut.replace_expr('keys', 'Signature.create', 'random.SystemRandom().randint(1, secp256k1_n - 1)', 'random.randint(1, secp256k1_n - 1)', 'nonce: non-cryptographic RNG'),
    mut.replace_expr('keys', 'Signature.create', 'RFC6979(txid, secret, secp256k1_n, hashlib.sha256)', "RFC6979('00', secret, secp256k1_n, hashlib.sha256)", 'nonce: message does not flow into RFC6979'),
    mut.replace_stmt('keys', 'Signature.create', 'if not k:', 'if not k:\n    k = rfc6979_warning_given', 'nonce: taken from a module-level cache'),
])
def nonce(ctx):
    """The nonce passed to the signer is the caller's k, RFC6979(digest being signed, the secret, n, sha256).gen_nonce()
    or random.SystemRandom().randint(1, n-1) — nothing else (no cache, no weaker RNG)."""
    for use_fast in (True, False):
        q, fn, rets = _create_exits(ctx, use_fast)
        for e in rets:
            rv = term(e.value)
            kw = dict(rv[3])
            k_t = kw.get('k')
            if k_t is None:
                ctx.undecided('Signature(...) is not given k')
            leaves = _cond_leaves(k_t)
            ctx.saw('backend fastecdsa=%s: nonce alternatives %s' % (use_fast, [show(l)[:90] for l in leaves]))
            digest = rv[2][2] if len(rv[2]) > 2 else kw.get('txid')
            secret = rv[2][3] if len(rv[2]) > 3 else kw.get('secret')
            for l in leaves:
                if l == ('var', 'k'):
                    continue
                if isinstance(l, tuple) and l[0] == 'mcall' and l[2] == 'gen_nonce' and isinstance(l[1], tuple) and l[1][:2] == ('call', 'RFC6979'):
                    a = l[1][2]
                    ok = len(a) == 4 and a[0] == digest and a[1] == secret and a[2] == N and a[3] == ('attr', ('global', 'hashlib'), 'sha256')
                    ctx.require(ok, q, 'RFC6979 nonce is derived from %s, expected (digest being signed, secret, n, sha256)' % show(l[1])[:160], e.node,
                                'a nonce that does not depend on both message and key can repeat across messages/keys and leaks the key')
                    continue
                if l == ('mcall', ('mcall', ('global', 'random'), 'SystemRandom', (), ()), 'randint', (1, N - 1), ()):
                    continue
                ctx.violate(q, 'nonce may come from %s' % show(l)[:160], e.node, 'only the explicit k, RFC6979 or the OS CSPRNG over [1, n-1] are acceptable nonce sources')
            if use_fast:
                ctx.require(any(isinstance(l, tuple) and l[0] == 'mcall' and l[2] == 'gen_nonce' for l in leaves), q,
                            'deterministic RFC6979 nonce is no longer the default with fastecdsa', e.node)


@PROP.obligation('C13.explicit-nonce', canaries=[
    mut.replace_expr('keys', 'Signature.create', 'not k', 'not k or not use_rfc6979', 'explicit nonce replaced by a random one when RFC6979 is switched off', nth=0),
])
def explicit_nonce(ctx):
    """An explicit nonce is used as given in every mode: on the control-flow graph of Signature.create no assignment to k is reachable
    on a path where the caller's k is set (the false edge of the `not k` test) - use_rfc6979 only chooses HOW a missing nonce is made."""
    from ..cfg import build_cfg
    q = 'keys:Signature.create'
    fn = ctx.repo.func(q)
    g = build_cfg(fn)
    asg = [n.id for n in g.nodes if n.kind == 'stmt' and isinstance(n.ast, (ast.Assign, ast.AugAssign)) and any(
        isinstance(x, ast.Name) and x.id == 'k' and isinstance(x.ctx, ast.Store) for x in ast.walk(n.ast))]
    tests = [n for n in g.nodes if n.kind == 'test' and n.ast is not None and norm(n.ast) in ('not k', 'k is None', 'k', 'k is not None')]
    if not asg or not tests:
        ctx.undecided('Signature.create: nonce generation (assignments to k under a test of k) not found')
    off = set()
    for t_ in tests:
        given_edge = g.false_edge(t_.id) if norm(t_.ast) in ('not k', 'k is None') else g.true_edge(t_.id)
        missing_edge = g.true_edge(t_.id) if norm(t_.ast) in ('not k', 'k is None') else g.false_edge(t_.id)
        off |= set(missing_edge)
    ctx.saw('Signature.create: %d assignment(s) to k, %d test(s) of k' % (len(asg), len(tests)))
    p = g.path_avoiding(asg, [], blocked_edges=off, skip_exc=True)
    if p is not None:
        ctx.violate(q, 'with an explicit k there is a path to `%s` (%s)' % (norm(g[p[-1]].ast)[:60], g.describe_path(p)[-60:]), g[p[-1]].ast,
                    'sign(z, key, use_rfc6979=False, k=K) signs with a random nonce: r is not x(K*G) mod n and two identical calls give different signatures')


def _cond_leaves(t):
    if isinstance(t, tuple) and t and t[0] == 'cond':
        return _cond_leaves(t[2]) + [x for x in _cond_leaves(t[3]) if x not in _cond_leaves(t[2])]
    return [t]


PROP.obligation('C13.range', canaries=[
    mut.cmpop('keys', 'Signature.__init__', 'self.s >= secp256k1_n', ast.Gt, 'Signature: s == n accepted'),
    mut.cmpop('keys', 'Signature.__init__', 'self.r < 1', ast.Lt, 'no-op placeholder', nth=99) if False else
    mut.const('keys', 'Signature.__init__', 1, 0, 'Signature: r == 0 accepted', nth=0),
    mut.replace_expr('keys', 'Signature.__init__', 'self.s < 1 or self.s >= secp256k1_n', 'self.s < 1', 'Signature: s upper bound dropped'),
])(sigrange)

PROP.obligation('C13.argorder', canaries=[
    mut.swap_args('keys', 'Signature.verify', 'verify', 3, 4, 'verify: Qx/Qy swapped'),
    mut.swap_args('keys', 'Signature.verify', 'verify', 0, 1, 'verify: r/s swapped'),
    mut.swap_args('keys', 'Signature.create', 'sign', 1, 2, 'sign: d/k swapped'),
    mut.swap_args('keys', 'Signature.create', 'sign', 7, 8, 'sign: Gx/Gy swapped'),
])(argorder)


PROP.obligation('C13.verify-args', canaries=[
    mut.replace_expr('keys', 'Signature.verify', 'txid is not None', 'txid is not None and (not self.txid)', 'verify: digest argument ignored when one is remembered'),
    mut.replace_expr('keys', 'Signature.verify', 'public_key is not None', 'public_key is not None and (not self.public_key)', 'verify: key argument ignored when one is remembered'),
])(verify_args)


@PROP.obligation('C13.parse', canaries=[
    mut.replace_expr('keys', 'Signature.parse_bytes', "len(signature) > 64 and signature.startswith(b'0')", "signature.startswith(b'0')", 'parse_bytes: 64-byte r||s starting with 0x30 treated as DER'),
    mut.replace_expr('keys', 'Signature.parse_bytes', 'signature[32:]', 'signature[:32]', 'parse_bytes: s read from the r half'),
])
def parse(ctx):
    """Signature.parse_bytes builds the object through Signature(r, s, ...) (so the range checks apply) with
    r = first 32 bytes, s = last 32 bytes, both big-endian, of the 64-byte form."""
    q = 'keys:Signature.parse_bytes'
    fn = ctx.repo.func(q)
    it = Interp(ctx.repo, 'keys', decide=fast(True))
    exits = it.run_function(fn, {'signature': S(('var', 'signature'), 'bytes')})
    rets = [e for e in exits if e.kind == 'return']
    if not rets:
        ctx.undecided('parse_bytes has no return')
    for e in rets:
        rv = term(e.value)
        if not (isinstance(rv, tuple) and rv[0] == 'call' and rv[1] == 'Signature'):
            ctx.violate(q, 'returns %s instead of constructing Signature(r, s, ...)' % show(rv)[:80], e.node)
            continue
        r_t, s_t = rv[2][0], rv[2][1]
        ctx.saw('parse_bytes: r=%s s=%s' % (show(r_t)[:90], show(s_t)[:90]))
        def is_half(t, lo, hi):
            return isinstance(t, tuple) and t[0] == 'bytes2int' and t[2] == 'big' and isinstance(t[1], tuple) and t[1][0] == 'slice' and t[1][2] == lo and t[1][3] == hi
        ctx.require(is_half(r_t, None, 32), q, 'r is %s, expected big-endian int of bytes [:32]' % show(r_t)[:100], e.node)
        ctx.require(is_half(s_t, 32, None), q, 's is %s, expected big-endian int of bytes [32:]' % show(s_t)[:100], e.node)
        if is_half(r_t, None, 32) and is_half(s_t, 32, None):
            ctx.require(r_t[1][1] == s_t[1][1], q, 'r and s are read from different buffers', e.node)
    ctx.require(any(x.kind == 'raise' and any(isinstance(t, tuple) and t[0] == 'cmp' and t[1] == '!=' and t[3] == 64 for t, pol in x.pc if pol) for x in exits), q,
                'no raise when the (r||s) form is not 64 bytes long', fn)
    # a 64-byte input is ALWAYS the compact r||s form, whatever its first byte
    sig = ('var', 'signature')
    starts = [s_ for e in exits for s_ in subterms(('w', term(e.value)) if e.value is not None else ('w',)) if isinstance(s_, tuple) and s_[0] == 'mcall' and s_[2] == 'startswith' and s_[1] == sig]
    sub = {('len', sig): 64}
    for st_ in set(starts):
        sub[st_] = True
    for e in rets:
        if not intv.exit_feasible(e, sub):
            continue
        rv = intv.specialise(term(e.value), sub)
        r_t = rv[2][0]
        ctx.saw('64-byte input starting with 0x30: r = %s' % show(r_t)[:80])
        ok = isinstance(r_t, tuple) and r_t[0] == 'bytes2int' and isinstance(r_t[1], tuple) and r_t[1][0] == 'slice' and r_t[1][1] == sig
        ctx.require(ok, q, 'a 64-byte signature whose first byte is 0x30 is not read as compact r||s (r = %s)' % show(r_t)[:100], e.node,
                    'about 1 in 256 valid compact signatures is rejected or misparsed as DER')


@PROP.obligation('C13.der', canaries=[
    mut.replace_expr('keys', 'Signature.as_der_encoded', 'der_encode_sig(self.r, self.s) + self.hash_type_byte', 'der_encode_sig(self.r, self.s) + self.hash_type_byte + self.hash_type_byte', 'DER: hash type appended twice'),
    mut.replace_expr('keys', 'Signature.as_der_encoded', 'der_encode_sig(self.r, self.s) + self.hash_type_byte', 'der_encode_sig(self.s, self.r) + self.hash_type_byte', 'DER: r/s swapped'),
])
def der(ctx):
    """Signature.create hands no pre-computed DER/raw signature to the constructor (so DER is built from the normalised
    (r, s)); as_der_encoded(include_hash_type) = der_encode_sig(self.r, self.s) . one hash-type byte;
    hash_type_byte = hash_type.to_bytes(1)."""
    for use_fast in (True, False):
        q, fn, rets = _create_exits(ctx, use_fast)
        for e in rets:
            rv = term(e.value)
            kw = dict(rv[3])
            ctx.saw('create(fastecdsa=%s) -> Signature kwargs %s' % (use_fast, sorted(kw)))
            for bad in ('der_signature', 'signature'):
                if kw.get(bad) is not None or len(rv[2]) > {'signature': 4, 'der_signature': 5}[bad]:
                    ctx.violate(q, 'Signature.create passes a pre-computed %s to the constructor' % bad, e.node,
                                'the stored encoding could disagree with the low-S normalised (r, s)')
    q = 'keys:Signature.as_der_encoded'
    fn = ctx.repo.func(q)
    der_rs = ('call', 'der_encode_sig', (('attr', SELF, 'r'), ('attr', SELF, 's')), ())
    htb = ('attr', SELF, 'hash_type_byte')
    for as_hex in (False,):
        for inc in (True, False):
            it = Interp(ctx.repo, 'keys', self_cls='keys:Signature', decide=fast(True))
            exits = it.run_function(fn, {'as_hex': as_hex, 'include_hash_type': inc})
            rets = [e for e in exits if e.kind == 'return']
            v = plus_to_cat(term(it.result_value(rets)))
            ctx.saw('as_der_encoded(include_hash_type=%s) -> %s' % (inc, show(v)[:200]))
            if inc:
                # cached value or recomputed value
                alts = _cond_leaves(v)
                cached = ('attr', SELF, '_der_encoded')
                for a in alts:
                    if a == cached:
                        continue
                    ctx.require(a == ('cat', (der_rs, htb)), q, 'DER with hash type is %s, expected der_encode_sig(r, s) . hash_type_byte' % show(a)[:160], fn)
                ctx.require(any(a == ('cat', (der_rs, htb)) for a in alts), q, 'no path recomputes der_encode_sig(r, s) . hash_type_byte', fn)
            else:
                ctx.require(v == der_rs, q, 'DER without hash type is %s, expected der_encode_sig(self.r, self.s)' % show(v)[:160], fn)
    q = 'keys:Signature.__init__'
    fn = ctx.repo.func(q)
    it = Interp(ctx.repo, 'keys', self_cls='keys:Signature', decide=fast(True))
    exits = it.run_function(fn, {'hash_type': S(('var', 'hash_type'), 'int')})
    last = [e for e in exits if e.kind == 'return'][-1]
    hb = term(last.heap.get(('attr', SELF, 'hash_type_byte')))
    ctx.saw('hash_type_byte = %s' % show(hb))
    ctx.require(isinstance(hb, tuple) and hb[0] == 'int2bytes' and hb[2] == 1 and hb[1] in (('var', 'hash_type'), ('attr', SELF, 'hash_type')), q,
                'hash_type_byte is %s, expected the one-byte hash type' % show(hb), fn)


@PROP.obligation('C13.oncurve', canaries=[
    mut.drop_stmt('keys', 'Signature.public_key.setter', 'if not fastecdsa_secp256k1.is_point_on_curve', 'public_key setter: curve test removed'),
    mut.replace_expr('keys', 'Signature.public_key.setter', '(self.x, self.y)', '(self.x, self.x)', 'public_key setter: tests the wrong point'),
])
def oncurve(ctx):
    """Signature.public_key setter (fastecdsa back end): storing the key is preceded on every path by a curve
    membership test of exactly the point (x, y) that verify() later uses, raising on failure."""
    q = 'keys:Signature.public_key.setter'
    fn = ctx.repo.func(q)
    it = Interp(ctx.repo, 'keys', self_cls='keys:Signature', decide=fast(True))
    exits = it.run_function(fn, {'value': S(('var', 'value'))})
    stored = [e for e in exits if e.kind == 'return' and ('attr', SELF, '_public_key') in (e.heap or {})]
    if not stored:
        ctx.undecided('public_key setter never stores the key')
    for e in stored:
        tests = [(t, pol) for (t, pol) in e.pc if isinstance(t, tuple) and any(isinstance(s, tuple) and s[0] == 'mcall' and s[2] == 'is_point_on_curve' for s in subterms(('w', t)))]
        ctx.saw('store of _public_key guarded by %s' % [(show(t)[:120], p) for t, p in tests])
        if not tests:
            ctx.violate(q, 'public key is stored without a curve-membership test', fn, 'a point off the curve makes the verifier accept forged signatures (invalid-curve)')
            continue
        x, y = term(e.heap.get(('attr', SELF, 'x'))), term(e.heap.get(('attr', SELF, 'y')))
        for t, pol in tests:
            mc = [s for s in subterms(('w', t)) if isinstance(s, tuple) and s[0] == 'mcall' and s[2] == 'is_point_on_curve'][0]
            arg = mc[3][0] if mc[3] else None
            ctx.require(arg == ('tuple', x, y), q, 'curve test is applied to %s, but verify() uses (self.x, self.y) = (%s, %s)' % (show(arg)[:80], show(x)[:40], show(y)[:40]), fn)
            truthy = (pol is True and t[0] != 'not') or (pol is False and t[0] == 'not')
            ctx.require(truthy, q, 'key is stored on the branch where the curve test FAILS', fn)


@PROP.obligation('C13.defaults')
def api_defaults(ctx):
    """Defaults of the parameters that decide this property for callers who do not pass them: deterministic RFC6979 nonces and SIGHASH_ALL are the defaults."""
    from .common_defaults import defaults as run
    n = run(ctx, [('keys:sign', 'use_rfc6979', 'True'), ('keys:Signature.create', 'use_rfc6979', 'True'), ('keys:sign', 'hash_type', 'SIGHASH_ALL'), ('keys:Signature.create', 'hash_type', 'SIGHASH_ALL'), ('keys:Signature.__init__', 'hash_type', 'SIGHASH_ALL')], 'signatures are no longer a deterministic function of key and message by default')
    ctx.floor(n, 4, 'parameter defaults')


@PROP.obligation('C13.der-delegated')
def der_delegated(ctx):
    """Strict DER (BIP66) of produced signatures is established by delegation: encoding.der_encode_sig hands r and s to the DER encoder of
    the ECDSA back end (fastecdsa DEREncoder.encode_signature, or ecdsa.der.encode_integer / encode_sequence) and returns its result
    unchanged. If the function stops doing that, this analysis cannot vouch for the encoding any more and answers exit 2 (it does not
    try to judge a hand-written encoder)."""
    q = 'encoding:der_encode_sig'
    fn = ctx.repo.func(q)
    calls = sorted(set(norm(c.func) for c in ast.walk(fn) if isinstance(c, ast.Call)))
    rets = [n for n in ast.walk(fn) if isinstance(n, ast.Return) and n.value is not None]
    ctx.saw('der_encode_sig calls %s' % calls)
    fast = [r for r in rets if norm(r.value) == 'DEREncoder.encode_signature(r, s)']
    slow = [r for r in rets if norm(r.value) == 'ecdsa.der.encode_sequence(rb, sb)']
    if not fast or not slow or len(rets) != 2:
        ctx.undecided('der_encode_sig no longer returns the result of the back end DER encoder (returns: %s): strict DER cannot be decided statically' % [norm(r.value)[:50] for r in rets])
    defs = {norm(n.targets[0]): norm(n.value) for n in ast.walk(fn) if isinstance(n, ast.Assign)}
    ctx.require(defs.get('rb') == 'ecdsa.der.encode_integer(r)' and defs.get('sb') == 'ecdsa.der.encode_integer(s)', q, 'r / s are not encoded by ecdsa.der.encode_integer: %s' % defs, fn)


@PROP.obligation('C13.attr-memos', canaries=[
    mut.replace_stmt('keys', 'Signature.as_der_encoded', 'self._der_encoded = der_encode_sig(self.r, self.s) + self.hash_type_byte', 'self._der_encoded = der_encode_sig(self.r, self.s)\nif include_hash_type:\n    self._der_encoded += self.hash_type_byte', 'cached DER form depends on the first caller'),
])
def attr_memos(ctx):
    """Attribute memos of Signature (the cached DER serialisation): the cached value depends on no argument of the filling method that the
    reuse test leaves unchecked, and every method that assigns state it was computed from resets it - otherwise the serialised
    signature depends on which accessor was called first."""
    from .common_cache import attr_memos as run
    n = run(ctx, 'keys', [['Signature']], 'Signature', 'the serialised signature (with / without the hash type byte) depends on which accessor ran first: the script carries a signature that fails BIP66 / hash-type parsing')
    ctx.floor(n, 1, 'attribute memos of Signature')


@PROP.obligation('C13.fixed-width')
def fixed_width_mods(ctx):
    """Every int.to_bytes of keys.py (r, s, secrets, nonces) uses a width that does not depend on the value."""
    from .common_width import fixed_width_modules as run
    run(ctx, ['keys'], 'r / s / k with leading zero bytes are serialised shorter: compact signatures and RFC6979 inputs change', 20)


@PROP.obligation('C13.digest-form', canaries=[
    mut.replace_stmt('keys', 'Signature.create', 'if isinstance(txid, bytes):', 'txid = to_bytes(txid).hex()', 'digest bytes pass through the hex-sniffing normaliser'),
    mut.replace_expr('keys', 'Signature.verify', 'to_hexstring(txid)', 'txid', 'digest string reaches the verifier unvalidated'),
    mut.replace_expr('keys', 'Signature.verify', 'to_hexstring(txid)', 'to_bytes(txid).hex()', 'digest bytes of the verifier pass through the hex-sniffing normaliser'),
])
def digest_form(ctx):
    """The message digest reaches the ECDSA back end as the hexadecimal text of exactly the bytes the caller gave. Signature.create: a
    bytes digest becomes txid.hex() - it does not pass through to_bytes / normalize_var, which reinterpret bytes that happen to spell
    hexadecimal text (b'deadbeef'*4 would be signed as 16 other bytes). Signature.verify: the digest argument is stored through
    to_hexstring (or .hex()), never as given - the C verifier reads a string that is not hexadecimal as the number 0, for which anyone
    can forge a signature."""
    q = 'keys:Signature.create'
    fn = ctx.repo.func(q)
    T = ('var', 'txid')
    stmts = []
    for s_ in fn.body:
        if isinstance(s_, ast.Expr) and isinstance(s_.value, ast.Constant):
            continue
        writes = any(isinstance(n, ast.Name) and n.id == 'txid' and isinstance(n.ctx, ast.Store) for n in ast.walk(s_))
        reads = any(isinstance(n, ast.Name) and n.id == 'txid' for n in ast.walk(s_))
        if writes:
            stmts.append(s_)
        elif reads:
            break
    if not stmts:
        ctx.undecided('Signature.create: normalisation of the digest argument not found')

    def decide(t):
        if isinstance(t, tuple) and t and t[0] == 'isinstance' and t[1] == T:
            return 'bytes' in repr(t[2])
        if isinstance(t, tuple) and t and t[0] == 'cmp' and any(isinstance(x, tuple) and x and x[0] == 'len' for x in t[2:4]):
            return False        # a 32-byte digest: not longer than 64 characters
        return None
    it = Interp(ctx.repo, 'keys', decide=decide)
    st = State(env={'txid': S(T, 'bytes')})
    it.frames.append([])
    try:
        for s_ in stmts:
            st = it.exec_stmt(s_, st)
    except AnalysisError as e:
        ctx.undecided('Signature.create: digest normalisation not evaluable: %s' % str(e)[:100])
    got = term(st.env.get('txid'))
    ctx.saw('Signature.create: a bytes digest becomes %s' % show(got)[:120])
    sniff = [x for x in subterms(('w', got)) if isinstance(x, tuple) and x[0] == 'call' and x[1] in ('to_bytes', 'normalize_var', 'to_hexstring', 'change_base')]
    if sniff:
        ctx.violate(q, 'a digest given as bytes passes through %s(...), which reinterprets bytes that spell hexadecimal text' % sniff[0][1], stmts[0],
                    'for a digest such as b"deadbeef" * 4 another value is signed: the produced signature does not verify for the digest the caller gave')
    elif (got[1] if isinstance(got, tuple) and len(got) >= 3 and got[0] == 'mcall' and got[2] in ('lower', 'upper') else got) not in (('mcall', T, 'hex', (), ()), ('hex', T)):
        ctx.unsure('%s: a bytes digest becomes %s' % (q, show(got)[:100]))
    q = 'keys:Signature.verify'
    fn = ctx.repo.func(q)
    asg = [n for n in ast.walk(fn) if isinstance(n, ast.Assign) and norm(n.targets[0]) == 'self.txid']
    if not asg:
        ctx.undecided('Signature.verify: the digest argument is not stored')
    for a in asg:
        v = a.value
        ctx.saw('Signature.verify: self.txid = %s' % norm(v))
        ok = isinstance(v, ast.Call) and (norm(v.func) == 'to_hexstring' or (isinstance(v.func, ast.Attribute) and v.func.attr == 'hex'))
        sniff = [c for c in ast.walk(v) if isinstance(c, ast.Call) and norm(c.func) in ('to_bytes', 'normalize_var') and not any(k.arg == 'unhexlify' and isinstance(k.value, ast.Constant) and k.value.value is False for k in c.keywords)]
        if sniff:
            ctx.violate(q, 'the digest argument is stored as `%s`: bytes pass through %s(...), which reads 32 bytes that spell hexadecimal text as the 16 bytes they spell' % (norm(v)[:60], norm(sniff[0].func)), a,
                        "verify(b'deadbeef' * 4, sig, key) answers for another digest than the one given: False for the valid triple, True for a signature over the spelled 16 bytes")
            continue
        if not ok and any(isinstance(n, ast.Name) and n.id == 'txid' for n in ast.walk(v)):
            ctx.violate(q, 'the digest argument is stored as `%s` without conversion to hexadecimal text' % norm(v), a,
                        'a digest string that is not plain hex ("0x..", a typo) reaches the C verifier, which reads it as 0: a signature forged for digest 0 (no private key needed) is accepted')


@PROP.obligation('C13.der-whole-input', canaries=[
    mut.replace_expr('encoding', 'convert_der_sig', 'bytes(signature)', 'bytes(signature)[:signature[1] + 2]', 'decoder is shown only the announced length of the sequence'),
    mut.replace_expr('encoding', 'convert_der_sig', "junk != b''", 'False', 'bytes after the sequence accepted by the pure-python decoder'),
])
def der_whole_input(ctx):
    """encoding.convert_der_sig - the DER decoder behind Signature.parse_bytes, keys.verify and OP_CHECKSIG - hands the decoder the WHOLE
    byte string it was given, on the fastecdsa path and on the pure-python path, and the latter raises when bytes follow the sequence.
    A decoder that is shown a prefix never sees surplus bytes: <DER(r,s)> junk <hashtype> would verify."""
    q = 'encoding:convert_der_sig'
    fn = ctx.repo.func(q)
    SIG = ('var', 'signature')
    n = 0
    for fast in (True, False):
        seen = []

        def obs(name, base, args, kwargs, st, node):
            if name in ('decode_signature', 'remove_sequence'):
                seen.append((name, [term(a) for a in args], node))

        def decide(t, fast=fast):
            if t == ('global', 'USE_FASTECDSA'):
                return fast
            if t == SIG or t == ('len', SIG):
                return True
            return None
        it = Interp(ctx.repo, 'encoding', decide=decide)
        it.consts = dict(it.consts)
        it.consts.pop('USE_FASTECDSA', None)
        it.obs_call = obs
        try:
            exits = it.run_function(fn, {'signature': S(SIG, 'bytes'), 'as_hex': True})
        except AnalysisError as e:
            ctx.undecided('convert_der_sig (%s path) not evaluable: %s' % ('fastecdsa' if fast else 'pure python', str(e)[:100]))
        want = 'decode_signature' if fast else 'remove_sequence'
        calls = [c for c in seen if c[0] == want]
        if len(calls) != 1:
            ctx.undecided('convert_der_sig (%s path): %d calls of %s' % ('fastecdsa' if fast else 'pure python', len(calls), want))
        arg = calls[0][1][0] if calls[0][1] else None
        n += 1
        ctx.saw('%s path: %s(%s)' % ('fastecdsa' if fast else 'pure python', want, show(arg)[:60]))
        ctx.require(arg in (SIG, ('bytes', SIG)), q, 'on the %s path the DER decoder is given `%s`, not the whole input' % ('fastecdsa' if fast else 'pure-python', show(arg)[:80]), calls[0][2],
                    'bytes between the end of the ASN.1 sequence and the hash-type byte are ignored: a malformed encoding of a valid (r, s) is accepted by the verifier')
        if not fast:
            junk_raise = [e for e in exits if e.kind == 'raise' and any('remove_sequence' in show(t) for t, _ in e.pc)]
            ok_ret = [e for e in exits if e.kind == 'return' and not any('remove_sequence' in show(t) for t, _ in e.pc)]
            ctx.require(bool(junk_raise) and not ok_ret, q, 'on the pure-python path no raise depends on the bytes that follow the sequence', fn,
                        'bytes after the ASN.1 sequence are ignored')
    ctx.floor(n, 2, 'decoder paths')


from . import c04 as _c04
PROP.obligation('C13.residue-compare', canaries=[
    mut.insert_before('keys', 'Key.public_uncompressed_hex', 'if self._y & 1 != sign:', "if pow(self._y, 2, secp256k1_p) != ys:\n    raise BKeyError('no point with this x coordinate')",
                      'verification raises for the public keys with y = 1 or y = p - 1'),
])(_c04.residue_compare)


@PROP.obligation('C13.hashtype-byte-stripped', canaries=[
    mut.replace_expr('keys', 'Signature.parse_bytes', 'convert_der_sig(signature[:-1], as_hex=False)',
                     'convert_der_sig(signature[:-1] if signature[-1] & ~0x80 in [1, 2, 3] else signature, as_hex=False)', 'the last byte is only stripped when it is a defined hash type'),
    mut.replace_expr('keys', 'Signature.parse_bytes', 'convert_der_sig(signature[:-1], as_hex=False)', 'convert_der_sig(signature[:-2], as_hex=False)', 'two bytes stripped'),
])
def hashtype_byte_stripped(ctx):
    """A DER signature in a script is <DER(r, s)> <one hash-type byte>, for EVERY value of that byte (consensus accepts any byte outside
    strict-encoding policy; the library's own signer emits whatever hash_type it is given). Signature.parse_bytes, evaluated on a DER
    input of more than 64 bytes, hands convert_der_sig exactly signature[:-1] whatever the last byte is - a decoder that sees the
    hash-type byte of 250 of the 256 values raises instead of giving the ECDSA verdict."""
    q = 'keys:Signature.parse_bytes'
    fn = ctx.repo.func(q)
    SIG = ('var', 'signature')
    seen = []

    def h(it, a, kw, st, node):
        seen.append((term(a[0]) if a else None, node))
        return S(('var', 'rs'), 'bytes')

    def decide(t):
        if show(t) == '(len(signature) > 64)':
            return True
        return None
    it = Interp(ctx.repo, 'keys', hooks={'convert_der_sig': h}, decide=decide)
    try:
        it.run_function(fn, {'signature': S(SIG, 'bytes'), 'public_key': None})
    except AnalysisError as e:
        ctx.undecided('Signature.parse_bytes not evaluable: %s' % str(e)[:100])
    if not seen:
        ctx.undecided('Signature.parse_bytes: convert_der_sig is not reached for a DER input of more than 64 bytes')
    for arg, node in seen:
        ctx.saw('DER input: convert_der_sig(%s)' % show(arg)[:80])
        ctx.require(arg == ('slice', SIG, None, -1) or show(arg) == 'signature[:-1]', q, 'the DER decoder is given `%s`, expected signature[:-1] for every value of the last byte' % show(arg)[:90], node,
                    'sign(z, k, hash_type=0x41).as_der_encoded() - and every signature whose last byte is not 01/02/03/81/82/83 - makes verify() raise instead of returning the ECDSA verdict')


@PROP.obligation('C13.nonce-one-spelling', canaries=[
    mut.drop_stmt('keys', 'Signature.create', 'txid = txid.lower()', 'the nonce is derived from the digest text as the caller spelled it'),
])
def nonce_one_spelling(ctx):
    """"A deterministic function of key and message": RFC6979 is fed the hex TEXT of the digest, and a digest has two spellings as text
    (a1.. / A1..). Signature.create, evaluated for a digest given as str, hands RFC6979 a case-normalised text (x.lower() / .upper(), the
    hex of bytes) on every path - never the caller's string itself, for which sign(z.upper(), key) != sign(z, key)."""
    q, fn, rets = _create_exits(ctx, True)
    TX = ('var', 'txid')
    n = 0

    def canonical(t):
        if isinstance(t, tuple) and t and t[0] == 'mcall' and t[2] in ('lower', 'upper'):
            return True
        if isinstance(t, tuple) and t and t[0] == 'cond':
            return canonical(t[2]) and canonical(t[3])
        if isinstance(t, tuple) and t and t[0] in ('hex', 'hash'):
            return True
        if isinstance(t, tuple) and t and t[0] in ('call', 'mcall') and t[0 + (1 if t[0] == 'call' else 2)] in ('double_sha256', 'hex'):
            return True
        return False
    for e in rets:
        for s_ in subterms(('w', term(e.value))):
            if isinstance(s_, tuple) and len(s_) >= 3 and s_[0] == 'call' and s_[1] == 'RFC6979' and s_[2]:
                n += 1
                arg = s_[2][0]
                ctx.saw('RFC6979(%s, ...)' % show(arg)[:100])
                ctx.require(canonical(arg), q, 'the RFC6979 nonce is derived from `%s`: the digest text as spelled by the caller' % show(arg)[:100], e.node or fn,
                            'sign(z.upper(), key) and sign(z, key) are two different signatures of the same message under the same key')
    ctx.floor(n, 1, 'RFC6979 nonce derivations')
