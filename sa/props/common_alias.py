"""Shared obligation: no in-place mutation of a module-level mutable constant through a local alias (engine sa/alias.py)."""
import ast
import os

from ..core import AnalysisError, VERIF_DIR
from .. import alias


def _selftest(ctx):
    src = open(os.path.join(VERIF_DIR, 'fixtures', 'alias_consts.py')).read()
    tree = ast.parse(src)
    consts = alias.mutable_constants(tree)
    res = {f.name: bool(alias.scan_function(f, consts)) for f in tree.body if isinstance(f, ast.FunctionDef)}
    if res != {'bad_aug': True, 'bad_method': True, 'good_copy': False, 'good_rebind': False}:
        raise AnalysisError('ALIAS fixtures classified %s' % res)
    ctx.saw('alias self-test on fixtures: %s' % res)


def shared_constants(ctx, modules, why):
    _selftest(ctx)
    allconsts = {mn: alias.mutable_constants(m.tree) for mn, m in ctx.repo.modules.items()}
    n_fn = 0
    for mn in modules:
        m = ctx.repo.mod(mn)
        imported = [n for n, (tgt, orig) in m.imports.items() if tgt in allconsts and orig in allconsts[tgt]]
        for s in m.star_imports:
            imported += list(allconsts.get(s, {}))
        for q, f in sorted(m.functions.items()):
            n_fn += 1
            for a, c, node, desc in alias.scan_function(f, allconsts[mn], imported):
                ctx.violate('%s:%s' % (mn, q), 'the module-level constant %s is changed in place through %s (%s)' % (c, 'the alias `%s`' % a if a != c else 'its own name', desc), node, why)
    ctx.saw('%d functions of %s checked against %d module-level mutable constants' % (n_fn, ', '.join(modules), sum(len(v) for v in allconsts.values())))
