"""Shared obligation: the state a class's conversion methods read is written by the constructor only (effect analysis over self.<attr>)."""
import ast

from ..core import AnalysisError, norm

MUTATORS = {'append', 'extend', 'insert', 'pop', 'remove', 'clear', 'sort', 'reverse', 'update', 'setdefault', 'popitem', 'add', 'discard'}

_FIXTURE = '''
class Table:
    def __init__(self, name):
        self._name = name
        self._rows = load(name)

    def lookup(self, i):
        return self._rows[i]

    def check_bad(self, sentence):
        name, rows = detect(sentence)
        if name != self._name:
            self._name, self._rows = name, rows
        return sentence

    def check_bad2(self, sentence):
        self._rows.extend(sentence)

    def check_good(self, sentence):
        rows = self._rows
        if detect(sentence) != self._name:
            rows = load(detect(sentence))
        return [rows.index(w) for w in sentence]
'''


def _self_attr(n):
    return n.attr if isinstance(n, ast.Attribute) and isinstance(n.value, ast.Name) and n.value.id == 'self' else None


def _flatten(t):
    if isinstance(t, (ast.Tuple, ast.List)):
        for e in t.elts:
            yield from _flatten(e)
    elif isinstance(t, ast.Starred):
        yield from _flatten(t.value)
    else:
        yield t


def state_writes(fn):
    """(attr, node, how) for every way ``fn`` changes self.<attr>: (tuple) assignment, augmented assignment, item / slice store, del,
    setattr(self, ...), a mutating container method"""
    out = []
    for n in ast.walk(fn):
        targets = []
        if isinstance(n, ast.Assign):
            targets = [x for t in n.targets for x in _flatten(t)]
        elif isinstance(n, (ast.AugAssign, ast.AnnAssign)):
            targets = [n.target]
        elif isinstance(n, ast.Delete):
            targets = list(n.targets)
        elif isinstance(n, (ast.For, ast.AsyncFor)):
            targets = list(_flatten(n.target))
        elif isinstance(n, ast.With):
            targets = [x for it in n.items if it.optional_vars is not None for x in _flatten(it.optional_vars)]
        for t in targets:
            a = _self_attr(t)
            if a:
                out.append((a, n, 'assigns'))
            elif isinstance(t, ast.Subscript) and _self_attr(t.value):
                out.append((_self_attr(t.value), n, 'stores into'))
        if isinstance(n, ast.Call):
            if isinstance(n.func, ast.Name) and n.func.id in ('setattr', 'delattr') and n.args and isinstance(n.args[0], ast.Name) and n.args[0].id == 'self':
                a = n.args[1].value if len(n.args) > 1 and isinstance(n.args[1], ast.Constant) else '*'
                out.append((a, n, 'setattr on'))
            if isinstance(n.func, ast.Attribute) and n.func.attr in MUTATORS and _self_attr(n.func.value):
                out.append((_self_attr(n.func.value), n, 'calls .%s() on' % n.func.attr))
            if isinstance(n.func, ast.Attribute) and n.func.attr == 'update' and isinstance(n.func.value, ast.Attribute) and n.func.value.attr == '__dict__':
                out.append(('*', n, 'updates __dict__ of'))
    return out


def _class_scan(cls, readers):
    methods = {f.name: f for f in cls.body if isinstance(f, ast.FunctionDef)}
    read = set()
    for name in readers:
        if name not in methods:
            raise AnalysisError('anchor method %s.%s vanished' % (cls.name, name))
        for n in ast.walk(methods[name]):
            a = _self_attr(n)
            if a and isinstance(n.ctx, ast.Load) and a not in methods:
                read.add(a)
    found = []
    for name, f in sorted(methods.items()):
        if name in ('__init__', '__new__'):
            continue
        for a, node, how in state_writes(f):
            if a in read or a == '*':
                found.append((name, a, node, how))
    return read, found, methods


def _selftest(ctx):
    cls = ast.parse(_FIXTURE).body[0]
    read, found, _ = _class_scan(cls, ['lookup'])
    got = sorted((m, a) for m, a, _, _ in found)
    if got != [('check_bad', '_rows'), ('check_bad2', '_rows')]:
        raise AnalysisError('constructor-only-state fixture classified %s' % got)
    ctx.saw('constructor-only-state self-test on the embedded fixture: %s' % got)


def constructor_only_state(ctx, modname, clsname, readers, why):
    _selftest(ctx)
    m = ctx.repo.mod(modname)
    if clsname not in m.classes:
        raise AnalysisError('anchor class %s:%s vanished' % (modname, clsname))
    read, found, methods = _class_scan(m.classes[clsname], readers)
    ctx.saw('%s.%s read self.%s; %d other methods scanned for writes to that state' % (clsname, '/'.join(readers), sorted(read), len(methods) - 1))
    if not read:
        ctx.undecided('%s: the conversion methods %s read no object state' % (clsname, readers))
    for name, a, node, how in found:
        ctx.violate('%s:%s.%s' % (modname, clsname, name), '%s.%s %s self.%s (`%s`), which %s read; only the constructor sets it' % (clsname, name, how, a, norm(node)[:80], ' / '.join(readers)), node, why)
    return len(read)


_SHARED_FIXTURE = """
class Table:
    _index = {}
    _names = []
    LIMIT = 5

    def __init__(self, name):
        self._rows = load(name)

    def bad(self, w):
        if not self._index:
            self._index.update((x, i) for i, x in enumerate(self._rows))
        return self._index[w]

    def bad2(self, w):
        self._names.append(w)

    def good(self, w):
        if not self._index:
            self._index = dict((x, i) for i, x in enumerate(self._rows))
        return self._index[w]
"""


def _mutable_literal(v):
    return isinstance(v, (ast.Dict, ast.List, ast.Set)) or (isinstance(v, ast.Call) and isinstance(v.func, ast.Name) and v.func.id in ('dict', 'list', 'set', 'defaultdict', 'OrderedDict') )


def class_shared_mutations(cls):
    """[(method, attribute, node)]: a mutable container defined in the CLASS body (one object for all instances) is changed in place through
    self / cls / the class name by a method that does not first give the instance its own container"""
    shared = set()
    for st in cls.body:
        if isinstance(st, ast.Assign) and _mutable_literal(st.value):
            for t in st.targets:
                if isinstance(t, ast.Name):
                    shared.add(t.id)
    out = []
    if not shared:
        return shared, out
    for f in cls.body:
        if not isinstance(f, ast.FunctionDef):
            continue
        own = set()
        for a in ast.walk(f):
            if isinstance(a, ast.Assign):
                for t in a.targets:
                    if isinstance(t, ast.Attribute) and isinstance(t.value, ast.Name) and t.value.id == 'self' and t.attr in shared:
                        own.add(t.attr)
        for n in ast.walk(f):
            base = None
            if isinstance(n, ast.Call) and isinstance(n.func, ast.Attribute) and n.func.attr in MUTATORS:
                base = n.func.value
            elif isinstance(n, (ast.Assign, ast.AugAssign)):
                for t in (n.targets if isinstance(n, ast.Assign) else [n.target]):
                    if isinstance(t, ast.Subscript):
                        base = t.value
                    elif isinstance(n, ast.AugAssign) and isinstance(t, ast.Attribute):
                        base = t
            if isinstance(base, ast.Attribute) and isinstance(base.value, ast.Name) and base.value.id in ('self', 'cls', cls.name) and base.attr in shared and base.attr not in own:
                out.append((f.name, base.attr, n))
    return shared, out


def class_shared_state(ctx, modname, clsname, why):
    fx = ast.parse(_SHARED_FIXTURE).body[0]
    _, found = class_shared_mutations(fx)
    got = sorted((m, a) for m, a, _ in found)
    if got != [('bad', '_index'), ('bad2', '_names')]:
        raise AnalysisError('class-shared-state fixture classified %s' % got)
    ctx.saw('class-shared-state self-test on the embedded fixture: %s' % got)
    m = ctx.repo.mod(modname)
    if clsname not in m.classes:
        raise AnalysisError('anchor class %s:%s vanished' % (modname, clsname))
    shared, found = class_shared_mutations(m.classes[clsname])
    ctx.saw('%s: mutable containers defined in the class body: %s' % (clsname, sorted(shared)))
    for meth, attr, node in found:
        ctx.violate('%s:%s.%s' % (modname, clsname, meth), '%s.%s changes the CLASS-level container %s in place (`%s`): every %s object of the process shares it' % (clsname, meth, attr, norm(node)[:70], clsname), node, why)
    return len(shared)
