"""C17 Amount conversion — rounding, denominator table, unit parsing, integer discipline of outputs, formatting precision."""
import ast
from fractions import Fraction

from ..core import Property, AnalysisError, unparse, norm, walk_no_nested, fold, NotConst
from ..sym import Interp, S, term, show, subterms, State
from ..cfg import build_cfg
from ..dfa import ReachingDefs
from .. import mut

PROP = Property(
    'C17', 'Amount conversion: nearest-unit rounding, case-exact denominator table, units that are not recognised are refused, outputs hold integers, formatting keeps every digit',
    'Static, structural clauses only: (1) Value.value_sat rounds to the nearest unit (no truncation); (2) the denominator symbols are matched '
    'case-exactly (the table distinguishes m / M) and no symbol is shadowed by an earlier prefix; (3) the unit token is split off at any run of '
    'white space and a unit that matches neither a currency code nor a denominator raises instead of being read as whole coins; (4) every path '
    'of value_to_satoshi yields an integer, Transaction.add_output truncates only after an exact integrality test, Transaction.raw refuses '
    'negative outputs; (5) the number of decimals Value.str prints is evaluated over the whole denominator table against the digits needed to '
    'represent one smallest unit. The arithmetic exactness of the float computation for all amounts up to 21e14 is NOT decided here (numerical '
    'property of IEEE doubles, outside static reach).',
    ['IEEE-754 double arithmetic of float(value) * denominator / network.denominator is within 0.5 unit for amounts up to the total supply (not checked)'])

SELF = ('var', 'self')
A = lambda b, n: ('attr', b, n)


def _table(ctx):
    # keys of the literal are floats / ints: keep their source text for exact arithmetic
    tree = ctx.repo.mod('config.config').tree
    for n in tree.body:
        if isinstance(n, ast.Assign) and isinstance(n.targets[0], ast.Name) and n.targets[0].id == 'NETWORK_DENOMINATORS' and isinstance(n.value, ast.Dict):
            out = []
            for k, v in zip(n.value.keys, n.value.values):
                if not (isinstance(k, ast.Constant) and isinstance(v, ast.Constant) and isinstance(v.value, str)):
                    ctx.undecided('NETWORK_DENOMINATORS is not a literal table')
                out.append((Fraction(ast.unparse(k)), v.value))
            return out
    ctx.undecided('NETWORK_DENOMINATORS not found')


@PROP.obligation('C17.sat-rounding', canaries=[
    mut.replace_expr('values', 'Value.value_sat', 'round(self.value / self.network.denominator)', 'int(self.value / self.network.denominator)', 'smallest-unit amount truncated'),
])
def sat_rounding(ctx):
    """Value.value_sat = round(self.value / self.network.denominator): rounding to the NEAREST integer, no truncation (0.29 BTC is
    28999999.999999996 units in floating point)."""
    q = 'values:Value.value_sat'
    fn = ctx.repo.func(q)
    rets = [n for n in walk_no_nested(fn) if isinstance(n, ast.Return)]
    if len(rets) != 1:
        ctx.undecided('Value.value_sat: expected a single return')
    v = rets[0].value
    while isinstance(v, ast.Call) and unparse(v.func) == 'int' and len(v.args) == 1 and isinstance(v.args[0], ast.Call) and unparse(v.args[0].func) == 'round':
        v = v.args[0]
    ctx.saw('value_sat returns %s' % norm(rets[0].value))
    if isinstance(v, ast.Call) and unparse(v.func) == 'round' and len(v.args) == 1 and not v.keywords:
        inner = v.args[0]
        ok = isinstance(inner, ast.BinOp) and isinstance(inner.op, ast.Div) and unparse(inner.left) == 'self.value' and unparse(inner.right) == 'self.network.denominator'
        if not ok:
            ctx.undecided('value_sat rounds an expression outside the model: %s' % norm(inner))
        return
    if (isinstance(v, ast.Call) and unparse(v.func) in ('int', 'math.floor', 'math.trunc', 'floor', 'trunc')) or (isinstance(v, ast.BinOp) and isinstance(v.op, ast.FloorDiv)):
        ctx.violate(q, 'the smallest-unit amount is computed by truncation: %s' % norm(rets[0].value), rets[0], 'amounts whose float quotient lies just below an integer are one unit short')
        return
    ctx.undecided('value_sat: conversion idiom not recognised: %s' % norm(rets[0].value))


@PROP.obligation('C17.from-satoshi-exact', canaries=[
    mut.replace_expr('values', 'Value.from_satoshi', 'cls(value or 0, network.denominator, network)', 'cls(round((value or 0) * (network.denominator / denominator), 8), denominator, network)', 'from_satoshi rounds to 8 decimals of the requested unit'),
    mut.replace_expr('values', 'Value.from_satoshi', 'cls(value or 0, network.denominator, network)', 'cls(int((value or 0) * (network.denominator / denominator)), denominator, network)', 'from_satoshi truncates to whole units'),
])
def from_satoshi_exact(ctx):
    """Value.from_satoshi(n, unit) expresses n smallest units in the requested unit: the amount that reaches the constructor derives from
    n and is not rounded or truncated in that unit. A round() whose digit count does not depend on the unit (8 decimals = satoshi
    precision of the COIN) is coarser than one satoshi for every unit above one coin (1e-8 kBTC = 1000 sat)."""
    q = 'values:Value.from_satoshi'
    fn = ctx.repo.func(q)
    ctor = [c for c in ast.walk(fn) if isinstance(c, ast.Call) and norm(c.func) == 'cls' and c.args]
    if not ctor:
        ctx.undecided('from_satoshi: construction of the result not found')
    for c in ctor:
        ctx.saw('result built by %s' % norm(c)[:100])
        ctx.require(any(isinstance(x, ast.Name) and x.id == 'value' for x in ast.walk(c.args[0])), q, 'the amount handed to the constructor (`%s`) does not derive from the satoshi amount' % norm(c.args[0])[:60], c)
    for c in ast.walk(fn):
        if not isinstance(c, ast.Call):
            continue
        name = norm(c.func)
        if name not in ('round', 'int', 'math.floor', 'math.trunc', 'math.ceil', 'floor', 'trunc', 'ceil') or not c.args:
            continue
        if not any(isinstance(x, ast.Name) and x.id == 'value' for x in ast.walk(c.args[0])):
            continue
        digits = c.args[1] if len(c.args) > 1 else None
        unit_aware = digits is not None and any(isinstance(x, ast.Name) and x.id == 'denominator' for x in ast.walk(digits))
        if not unit_aware:
            ctx.violate(q, 'the converted amount is passed through `%s`: the precision (%s) is fixed in units of the REQUESTED denominator' % (norm(c)[:100], norm(digits) if digits is not None else 'whole units'), c,
                        'for units above one coin (da, h, k, M ...) the last digits of the satoshi amount are lost: from_satoshi(123456789, "k").value_sat != 123456789')
        else:
            ctx.unsure('%s: converted amount rounded with a unit-dependent precision `%s`' % (q, norm(digits)))


CASEFOLD = {'lower', 'upper', 'casefold', 'swapcase', 'capitalize', 'title'}


@PROP.obligation('C17.denominator-table', canaries=[
    mut.replace_expr('values', 'Value.__init__', 'cur_code[:len(symb)] == symb', 'cur_code[:len(symb)].lower() == symb.lower()', 'denominator prefix matched case-insensitively'),
])
def denominator_table(ctx):
    """NETWORK_DENOMINATORS: keys are powers of ten, the smallest unit 1e-8 is present, symbols are unique. The table distinguishes symbols by
    case only (m = milli, M = mega), so every comparison of a denominator symbol in values.py must be case-exact: no lower / upper /
    casefold on either side of a comparison that involves a symbol of the table."""
    tab = _table(ctx)
    ctx.floor(len(tab), 15, 'denominators')
    syms = [s for _, s in tab]
    ctx.require(len(set(syms)) == len(syms), 'config.config:NETWORK_DENOMINATORS', 'a denominator symbol is listed twice', None)
    for k, s in tab:
        f = k
        p = 0
        while f > 1 and p < 40:
            f /= 10
            p += 1
        while f < 1 and p > -40:
            f *= 10
            p -= 1
        ctx.require(f == 1, 'config.config:NETWORK_DENOMINATORS', 'denominator %s (%s) is not a power of ten' % (k, s), None)
    ctx.require(dict((s, k) for k, s in tab).get('sat') == Fraction(1, 10 ** 8) and dict((s, k) for k, s in tab).get('') == 1, 'config.config:NETWORK_DENOMINATORS', 'sat is not 1e-8 or the unit denominator is missing', None)
    fold_coll = sorted(set((a, b) for a in syms for b in syms if a < b and a.lower() == b.lower()))
    ctx.saw('%d denominators; symbols that differ by case only: %s' % (len(tab), fold_coll))
    if not fold_coll:
        return
    n = 0
    for q in ('values:Value.__init__', 'values:Value.from_satoshi', 'values:Value.str'):
        fn = ctx.repo.func(q)
        # names bound to symbols of the table: loop / comprehension targets over NETWORK_DENOMINATORS.items()
        symnames = set()
        for node in ast.walk(fn):
            it = None
            if isinstance(node, (ast.For, ast.comprehension)):
                it = node.iter
                tgt = node.target
                if isinstance(it, ast.Call) and unparse(it.func) == 'NETWORK_DENOMINATORS.items' and isinstance(tgt, ast.Tuple) and len(tgt.elts) == 2 and isinstance(tgt.elts[1], ast.Name):
                    symnames.add(tgt.elts[1].id)
        for cmp_ in [c for c in ast.walk(fn) if isinstance(c, ast.Compare)]:
            names = set(x.id for x in ast.walk(cmp_) if isinstance(x, ast.Name))
            if not (names & symnames):
                continue
            n += 1
            folds = [c for c in ast.walk(cmp_) if isinstance(c, ast.Call) and isinstance(c.func, ast.Attribute) and c.func.attr in CASEFOLD]
            if folds:
                ctx.violate(q, 'denominator symbol compared after case folding (`%s`): the table distinguishes %s by case only' % (norm(cmp_), fold_coll), cmp_,
                            "'2 MBTC' (mega) is read as milli: the amount is 10^9 times too small")
    ctx.saw('%d comparisons of denominator symbols, all case-exact' % n)
    ctx.floor(n, 4, 'symbol comparisons')


@PROP.obligation('C17.prefix-order')
def prefix_order(ctx):
    """Value.__init__ takes the FIRST table symbol that is a prefix of the unit: a symbol must not be preceded in table order by one of its
    own proper prefixes, or it can never be parsed."""
    tab = _table(ctx)
    fn = ctx.repo.func('values:Value.__init__')
    loops = [n for n in ast.walk(fn) if isinstance(n, ast.For) and 'NETWORK_DENOMINATORS.items()' in unparse(n.iter)]
    if len(loops) != 1:
        ctx.undecided('Value.__init__: loop over the denominators not found')
    it_src = norm(loops[0].iter)
    if it_src == 'NETWORK_DENOMINATORS.items()':
        order = 'table order'
    elif it_src in ('sorted(NETWORK_DENOMINATORS.items(), key=lambda x: -len(x[1]))', 'sorted(NETWORK_DENOMINATORS.items(), key=lambda x: len(x[1]), reverse=True)'):
        order = 'longest symbol first'
        tab = sorted(tab, key=lambda x: -len(x[1]))
    else:
        ctx.undecided('Value.__init__: iteration order of the denominators not recognised: %s' % it_src)
    ctx.saw('denominators are tried in %s' % order)
    first_wins = any(isinstance(s, ast.Break) for s in ast.walk(loops[0]))
    test = [n for n in loops[0].body if isinstance(n, ast.If)]
    if not test or 'cur_code[:len(symb)] == symb' not in norm(test[0].test):
        ctx.undecided('Value.__init__: prefix test of the denominators loop not recognised: %s' % (norm(test[0].test) if test else '-'))
    ctx.saw('first matching prefix wins: %s' % first_wins)
    syms = [s for _, s in tab]
    shadowed = [(a, b) for i, b in enumerate(syms) for a in syms[:i] if a and b.startswith(a) and a != b]
    ctx.saw('symbols preceded by one of their proper prefixes: %s' % shadowed)
    if first_wins and shadowed:
        ctx.violate('values:Value.__init__', 'denominator symbols %s can never be parsed: an earlier symbol of the table is a prefix of them' % sorted(set(b for _, b in shadowed)), loops[0],
                    "Value('5 daBTC'), the text Value.str('da') prints, raises instead of parsing")


@PROP.obligation('C17.unit-parse', canaries=[
    mut.replace_expr('values', 'Value.__init__', 'value.split()', "value.split(' ')", 'unit split at single blanks only'),
    mut.drop_stmt('values', 'Value.__init__', "raise ValueError('Currency symbol or denominator not recognised')", 'unknown units read as whole coins'),
    mut.replace_stmt('values', 'Value.__init__', 'den_input = 1', 'den_input = den_arg or 1', 'denominator argument rescales strings without prefix', nth=0),
])
def unit_parse(ctx):
    """Value.__init__ on strings: number and unit are separated at any run of white space (str.split() without argument), and when a unit is
    present that is neither a currency code nor <denominator prefix><currency code> the constructor raises: it is never silently read as
    whole coins of the default network."""
    q = 'values:Value.__init__'
    fn = ctx.repo.func(q)
    toks = [c for c in ast.walk(fn) if isinstance(c, ast.Call) and ((isinstance(c.func, ast.Attribute) and c.func.attr in ('split', 'rsplit', 'partition', 'rpartition', 'splitlines')
                                                                    and any(isinstance(x, ast.Name) and x.id == 'value' for x in ast.walk(c.func.value)))
                                                                   or (unparse(c.func) in ('re.split', 're.match', 're.fullmatch', 're.findall') and any(isinstance(x, ast.Name) and x.id == 'value' for a in c.args for x in ast.walk(a))))]
    if not toks:
        ctx.undecided('Value.__init__: tokenising of the amount string not found')
    for v in toks:
        ctx.saw('tokeniser: %s' % norm(v))
        if isinstance(v.func, ast.Attribute) and v.func.attr == 'split' and not v.args and not v.keywords:
            continue
        if unparse(v.func) == 're.split' and v.args and isinstance(v.args[0], ast.Constant) and v.args[0].value in (r'\s+',):
            continue
        if isinstance(v.func, ast.Attribute) and v.func.attr in ('split', 'rsplit', 'partition', 'rpartition') and v.args and isinstance(v.args[0], ast.Constant):
            ctx.violate(q, 'number and unit are separated by `%s`: two blanks or a tab between them leave the unit unrecognised' % norm(v), v,
                        "'100  sat' is not read as 100 satoshi")
            continue
        ctx.undecided('Value.__init__: tokeniser idiom not recognised: %s' % norm(v))
    # unknown unit: evaluate the branch with table look-ups that find nothing
    blk = [n for n in ast.walk(fn) if isinstance(n, ast.If) and norm(n.test) == 'isinstance(value, str)']
    if not blk:
        ctx.undecided('Value.__init__: string branch not found')
    it = Interp(ctx.repo, 'values', self_cls='values:Value')
    it.consts = dict(it.consts)
    it.consts['NETWORK_DEFINITIONS'] = {'bitcoin': {'currency_code': 'BTC'}}
    it.consts['NETWORK_DENOMINATORS'] = {0.001: 'm', 1: '', 1000: 'k'}
    outcomes = {}
    for unit in ('xyz', 'bits', 'BTC', 'mBTC', 'kBTC', 'mxyz', None):
        st = State(env={'self': S(SELF), 'value': '5' if unit is None else '5 ' + unit, 'den_arg': None, 'network': 'bitcoin'})
        st.heap[('attr', ('attr', SELF, 'network'), 'currency_code')] = 'BTC'
        it.frames.append([])
        try:
            end = it.exec_block(blk[0].body, st)
        except AnalysisError as e:
            ctx.undecided('Value.__init__: string branch not evaluable for unit %s: %s' % (unit, str(e)[:100]))
        raises = [e for e in it.frames[-1] if e.kind == 'raise']
        it.frames.pop()
        if end is None:
            outcomes[unit] = 'raise'
        else:
            v = end.heap.get(('attr', SELF, 'value'))
            outcomes[unit] = v if isinstance(v, (int, float)) else show(term(v))[:60]
    ctx.saw('amount "5 <unit>" with a table of m / k and currency BTC -> %s' % outcomes)
    exp = {'BTC': 5.0, 'mBTC': 0.005, 'kBTC': 5000.0, None: 5.0, 'mxyz': 'raise'}
    for u, e in exp.items():
        ctx.require(outcomes[u] == e, q, "Value('5%s') is %s, expected %s" % ('' if u is None else ' ' + u, outcomes[u], e), blk[0])
    # the denominator ARGUMENT only selects the unit the amount is presented in: it never rescales what the string says
    for unit, den_arg in (('BTC', 0.001), (None, 0.001), ('BTC', 1000), ('mBTC', 1000), ('mBTC', 0.001)):
        st = State(env={'self': S(SELF), 'value': '5' if unit is None else '5 ' + unit, 'den_arg': den_arg, 'network': 'bitcoin'})
        st.heap[('attr', ('attr', SELF, 'network'), 'currency_code')] = 'BTC'
        it.frames.append([])
        try:
            end = it.exec_block(blk[0].body, st)
        except AnalysisError as e:
            ctx.undecided('Value.__init__: string branch not evaluable for unit %s with a denominator argument: %s' % (unit, str(e)[:100]))
        it.frames.pop()
        got = None if end is None else (end.heap.get(('attr', SELF, 'value')), end.heap.get(('attr', SELF, 'denominator')))
        want = ({'BTC': 5.0, None: 5.0, 'mBTC': 0.005}[unit], den_arg)
        ctx.saw("Value('5%s', denominator=%s) -> value %s, presented in %s" % ('' if unit is None else ' ' + unit, den_arg, got and got[0], got and got[1]))
        ctx.require(got == want, q, "Value('5%s', denominator=%s) holds %s coins presented in %s, expected %s coins presented in %s" % (
            '' if unit is None else ' ' + unit, den_arg, got and got[0], got and got[1], want[0], want[1]), blk[0],
            "the presentation unit rescales the amount: Value('5 BTC', 'm') is 0.005 BTC and reaches transaction outputs as 500000 instead of 500000000 satoshi")
    # prefix and currency code are separated by LENGTH: the code that follows a prefix may start with the prefix's own letters (sat + tBTC)
    it2 = Interp(ctx.repo, 'values', self_cls='values:Value', hooks={'Network': lambda it_, a, kw, st_, node: S(('net', term(a[0]) if a else None))})
    it2.consts = dict(it2.consts)
    it2.consts['NETWORK_DEFINITIONS'] = {'bitcoin': {'currency_code': 'BTC'}, 'testnet': {'currency_code': 'tBTC'}}
    it2.consts['NETWORK_DENOMINATORS'] = {1e-08: 'sat', 0.001: 'm', 1: '', 1000: 'k'}
    for unit, wantv, wantn in (('sattBTC', 5e-08, 'testnet'), ('mtBTC', 0.005, 'testnet'), ('tBTC', 5.0, 'testnet'), ('satBTC', 5e-08, 'bitcoin'), ('ktBTC', 5000.0, 'testnet'), ('mBTC', 0.005, 'bitcoin')):
        st = State(env={'self': S(SELF), 'value': '5 ' + unit, 'den_arg': None, 'network': 'bitcoin'})
        st.heap[('attr', ('attr', SELF, 'network'), 'currency_code')] = 'BTC'
        it2.frames.append([])
        try:
            end = it2.exec_block(blk[0].body, st)
        except AnalysisError as e:
            ctx.undecided('Value.__init__: string branch not evaluable for unit %s with two networks in the table: %s' % (unit, str(e)[:100]))
        it2.frames.pop()
        gv = None if end is None else end.heap.get(('attr', SELF, 'value'))
        gn = None if end is None else term(end.heap.get(('attr', SELF, 'network')))
        gn = gn[1] if isinstance(gn, tuple) and gn[0] == 'net' else gn
        ctx.saw("Value('5 %s') with networks BTC / tBTC -> %s on %s" % (unit, gv if isinstance(gv, (int, float)) else show(term(gv))[:30], show(gn)[:20]))
        ok = isinstance(gv, (int, float)) and abs(gv - wantv) <= 1e-12 * max(1.0, abs(wantv)) and gn == wantn
        ctx.require(ok, q, "Value('5 %s') is %s on network %s, expected %s on %s" % (unit, 'a refusal' if end is None else (gv if isinstance(gv, (int, float)) else show(term(gv))[:40]), show(gn)[:20], wantv, wantn), blk[0],
                    "the denominator prefix is stripped by its CHARACTERS instead of its length: 'sattBTC' loses the t of tBTC and 5 satoshi of testnet become 5 satoshi of bitcoin")
    for u in ('xyz', 'bits'):
        if outcomes[u] != 'raise':
            ctx.violate(q, 'a unit that is neither a currency code nor a denominator is ignored: the amount is read as whole coins', blk[0],
                        "Value('5 bits') and Value('5 xyz') are 5 BTC")
            break


def _int_valued(e):
    """expression that is an int by construction"""
    if isinstance(e, ast.Call) and unparse(e.func) == 'int':
        return True
    if isinstance(e, ast.Call) and unparse(e.func) == 'round' and len(e.args) == 1 and not e.keywords:
        return True
    if isinstance(e, ast.Constant) and isinstance(e.value, int):
        return True
    return False


@PROP.obligation('C17.integer-amounts', canaries=[
    mut.replace_expr('transactions', 'Transaction.add_output', 'float(value).is_integer()', 'round(float(value), 6).is_integer()', 'integrality test tolerant to float noise, truncation unchanged'),
    mut.replace_expr('values', 'value_to_satoshi', 'value.is_integer()', 'True', 'fractional numeric amounts accepted'),
    mut.drop_stmt('transactions', 'Transaction.raw', 'if o.value < 0', 'negative output values serialised'),
    mut.drop_stmt('transactions', 'Transaction.add_output', 'if isinstance(value, Value)', 'Value objects stored as whole coins'),
])
def integer_amounts(ctx):
    """(a) value_to_satoshi, the conversion used by Input / Output: on every return path the result is an integer: value_sat of a Value, or a
    numeric argument that passed an exact integrality test (a float with a fraction raises). (b) Transaction.add_output truncates with
    int(value) only after `float(value).is_integer()` failed to raise, with no rounding inside the test. (c) Transaction.raw raises on a
    negative output value before serialising it. (d) Input.__init__ and Output.__init__ store value_to_satoshi(value)."""
    # (a)
    q = 'values:value_to_satoshi'
    fn = ctx.repo.func(q)
    g = build_cfg(fn)
    rd = ReachingDefs(fn, g)
    rets = [n for n in g.nodes if n.kind == 'return']
    if not rets:
        ctx.undecided('value_to_satoshi: no return')
    for r in rets:
        e = r.ast.value
        if not isinstance(e, ast.Name):
            if not _int_valued(e):
                ctx.undecided('value_to_satoshi returns an expression outside the model: %s' % norm(e))
            continue
        kinds = []
        for d in rd.reaching(r.id, e.id):
            if d.kind == 'param':
                kinds.append(('param', None))
            elif d.kind == 'assign':
                kinds.append(('assign', d.value))
            else:
                kinds.append((d.kind, None))
        desc = []
        for k, v in kinds:
            if k == 'assign' and (_int_valued(v) or (isinstance(v, ast.Attribute) and v.attr == 'value_sat')):
                desc.append('int: ' + norm(v))
            elif k == 'assign' and isinstance(v, ast.Call) and unparse(v.func) == 'Value':
                desc.append('Value (converted below)')
            elif k == 'param':
                # the raw argument reaches the return: only allowed for ints; a float must be excluded by an integrality raise
                tests = [n for n in ast.walk(fn) if isinstance(n, ast.If) and any(isinstance(s, ast.Raise) for s in n.body) and 'is_integer' in unparse(n.test)]
                exact = [t for t in tests if isinstance(t.test, ast.UnaryOp) and isinstance(t.test.op, ast.Not) and norm(t.test.operand) in ('value.is_integer()', 'float(value).is_integer()')]
                if exact:
                    desc.append('argument after `%s` raised for fractions' % norm(exact[0].test))
                else:
                    desc.append('argument unchanged')
                    ctx.violate(q, 'a numeric argument is returned unchanged: a float with a fraction becomes the amount of an Input / Output', r.ast,
                                'Output(1.5, ...).value is 1.5 and is serialised as 1')
            else:
                desc.append('%s %s' % (k, norm(v) if v is not None else ''))
        ctx.saw('value_to_satoshi returns %s' % desc)
    # (b)
    q = 'transactions:Transaction.add_output'
    fn = ctx.repo.func(q)
    g = build_cfg(fn)
    truncs = [c for c in ast.walk(fn) if isinstance(c, ast.Call) and unparse(c.func) == 'int' and len(c.args) == 1 and unparse(c.args[0]) == 'value']
    if not truncs:
        ctx.undecided('Transaction.add_output: int(value) not found')
    ifs = [n for n in walk_no_nested(fn) if isinstance(n, ast.If) and n.body and isinstance(n.body[0], ast.Raise) and 'is_integer' in unparse(n.test)]
    ctx.saw('add_output: int(value) guarded by %s' % [norm(i.test) for i in ifs])
    if not ifs:
        ctx.violate(q, 'int(value) truncates without an integrality test', truncs[0], 'fractional amounts are silently truncated')
    else:
        t = ifs[0].test
        exact = isinstance(t, ast.UnaryOp) and isinstance(t.op, ast.Not) and norm(t.operand) in ('float(value).is_integer()', 'value.is_integer()')
        ctx.require(exact, q, 'the integrality test `%s` is not exact while the amount is still truncated with int(value)' % norm(t), ifs[0],
                    '0.29 * 1e8 = 28999999.999999996 passes the test and is stored as 28999999')
        tests = [n.id for n in g.nodes if n.kind == 'test' and any(sub is n.ast for sub in ast.walk(t))]
        tn = [n for n in g.nodes if n.ast is not None and any(sub is truncs[0] for f in [n.ast] for sub in ast.walk(f)) and n.kind in ('stmt', 'return')]
        if tn:
            ctx.require(tn[0].id not in g.reach([g.entry], blocked_nodes=tests), q, 'int(value) is reachable without passing the integrality test', truncs[0])
    # a Value object is an amount in COINS for float() / int(): it is converted with value_sat (or value_to_satoshi) before the numeric
    # test and the truncation - on every path (Output() converts Value objects itself; add_output is its wrapper)
    conv = [n for n in g.nodes if n.kind == 'stmt' and isinstance(n.ast, ast.Assign) and norm(n.ast.targets[0]) == 'value' and
            (norm(n.ast.value) == 'value.value_sat' or norm(n.ast.value).startswith('value_to_satoshi(value'))]
    vtests = [n for n in g.nodes if n.kind == 'test' and norm(n.ast) in ('isinstance(value, Value)',)]
    ctx.saw('add_output: Value objects converted by %s' % [norm(n.ast) for n in conv])
    if not conv:
        ctx.violate(q, 'a Value object passed as amount is never converted to its smallest units: float(value) / int(value) of a Value are whole coins', fn,
                    "add_output(Value('2 BTC'), address) creates an output of 2 satoshi")
    elif truncs:
        tn2 = [n for n in g.nodes if n.ast is not None and n.kind in ('stmt', 'return') and any(sub is truncs[0] for sub in ast.walk(n.ast))]
        unconditional = any(norm(n.ast.value).startswith('value_to_satoshi(') for n in conv)
        if tn2 and not unconditional:
            # with the isinstance test true, the truncation is only reachable through the conversion
            off = set(e for t_ in vtests for e in g.false_edge(t_.id))
            seen = g.reach([g.entry], blocked_nodes=[n.id for n in conv], blocked_edges=off)
            ctx.require(bool(vtests) and tn2[0].id not in seen, q, 'int(value) is reachable for a Value object without the conversion to smallest units', truncs[0],
                        "add_output(Value('2 BTC'), address) creates an output of 2 satoshi")
    # (c)
    q = 'transactions:Transaction.raw'
    fn = ctx.repo.func(q)
    writes = [n for n in ast.walk(fn) if isinstance(n, ast.AugAssign) and 'o.value' in unparse(n.value) and 'to_bytes' in unparse(n.value)]
    if not writes:
        ctx.undecided('Transaction.raw: serialisation of the output value not found')
    loop = [n for n in ast.walk(fn) if isinstance(n, ast.For) and any(w in list(ast.walk(n)) for w in writes)]
    guard = [s for s in (loop[0].body if loop else []) if isinstance(s, ast.If) and s.body and isinstance(s.body[0], ast.Raise) and norm(s.test) in ('o.value < 0', '0 > o.value')]
    ctx.saw('Transaction.raw: output value written by `%s`, negative amounts refused: %s' % (norm(writes[0]), bool(guard)))
    ctx.require(bool(guard) and loop[0].body.index(guard[0]) < [i for i, s in enumerate(loop[0].body) if writes[0] in list(ast.walk(s))][0], q,
                'output values are serialised without refusing negative amounts', writes[0], 'a negative amount is serialised as a huge unsigned value')
    # (d)
    for q in ('transactions:Input.__init__', 'transactions:Output.__init__'):
        fn = ctx.repo.func(q)
        asg = [n for n in walk_no_nested(fn) if isinstance(n, ast.Assign) and unparse(n.targets[0]) == 'self.value']
        ok = bool(asg) and all(isinstance(a.value, ast.Call) and unparse(a.value.func) == 'value_to_satoshi' and unparse(a.value.args[0]) == 'value' for a in asg)
        ctx.saw('%s: %s' % (q, [norm(a) for a in asg]))
        ctx.require(ok, q, 'the amount is stored without value_to_satoshi', asg[0] if asg else fn)


@PROP.obligation('C17.format-precision', canaries=[
    mut.replace_expr('values', 'Value.str', '-int(math.log10(self.network.denominator / denominator))', '-int(math.log10(self.network.denominator / denominator)) - 1', 'one decimal too few for every denominator'),
])
def format_precision(ctx):
    """Value.str prints round(value / denominator, decimals): for every denominator d of the table the default number of decimals,
    -int(log10(network.denominator / d)) limited by the cap in the code, must reach the digits that represent one smallest unit,
    log10(d / 1e-8); otherwise formatting then parsing loses units."""
    q = 'values:Value.str'
    fn = ctx.repo.func(q)
    blk = [n for n in walk_no_nested(fn) if isinstance(n, ast.If) and norm(n.test) == 'decimals is None']
    if len(blk) != 1:
        ctx.undecided('Value.str: default decimals block not found')
    asg = [s for s in blk[0].body if isinstance(s, ast.Assign) and unparse(s.targets[0]) == 'decimals']
    if len(asg) != 1:
        ctx.undecided('Value.str: default decimals assignment not found')
    base = norm(asg[0].value)
    offs = None
    if base == '-int(math.log10(self.network.denominator / denominator))':
        offs = 0
    elif isinstance(asg[0].value, ast.BinOp) and norm(asg[0].value.left) == '-int(math.log10(self.network.denominator / denominator))' and isinstance(asg[0].value.right, ast.Constant) and isinstance(asg[0].value.op, (ast.Add, ast.Sub)):
        offs = asg[0].value.right.value * (1 if isinstance(asg[0].value.op, ast.Add) else -1)
    else:
        # another way of writing the formula: evaluate the whole default-decimals block for every denominator of the table
        tab = _table(ctx)
        sat = Fraction(1, 10 ** 8)
        lost = []
        for d, sy in tab:
            if d < sat:
                continue
            need, x = 0, d / sat
            while x > 1:
                x /= 10
                need += 1
            it = Interp(ctx.repo, 'values', self_cls='values:Value')
            st = State(env={'self': S(SELF), 'decimals': None, 'denominator': float(d)})
            st.heap[('attr', ('attr', SELF, 'network'), 'denominator')] = 1e-08
            it.frames.append([])
            try:
                end = it.exec_block(blk[0].body, st)
            except AnalysisError as e:
                ctx.undecided('Value.str: decimals formula `%s` not evaluable for denominator %s: %s' % (base, sy or 1, str(e)[:80]))
            got = end.env.get('decimals') if end is not None else None
            if not isinstance(got, int):
                ctx.undecided('Value.str: decimals formula `%s` gives %s for denominator %s' % (base, show(term(got))[:60], sy or 1))
            if got < min(need, 8):
                lost.append((sy or '1', got, need))
        ctx.saw('default decimals: %s; denominators whose default format drops digits below the cap (symbol, printed, needed): %s' % (base, lost))
        if lost:
            ctx.violate(q, 'the default number of decimals `%s` prints %d decimals for the denominator %s, one smallest unit needs %d' % (base, lost[0][1], lost[0][0], lost[0][2]), asg[0],
                        "Value.from_satoshi(123456789).str('c') is '123.45679 cBTC', which parses back to 123456790")
        return
    caps = [s for s in blk[0].body if isinstance(s, ast.If) and isinstance(s.test, ast.Compare) and unparse(s.test.left) == 'decimals' and isinstance(s.test.ops[0], ast.Gt)
            and isinstance(s.test.comparators[0], ast.Constant) and len(s.body) == 1 and isinstance(s.body[0], ast.Assign) and unparse(s.body[0].targets[0]) == 'decimals' and isinstance(s.body[0].value, ast.Constant)]
    cap = caps[0].body[0].value.value if caps else None
    ctx.saw('default decimals: %s%s' % (base, ', capped at %s' % cap if cap is not None else ''))
    tab = _table(ctx)
    sat = Fraction(1, 10 ** 8)
    lost = []
    for d, s in tab:
        need = 0
        x = d / sat
        while x > 1:
            x /= 10
            need += 1
        got = need + offs if d >= sat else 0
        if cap is not None and got > cap:
            got = cap
        got = max(got, 0)
        if d >= sat and got < need:
            lost.append((s or '1', got, need))
    ctx.saw('denominators whose default format drops digits (symbol, printed, needed): %s' % lost)
    if lost:
        capped = cap is not None and all(g == cap for _, g, _ in lost)
        ctx.violate(q, 'default decimals %s: denominators %s print fewer decimals than one smallest unit needs' % ('are capped at %s' % cap if capped else 'are too few', [s for s, _, _ in lost]), caps[0] if capped else asg[0],
                    "Value.from_satoshi(123456789012).str_auto() is '1.23456789 kBTC', which parses back to 123456789000")


@PROP.obligation('C17.symbol-lookup', canaries=[
    mut.replace_expr('values', 'Value.__init__', 'symb == denominator', 'symb == denominator[:len(symb)] and len(symb)', 'denominator argument matched by prefix'),
    mut.replace_expr('values', 'Value.str', 'len(dens) > 1', 'len(dens) > 2', 'ambiguous prefixes of the str() denominator not resolved exactly'),
])
def symbol_lookup(ctx):
    """The denominator given as a SYMBOL (argument of Value(), Value.from_satoshi() and Value.str()) is looked up in
    NETWORK_DENOMINATORS. The look-up code of the three functions is evaluated for every symbol of the table: it must select exactly
    that symbol's denominator ('da' is 10, not the 0.1 of its prefix 'd')."""
    tab = _table(ctx)
    it_tab = {float(k) if k.denominator != 1 else int(k): s for k, s in tab}
    n = 0
    for q in ('values:Value.__init__', 'values:Value.from_satoshi', 'values:Value.str'):
        fn = ctx.repo.func(q)
        blks = [b for b in ast.walk(fn) if isinstance(b, ast.If) and norm(b.test) == 'isinstance(denominator, str)']
        if len(blks) != 1:
            ctx.undecided('%s: look-up of a denominator symbol not found' % q)
        wrong = []
        for den, sym in it_tab.items():
            if not sym:
                continue
            it = Interp(ctx.repo, 'values', self_cls='values:Value')
            it.consts = dict(it.consts)
            it.consts['NETWORK_DENOMINATORS'] = dict(it_tab)
            st = State(env={'self': S(SELF), 'denominator': sym})
            it.frames.append([])
            try:
                end = it.exec_block(blks[0].body, st)
            except AnalysisError as e:
                ctx.undecided('%s: symbol look-up not evaluable for %r: %s' % (q, sym, str(e)[:80]))
            it.frames.pop()
            got = end.env.get('denominator') if end is not None else 'raise'
            n += 1
            if isinstance(got, S):
                ctx.undecided('%s: symbol look-up for %r is not concrete: %s' % (q, sym, show(term(got))[:80]))
            if got != den:
                wrong.append((sym, got, den))
        ctx.saw('%s: %d symbols looked up, wrong: %s' % (q, len(it_tab) - 1, wrong))
        if wrong:
            ctx.violate(q, 'denominator symbols resolve to another denominator: %s' % ', '.join('%r -> %s (table: %s)' % w for w in wrong), blks[0],
                        "Value(5, 'da') is 0.5 coin instead of 50 coins")
    ctx.floor(n, 50, 'symbol look-ups evaluated')


SI = {'µsat': (1, 10 ** 14), 'msat': (1, 10 ** 11), 'n': (1, 10 ** 9), 'sat': (1, 10 ** 8), 'fin': (1, 10 ** 7), 'µ': (1, 10 ** 6), 'm': (1, 1000), 'c': (1, 100), 'd': (1, 10), '': (1, 1),
      'da': (10, 1), 'h': (100, 1), 'k': (1000, 1), 'M': (10 ** 6, 1), 'G': (10 ** 9, 1), 'T': (10 ** 12, 1), 'P': (10 ** 15, 1), 'E': (10 ** 18, 1), 'Z': (10 ** 21, 1), 'Y': (10 ** 24, 1)}


@PROP.obligation('C17.si-prefixes')
def si_prefixes(ctx):
    """NETWORK_DENOMINATORS maps every symbol to the factor the SI prefix (and the bitcoin unit names sat = 1e-8, fin(ney) = 1e-7,
    msat = 1e-11) stands for: parsing and formatting read the same table, so a swapped pair (c <-> d) stays self-consistent and is
    only visible against the standard."""
    tab = _table(ctx)
    n = 0
    for k, s_ in tab:
        if s_ not in SI:
            ctx.unsure('config.config:NETWORK_DENOMINATORS: symbol %r has no reference value' % s_)
            continue
        n += 1
        want = Fraction(*SI[s_])
        ctx.require(k == want, 'config.config:NETWORK_DENOMINATORS', 'symbol %r stands for %s, the standard value of that prefix is %s' % (s_, k, want), None,
                    "'5 cBTC' is read as 50000000 instead of 5000000 units")
    ctx.saw('%d denominator symbols compared with the SI / bitcoin unit definitions' % n)
    ctx.floor(n, 18, 'denominator symbols')


AMOUNT_TARGETS = ('value', 'balance', 'input_total', 'output_total', 'fee', 'fees')


@PROP.obligation('C17.provider-rounding', canaries=[
    mut.replace_expr('services.authproxy', 'AuthServiceProxy._get_response', 'json.loads(responsedata, parse_float=decimal.Decimal)', 'json.loads(responsedata)', 'node amounts decoded as binary floats'),
    mut.replace_expr('services.bitcoind', 'BitcoindClient._parse_transaction', "int(round(float(txi['vout'][i.output_n_int]['value']) / self.network.denominator))", "int(float(txi['vout'][i.output_n_int]['value']) * self.units)", 'bitcoind input values truncated'),
])
def provider_rounding(ctx):
    """Service clients convert the decimal coin amounts of their provider to integer units. Wherever a FLOAT enters such a conversion
    (float(...) inside the expression) the product / quotient is rounded before int(): int(float('0.29') / 1e-8) is 28999999. Every
    int(...) in bitcoinlib/services/*.py whose argument contains float(...) and a multiplication or division, and that feeds an amount
    (value, balance, totals, fee of a transaction), must go through round(); fee-rate estimates are listed but not judged."""
    n = 0
    for modname, m in sorted(ctx.repo.modules.items()):
        if not modname.startswith('services.'):
            continue
        for q, fn in m.functions.items():
            parent = {}
            for p_ in ast.walk(fn):
                for ch in ast.iter_child_nodes(p_):
                    parent[ch] = p_
            for c in ast.walk(fn):
                if not (isinstance(c, ast.Call) and norm(c.func) == 'int' and len(c.args) == 1):
                    continue
                # what the converted number is used for
                role = None
                pr = parent.get(c)
                if isinstance(pr, ast.Dict):
                    ks = [k.value for k, v in zip(pr.keys, pr.values) if v is c and isinstance(k, ast.Constant)]
                    role = ks[0] if ks else None
                elif isinstance(pr, ast.keyword):
                    role = pr.arg
                elif isinstance(pr, (ast.Assign, ast.AugAssign)):
                    t_ = pr.targets[0] if isinstance(pr, ast.Assign) else pr.target
                    role = t_.attr if isinstance(t_, ast.Attribute) else (t_.id if isinstance(t_, ast.Name) else None)
                elif isinstance(pr, ast.Return):
                    role = 'balance' if 'balance' in q else ('fee_rate' if 'fee' in q else None)
                if role is not None and not any(a_ in str(role) for a_ in AMOUNT_TARGETS) and 'amount' not in str(role):
                    continue
                a = c.args[0]
                has_float = any(isinstance(x, ast.Call) and norm(x.func) == 'float' for x in ast.walk(a))
                if not has_float:
                    # a local that holds a float (assigned / accumulated from float(...) or a float literal in this function)
                    names = set(x.id for x in ast.walk(a) if isinstance(x, ast.Name))
                    for s_ in ast.walk(fn):
                        if isinstance(s_, (ast.Assign, ast.AugAssign)):
                            t_ = s_.targets[0] if isinstance(s_, ast.Assign) else s_.target
                            if isinstance(t_, ast.Name) and t_.id in names and any(
                                    (isinstance(x, ast.Call) and norm(x.func) == 'float') or (isinstance(x, ast.Constant) and isinstance(x.value, float)) for x in ast.walk(s_.value)):
                                has_float = True
                arith = any(isinstance(x, ast.BinOp) and isinstance(x.op, (ast.Mult, ast.Div)) for x in ast.walk(a))
                if not (has_float and arith):
                    continue
                n += 1
                rounded = isinstance(a, ast.Call) and norm(a.func) == 'round'
                qual = '%s:%s' % (modname, q)
                if rounded:
                    continue
                if 'estimatefee' in q or 'fee_per' in norm(c):
                    ctx.saw('%s line %d: fee-rate estimate truncated (not an amount): %s' % (qual, c.lineno, norm(c)[:80]))
                    continue
                ctx.violate(qual, 'a float amount is truncated, not rounded: `%s`' % norm(c)[:110], c, "an amount such as 0.29 coins becomes 28999999 units: one unit short")
    ctx.saw('%d float-based conversions in the service clients inspected' % n)
    ctx.floor(n, 15, 'float-based conversions')
    # the node clients (bitcoind / litecoind / dogecoind) convert with int(amount * self.units) WITHOUT rounding: exact only because the
    # JSON-RPC layer hands them decimal.Decimal amounts - every json.loads of services/authproxy.py parses floats as Decimal
    unrounded = 0
    for modname in ('services.bitcoind', 'services.litecoind', 'services.dogecoind'):
        if modname not in ctx.repo.modules:
            continue
        for q, fn in ctx.repo.mod(modname).functions.items():
            for c in ast.walk(fn):
                if isinstance(c, ast.Call) and norm(c.func) == 'int' and len(c.args) == 1 and isinstance(c.args[0], ast.BinOp) and 'self.units' in norm(c.args[0]) and 'float(' not in norm(c.args[0]):
                    unrounded += 1
    ap = ctx.repo.mod('services.authproxy')
    loads = [c for q, fn in ap.functions.items() for c in ast.walk(fn) if isinstance(c, ast.Call) and norm(c.func) == 'json.loads']
    ctx.saw('%d unrounded int(amount * self.units) conversions in the node clients; %d json.loads in the JSON-RPC layer' % (unrounded, len(loads)))
    if unrounded:
        if not loads:
            ctx.undecided('services.authproxy: decoding of the JSON-RPC answer not found')
        for c in loads:
            pf = next((k.value for k in c.keywords if k.arg == 'parse_float'), None)
            ctx.require(pf is not None and norm(pf) in ('decimal.Decimal', 'Decimal'), 'services.authproxy:AuthServiceProxy._get_response',
                        'the JSON-RPC answer is decoded with parse_float=%s: amounts reach the node clients as binary floats' % (norm(pf) if pf is not None else 'the default (float)'), c,
                        'int(0.29 * 1e8) is 28999999: UTXO values and balances of an own node are one satoshi short for about 8% of the 8-decimal amounts')


@PROP.obligation('C17.parameters-read', canaries=[
    mut.replace_expr('values', 'Value.to_hex', 'self.value_sat.to_bytes(length // 2, byteorder).hex()', 'self.to_bytes(length // 2).hex()', 'to_hex ignores the byte order it is asked for'),
])
def parameters_read(ctx):
    """Every parameter of every function of values.py (denominator, decimals, length, byteorder, currency_code, ...) is read by the function
    that accepts it: the textual / hexadecimal form of an amount follows the options the caller states."""
    from .common_params import parameters_read as run
    run(ctx, ['values'], 'the form of the amount the caller asked for (byte order, length, unit) is silently replaced by the default: to_hex(byteorder="big") of 1 sat reads back as 72057594037927936', 30)


# smallest unit of the supported chains (chain parameters: COIN = 100000000 in Bitcoin, Litecoin and Dogecoin alike)
PUBLISHED_UNITS = {'bitcoin': 8, 'testnet': 8, 'testnet4': 8, 'signet': 8, 'regtest': 8, 'litecoin': 8, 'litecoin_legacy': 8, 'litecoin_testnet': 8,
                   'dogecoin': 8, 'dogecoin_testnet': 8, 'bitcoinlib_test': 8}


@PROP.obligation('C17.network-unit')
def network_unit(ctx):
    """data/networks.json is where every conversion takes the size of the smallest unit from (Network.denominator): for each network the
    value is exactly 10^-8 - the published COIN of the chain - and dust / fee limits are whole numbers of that unit. A dropped zero in one
    entry makes every text <-> integer conversion on that network wrong by a factor of ten while no code changed."""
    import json
    import os
    path = os.path.join(ctx.repo.root, 'bitcoinlib', 'data', 'networks.json')
    try:
        data = json.load(open(path))
    except Exception as e:
        ctx.undecided('networks.json unreadable: %r' % e)
    n = 0
    for net, v in sorted(data.items()):
        if net not in PUBLISHED_UNITS:
            ctx.unsure('network %s is not in the table of published units of this check' % net)
            continue
        n += 1
        d = v.get('denominator')
        want = Fraction(1, 10 ** PUBLISHED_UNITS[net])
        ok = isinstance(d, (int, float)) and Fraction(repr(d)) == want
        ctx.require(ok, 'bitcoinlib/data/networks.json', 'network %s: denominator is %r, the smallest unit of the chain is 1e-%02d' % (net, d, PUBLISHED_UNITS[net]), None,
                    'every amount given or shown as text on this network is converted with the wrong unit: off by a power of ten')
        for k in ('dust_amount', 'fee_default', 'fee_min', 'fee_max'):
            if v.get(k) is not None:
                ctx.require(isinstance(v[k], int) and not isinstance(v[k], bool) and v[k] >= 0, 'bitcoinlib/data/networks.json', 'network %s: %s is %r, not a non-negative whole number of smallest units' % (net, k, v[k]), None)
    for net in PUBLISHED_UNITS:
        if net not in data:
            ctx.undecided('network %s vanished from networks.json' % net)
    ctx.saw('%d networks: denominator 1e-08 everywhere, limits are integers' % n)
    ctx.floor(n, 10, 'networks')


@PROP.obligation('C17.derived-fee-sign', canaries=[
    mut.replace_expr('transactions', 'Transaction.__init__', 'fee < 0 or (fee == 0 and (not self.coinbase))', 'all((i.value for i in self.inputs)) and (fee < 0 or (fee == 0 and (not self.coinbase)))', 'negative derived fee only refused when every input value is known'),
    mut.replace_expr('transactions', 'Transaction.__init__', 'fee < 0', 'fee < -1', 'derived fee of -1 accepted'),
])
def derived_fee_sign(ctx):
    """Transaction.__init__ derives fee = input_total - output_total when none is given. The statement is evaluated for totals whose
    difference is negative (and positive, as the control): whatever else the refusal is made to depend on, no way out of the statement
    leaves a negative number in `fee` - it raises, or the fee is reset. Transaction.fee, as_dict()['fee'] and the wallet export carry it."""
    q = 'transactions:Transaction.__init__'
    fn = ctx.repo.func(q)
    stmts = [n for n in fn.body if isinstance(n, ast.If) and 'fee is None' in norm(n.test) and any(isinstance(x, ast.Assign) and norm(x.targets[0]) == 'fee' for x in ast.walk(n))]
    if len(stmts) != 1:
        ctx.undecided('Transaction.__init__: %d statements derive the fee from the totals, expected 1' % len(stmts))
    n = 0
    for tin, tout, label in ((60000, 100000, 'negative'), (99999, 100000, 'minus one'), (100000, 60000, 'positive')):
        it = Interp(ctx.repo, 'transactions', self_cls='transactions:Transaction')
        st = State(env={'self': S(SELF), 'fee': None, 'input_total': tin, 'output_total': tout, 'inputs': S(('var', 'inputs'), 'list'), 'outputs': S(('var', 'outputs'), 'list')})
        st.heap[A(SELF, 'coinbase')] = False
        it.frames.append([])
        try:
            end = it.exec_stmt(stmts[0], st)
        except AnalysisError as e:
            ctx.undecided('Transaction.__init__: fee derivation not evaluable for totals %d / %d: %s' % (tin, tout, str(e)[:100]))
        n += 1
        fee = None if end is None else end.env.get('fee')
        ctx.saw('inputs %d, outputs %d -> %s' % (tin, tout, 'raises' if end is None else 'fee = %s%s' % (show(term(fee))[:40], ' when ' + ' and '.join(('' if p_ else 'not ') + show(t)[:50] for t, p_ in end.pc) if end.pc else '')))
        if label == 'positive':
            ctx.require(end is not None and term(fee) == tin - tout, q, 'totals %d / %d give %s instead of the fee %d' % (tin, tout, 'a refusal' if end is None else show(term(fee))[:40], tin - tout), stmts[0])
            continue
        if end is None:
            continue
        vals = [x for x in subterms(('w', term(fee))) if isinstance(x, int) and not isinstance(x, bool)] if not isinstance(fee, int) else [fee]
        neg = isinstance(fee, int) and fee < 0 or (not isinstance(fee, int) and any(v < 0 for v in vals))
        ctx.require(not neg, q, 'with input total %d and output total %d the constructor can continue with fee = %s%s' % (tin, tout, show(term(fee))[:40], (' (when ' + ' and '.join(('' if p_ else 'not ') + show(t)[:60] for t, p_ in end.pc) + ')') if end.pc else ''), stmts[0],
                    'Transaction.fee, as_dict() and the exported transaction carry a negative number of smallest units')
    ctx.floor(n, 3, 'total scenarios')


def _mut_parse_float(tree):
    r = mut.replace_expr('values', 'Value.__init__', 'float(Fraction(value) * Fraction(repr(den_input)))', 'float(value) * den_input').mutate(tree)
    return bool(r)


@PROP.obligation('C17.float-rescale', canaries=[
    mut.replace_expr('values', 'Value.str', 'Fraction(repr(denominator))', 'Fraction(denominator)', 'the display quotient uses the binary value of the denominator'),
    mut.replace_expr('values', 'Value.from_satoshi', 'cls(value or 0, network.denominator, network)', 'cls((value or 0) * (network.denominator / denominator), denominator, network)', 'amount rescaled into the unit with a float quotient before it is stored'),
    mut.Canary('decimal text converted to a binary float before it is scaled', 'values', _mut_parse_float),
])
def float_rescale(ctx):
    """An amount of up to 2.1e15 smallest units needs 51 of the 53 bits of a binary float: ONE scaling by the network denominator and its
    inverse in value_sat keep the error below half a unit (n * 2^-52 < 0.47), every further float operation on the path can lose the last
    unit. Three shapes add such operations and are reported wherever they occur in Value: (1) an amount multiplied by a QUOTIENT of two
    float denominators (from_satoshi with a unit); (2) decimal TEXT passed through float() and then scaled (the string constructor); (3)
    the coin amount divided by a denominator other than the network's smallest unit (formatting in a unit). Exact types (Fraction,
    Decimal, integers) in these places silence the rule."""
    m = ctx.repo.mod('values')
    exact = {'Decimal', 'Fraction', 'decimal.Decimal', 'fractions.Fraction'}
    n_ops = 0
    for qn, fn in sorted(m.functions.items()):
        if qn not in ('Value.from_satoshi', 'Value.__init__', 'Value.str', 'Value.str_unit', 'Value.str_auto', 'Value.value_sat', 'Value.to_bytes', 'Value.to_hex'):
            continue       # the conversions between text / decimal form and smallest units; the arithmetic operators are another matter
        q = 'values:' + qn
        parents = {}
        for x in ast.walk(fn):
            for c in ast.iter_child_nodes(x):
                parents[c] = x

        def inside_exact(node):
            p_ = parents.get(node)
            while p_ is not None:
                if isinstance(p_, ast.Call) and norm(p_.func) in exact:
                    return True
                p_ = parents.get(p_)
            return False
        for b in ast.walk(fn):
            if not (isinstance(b, ast.BinOp) and isinstance(b.op, (ast.Mult, ast.Div))):
                continue
            sides = [b.left, b.right]
            den_side = [x for x in sides if any(isinstance(y, (ast.Name, ast.Attribute)) and (getattr(y, 'id', None) in ('denominator', 'den_input', 'den') or getattr(y, 'attr', None) == 'denominator') for y in ast.walk(x))]
            amt_side = [x for x in sides if x not in den_side and any((isinstance(y, ast.Name) and y.id == 'value') or (isinstance(y, ast.Attribute) and y.attr == 'value' and norm(y.value) == 'self') for y in ast.walk(x))]
            if not den_side or not amt_side or inside_exact(b) or any(isinstance(c, ast.Call) and norm(c.func) in exact for c in ast.walk(b)):
                continue
            p_ = parents.get(b)
            in_test = False
            while p_ is not None and not isinstance(p_, ast.stmt):
                in_test = in_test or isinstance(p_, ast.Compare)
                p_ = parents.get(p_)
            if in_test:
                continue       # picking a display unit by magnitude, not converting
            n_ops += 1
            d, a_ = den_side[0], amt_side[0]
            why = None
            if isinstance(d, ast.BinOp) and isinstance(d.op, ast.Div):
                why = ('the amount is rescaled with a quotient of binary floats', 'Value.from_satoshi(1947051253767627, "m").value_sat == 1947051253767628')
            elif isinstance(a_, ast.Call) and norm(a_.func) == 'float' and qn == 'Value.__init__' and any(isinstance(t, ast.If) and 'isinstance(value, str)' in norm(t.test) and b in list(ast.walk(t)) and not any(b in list(ast.walk(o)) for o in t.orelse) for t in ast.walk(fn)):
                why = ('decimal text is converted to a binary float before it is scaled', "Value('178075849687109.7 finBTC').value_sat == 1780758496871096")
            elif isinstance(b.op, ast.Div) and norm(a_) == 'self.value' and norm(d) not in ('self.network.denominator',):
                why = ('the coin amount, already a rounded float, is divided by the float denominator of the display unit', "Value.from_satoshi(2097368203488378).str('µ') == '20973682034883.79 µBTC'")
            ctx.saw('%s: %s -> %s' % (qn, norm(b)[:70], why[0] if why else 'single scaling by a denominator (bounded below half a unit)'))
            if why:
                ctx.violate(q, '%s (`%s`): more float roundings than the 53-bit mantissa leaves room for on amounts up to the total supply' % (why[0], norm(b)[:80]), b, why[1] + ': off by one smallest unit')
    # (4) an exact type fed the BINARY value of a decimal denominator: Fraction(1e-06) is 9.99999999999999954748e-07, not 1/1000000 -
    # the quotient is then the same as the float quotient; Fraction(repr(d)) / Fraction(str(d)) / Decimal(str(d)) read the decimal literal
    n_exact = 0
    for qn, fn in sorted(m.functions.items()):
        q = 'values:' + qn
        for c in ast.walk(fn):
            if not (isinstance(c, ast.Call) and norm(c.func) in exact and len(c.args) == 1):
                continue
            a_ = c.args[0]
            is_den = (isinstance(a_, ast.Name) and a_.id in ('denominator', 'den_input', 'den', 'den_arg')) or (isinstance(a_, ast.Attribute) and a_.attr == 'denominator')
            wrapped_den = isinstance(a_, ast.Call) and norm(a_.func) in ('repr', 'str') and a_.args and \
                ((isinstance(a_.args[0], ast.Name) and a_.args[0].id in ('denominator', 'den_input', 'den', 'den_arg')) or (isinstance(a_.args[0], ast.Attribute) and a_.args[0].attr == 'denominator'))
            if is_den or wrapped_den:
                n_exact += 1
                ctx.saw('%s: %s reads the denominator %s' % (qn, norm(c)[:50], 'as its decimal literal' if wrapped_den else 'as a BINARY float'))
            if is_den:
                ctx.violate(q, '`%s` converts the binary value of a decimal denominator (1e-06 is 9.99999999999999954748e-07 as a float): the "exact" quotient equals the float quotient' % norm(c)[:60], c,
                            "Value.from_satoshi(2011423469732937).str('µ') prints ...29.38 instead of ...29.37, and parsing that text back is off by one smallest unit")
    ctx.floor(n_ops, 2, 'float scalings of amounts by denominators in Value')
    ctx.floor(n_exact, 1, 'exact conversions of a denominator')


@PROP.obligation('C17.display-mantissa')
def display_mantissa(ctx):
    """Value.str hands a Python float to a %f format. For a display unit d the printed number has (total supply / d) * 10^decimals
    distinguishable values; a float tells at most 2^53 of them apart. For every unit from the smallest one (sat) upwards that is 2.1e15
    - it fits; for the units BELOW the smallest unit (n, msat, µsat) it is 2.1e16 and more, so large amounts cannot be printed exactly
    in these units whatever arithmetic precedes the format. Decided from the denominator table and the type of the formatted value
    (silent once the number is formatted from an exact type)."""
    q = 'values:Value.str'
    fn = ctx.repo.func(q)
    asg = [n for n in ast.walk(fn) if isinstance(n, ast.Assign) and norm(n.targets[0]) == 'balance']
    if len(asg) != 1:
        ctx.undecided('Value.str: %d assignments to the formatted number, expected 1' % len(asg))
    v = asg[0].value
    outer = norm(v.func) if isinstance(v, ast.Call) else None
    is_float = outer in ('round', 'float') or (isinstance(v, ast.BinOp) and 'self.value' in norm(v))
    exact = isinstance(v, ast.Call) and outer in ('Decimal', 'Fraction', 'decimal.Decimal', 'fractions.Fraction', 'int')
    ctx.saw('formatted number: %s (%s)' % (norm(v)[:80], 'float' if is_float else ('exact type' if exact else 'unknown type')))
    if exact:
        return
    if not is_float:
        ctx.undecided('Value.str: type of the formatted number `%s` not classified' % norm(v)[:60])
    tab = _table(ctx)
    sat = Fraction(1, 10 ** 8)
    supply = 21 * 10 ** 6
    n = 0
    for d, sym in tab:
        n += 1
        if d >= sat:
            continue        # printed with the decimals of one smallest unit at most: 2.1e15 values
        distinct = Fraction(supply) / d
        if distinct > 2 ** 53:
            ctx.violate(q, 'amounts are formatted in the unit %s through a float: up to %.1e whole units have to be told apart, a float distinguishes 2^53 = 9.0e15' % (sym, float(distinct)), asg[0],
                        "Value.from_satoshi(2003380357255359).str('n') == '20033803572553588 nBTC', which parses back to ...358: off by one smallest unit")
    ctx.floor(n, 15, 'denominators')


@PROP.obligation('C17.text-means-coins', canaries=[
    mut.insert_before('values', 'value_to_satoshi', 'if isinstance(value, str):', "if isinstance(value, str) and value.strip().isdigit():\n    value = int(value)", 'digit-only text read as a count of smallest units'),
])
def text_means_coins(ctx):
    """An amount given as TEXT is parsed by Value: '5' is 5 coins like '5.0' and '5 BTC' (Value('5') is 5 BTC; Output('5', ...) pays 5
    coins). value_to_satoshi, evaluated on concrete strings with and without digits only, hands every one of them to Value and returns that
    object's value_sat - no spelling of a number takes a shortcut that reads it in another unit."""
    q = 'values:value_to_satoshi'
    fn = ctx.repo.func(q)
    n = 0
    for text in ('5', '12', '0', ' 7 ', '5.0', '0.5', '5 BTC', '100 sat'):
        for net in (None, 'bitcoin'):
            made = []

            def h_value(it, args, kwargs, st, node):
                v = ('valueobj', args[0] if args and isinstance(args[0], str) else term(args[0]) if args else None)
                made.append(v)
                st.heap[('attr', v, 'network')] = S(('net', net or 'bitcoin'))
                return S(v)
            it = Interp(ctx.repo, 'values', hooks={'Value': h_value, 'Network': lambda it_, a, kw, st_, node: S(('net', term(a[0]) if a else None))},
                        decide=lambda t: (False if isinstance(t, tuple) and t and t[0] == 'cmp' and t[1] in ('!=',) and 'net' in show(t) else
                                          (('Value' in show(t[2])) if isinstance(t, tuple) and t and t[0] == 'isinstance' and isinstance(t[1], tuple) and t[1][:1] == ('valueobj',) else None)))
            try:
                exits = it.run_function(fn, {'value': text, 'network': net})
            except AnalysisError as e:
                ctx.undecided('value_to_satoshi(%r) not evaluable: %s' % (text, str(e)[:100]))
            rets = [term(e.value) for e in exits if e.kind == 'return']
            n += 1
            ok = len(made) >= 1 and made[0] == ('valueobj', text) and rets and all(r == ('attr', ('valueobj', text), 'value_sat') for r in rets)
            ctx.saw('value_to_satoshi(%r, network=%r) -> %s' % (text, net, [show(r)[:40] for r in rets]))
            ctx.require(ok, q, 'the text amount %r gives %s instead of Value(%r).value_sat' % (text, [show(r)[:40] for r in rets] or 'no result', text), fn,
                        "value_to_satoshi('5') returns 5 smallest units while '5.0' and '5 BTC' are 5 coins: Output('2', addr) pays 2 satoshi, send_to(addr, '1') pays 1 satoshi")
    ctx.floor(n, 16, 'text amounts')


@PROP.obligation('C17.units-as-configured', canaries=[
    mut.replace_stmt('services.baseclient', 'BaseClient.__init__', 'self.units = denominator', 'self.units = denominator\nif not self.units or self.units <= 1:\n    self.units = round(1 / self.network.denominator)', 'a provider denominator of 1 replaced by 10^8'),
    mut.replace_stmt('services.baseclient', 'BaseClient.__init__', 'self.units = denominator', 'self.units = denominator or 100000000', 'missing denominator defaults to coins'),
])
def units_as_configured(ctx):
    """Provider clients scale what an API reports by `self.units`, the `denominator` of the provider's entry in providers.json: 100000000
    for APIs that report coins, 1 for those that already report the smallest unit (blockchaininfo, bitgo, blockcypher, mempool).
    `self.units` is exactly the value handed to the constructor - assigned once, from the parameter, not adjusted afterwards - and every
    provider entry carries one of the two denominators."""
    import json
    import os
    n = 0
    for modname in sorted(ctx.repo.modules):
        if not modname.startswith('services.'):
            continue
        m = ctx.repo.mod(modname)
        for qn, fn in sorted(m.functions.items()):
            for a in ast.walk(fn):
                tg = a.targets if isinstance(a, ast.Assign) else ([a.target] if isinstance(a, (ast.AugAssign, ast.AnnAssign)) else [])
                for t in tg:
                    for x in ast.walk(t):
                        if isinstance(x, ast.Attribute) and x.attr == 'units' and isinstance(x.value, ast.Name) and x.value.id == 'self':
                            n += 1
                            ok = isinstance(a, ast.Assign) and isinstance(a.value, ast.Name) and a.value.id == 'denominator' and qn.endswith('.__init__')
                            ctx.saw('%s:%s: %s' % (modname, qn, norm(a)[:70]))
                            ctx.require(ok, '%s:%s' % (modname, qn), '`%s`: the scaling factor of a provider client is not simply the configured denominator' % norm(a)[:80], a,
                                        'providers that report the smallest unit (denominator 1) are scaled by 10^8: 123456789 satoshi become 12345678900000000')
    ctx.floor(n, 1, 'assignments to self.units')
    try:
        data = json.load(open(os.path.join(ctx.repo.root, 'bitcoinlib', 'data', 'providers.json')))
    except Exception as e:
        ctx.undecided('providers.json unreadable: %r' % e)
    k = 0
    for name, v in sorted(data.items()):
        k += 1
        d = v.get('denominator')
        ctx.require(d in (1, 100000000) and not isinstance(d, bool), 'bitcoinlib/data/providers.json', 'provider %s: denominator is %r (expected 1 for APIs reporting the smallest unit, 100000000 for APIs reporting coins)' % (name, d), None)
    ctx.saw('%d provider entries carry denominator 1 or 100000000' % k)
    ctx.floor(k, 30, 'provider entries')


def _floaty(e):
    """does evaluating e involve float arithmetic (true division, a float literal, float(...), round(x, n))?"""
    for x in ast.walk(e):
        if isinstance(x, ast.BinOp) and isinstance(x.op, ast.Div):
            return True
        if isinstance(x, ast.Constant) and isinstance(x.value, float):
            return True
        if isinstance(x, ast.Call) and norm(x.func) == 'float':
            return True
        if isinstance(x, ast.Call) and norm(x.func) == 'round' and (len(x.args) > 1 or x.keywords):
            return True
    return False


def _int_top(e):
    if _int_valued(e):
        return True
    if isinstance(e, ast.Call) and norm(e.func) in ('math.ceil', 'math.floor', 'ceil', 'floor', 'len'):
        return True
    if isinstance(e, ast.BinOp) and isinstance(e.op, ast.FloorDiv) and not _floaty(e):
        return True
    if isinstance(e, ast.BinOp) and isinstance(e.op, (ast.Add, ast.Sub, ast.Mult)):
        return _int_top(e.left) and _int_top(e.right)
    if isinstance(e, ast.IfExp):
        return _int_top(e.body) and _int_top(e.orelse)
    return False


_FEE_TARGETS = ('fee', 'extra_fee', 'fee_estimate', 'fee_exact', 'fee_per_kb', 'remaining_fee')


@PROP.obligation('C17.fee-integer', canaries=[
    mut.replace_expr('transactions', 'Transaction.calculate_fee', 'int(self.vsize / 1000.0 * self.fee_per_kb)', 'round(self.vsize / 1000.0 * self.fee_per_kb, 0)', 'calculate_fee returns round(x, 0), a float'),
    mut.replace_expr('wallets', 'Wallet.transaction_create', 'int(transaction.size / 1000.0 * transaction.fee_per_kb)', 'transaction.size / 1000.0 * transaction.fee_per_kb', 'the fee of a created transaction is a float'),
])
def fee_integer(ctx):
    """Fees are integers of the smallest unit. Wherever transactions.py / wallets.py compute a fee with float arithmetic (a true division,
    a float literal, float(...), round(x, n)) and store it in fee / X.fee / extra_fee / fee_estimate / fee_per_kb or return it from a
    *fee* function, the outermost operation makes it an int: int(...), round(x) with ONE argument, math.ceil / floor. round(x, 0)
    returns a float (188.0): Wallet.send hands calculate_fee() on as the exact fee of the re-created transaction."""
    n = 0
    for modname in ('transactions', 'wallets'):
        mod = ctx.repo.mod(modname)
        for name, fn in sorted(mod.functions.items()):
            q = '%s:%s' % (modname, name)
            if not any(isinstance(x, (ast.Name, ast.Attribute, ast.keyword)) and 'fee' in (getattr(x, 'id', None) or getattr(x, 'attr', None) or getattr(x, 'arg', None) or '') for x in ast.walk(fn)):
                continue
            g = build_cfg(fn)
            rd = ReachingDefs(fn, g)
            sinks = []          # (expression that becomes a fee, node id, statement, description)
            for node in g.nodes:
                a = node.ast
                if a is None or node.kind not in ('stmt', 'return'):
                    continue
                if isinstance(a, ast.Assign):
                    for t in a.targets:
                        if isinstance(t, ast.Attribute) and t.attr in _FEE_TARGETS:
                            sinks.append((a.value, node.id, a, '%s = ' % norm(t)))
                elif isinstance(a, ast.Return) and a.value is not None and 'fee' in name.split('.')[-1].lower():
                    sinks.append((a.value, node.id, a, 'return '))
                for c in ast.walk(a):
                    if isinstance(c, ast.Call):
                        for k in c.keywords:
                            if k.arg == 'fee' and isinstance(k.value, ast.Name):
                                sinks.append((k.value, node.id, a, '%s(fee=' % norm(c.func)))
            for e, nid, stmt, what in sinks:
                exprs = [(e, stmt)]
                if isinstance(e, ast.Name):
                    # a local: every definition that reaches the sink (an int(...) wrapped around it later is a new definition)
                    exprs = [(d.value, d.ast) for d in rd.reaching(nid, e.id) if d.kind == 'assign' and d.value is not None]
                for v, at in exprs:
                    if not _floaty(v):
                        continue
                    n += 1
                    ok = _int_top(v)
                    ctx.saw('%s: %s%s -> %s' % (q, what, norm(v)[:60], 'int' if ok else 'FLOAT'))
                    ctx.require(ok, q, '`%s%s` is computed with float arithmetic and not converted to an integer (round(x, n) returns a float)' % (what, norm(v)[:70]), at if hasattr(at, 'lineno') else stmt,
                                'calculate_fee() returns 188.0: Wallet.send(fee=None) hands it to transaction_create(fee=fee_exact), where a non-int fee skips the integer path and becomes transaction.fee')
    ctx.floor(n, 12, 'fees computed with float arithmetic')


@PROP.obligation('C17.derived-fee-guarded', canaries=[
    mut.replace_stmt('services.cryptoid', 'CryptoID.gettransaction', 'if t.input_total:', 't.fee = t.input_total - t.output_total', 'cryptoid: coinbase transactions get a fee of minus their outputs'),
    mut.replace_stmt('services.chainso', 'ChainSo.gettransaction', 'if t.input_total:', 't.fee = t.input_total - t.output_total', 'chainso: coinbase transactions get a fee of minus their outputs'),
])
def derived_fee_guarded(ctx):
    """Where the package derives a fee as input total minus output total outside the Transaction constructor (three provider clients and
    Transaction.update_totals), the subtraction only happens when the input total is known (`if <x>.input_total:`): a coinbase
    transaction - and any transaction whose input values were not reported - has input total 0, and the unguarded difference is a
    NEGATIVE fee (-5000000000 for a 50-coin coinbase). All sites of the reference tree carry the guard; the rule is exact over them."""
    from ..dfa import guards_of
    n = 0
    for modname, m in sorted(ctx.repo.modules.items()):
        if not (modname.startswith('services.') or modname == 'transactions'):
            continue
        for name, fn in sorted(m.functions.items()):
            if name.endswith('.__init__'):
                continue
            sites = [a for a in walk_no_nested(fn) if isinstance(a, ast.Assign) and any(isinstance(t, ast.Attribute) and t.attr == 'fee' for t in a.targets) and
                     isinstance(a.value, ast.BinOp) and isinstance(a.value.op, ast.Sub) and 'input_total' in norm(a.value.left) and 'output_total' in norm(a.value.right)]
            if not sites:
                continue
            q = '%s:%s' % (modname, name)
            g = build_cfg(fn)
            for a in sites:
                n += 1
                nodes = [nd for nd in g.nodes if nd.ast is a]
                guarded = bool(nodes) and all(any(pol == 'T' and 'input_total' in norm(g[t].ast) for t, pol in guards_of(g, nd.id)) for nd in nodes)
                ctx.saw('%s: `%s` guarded by a test of the input total: %s' % (q, norm(a)[:60], guarded))
                ctx.require(guarded, q, '`%s` is computed without testing that the input total is known' % norm(a)[:70], a,
                            'a coinbase transaction fetched through this client has fee = -(sum of its outputs): a negative number of smallest units in Transaction.fee, the cache and the wallet')
    ctx.floor(n, 4, 'derived fees')


from . import c20 as _c20
PROP.obligation('C17.clamp-before-cache')(_c20.clamp_before_cache)
