"""Shared obligation: a parameter is treated as an opaque value - handed on, normalised, type-tested - and never decides the outcome by
its truthiness, length or by comparison (the empty passphrase is a passphrase like any other)."""
import ast

from ..core import AnalysisError, norm

_FIXTURE = '''
def ok(secret, data):
    if isinstance(secret, str):
        secret = normalize(secret).encode()
    return kdf(secret, data)

def bad_truth(secret, data):
    if not secret:
        raise ValueError('need a secret')
    return kdf(secret, data)

def bad_len(secret, data):
    if len(secret) < 1 or secret == '':
        raise ValueError('need a secret')
    return kdf(secret, data)

def bad_default(secret, data):
    return kdf(secret or 'default', data)
'''

DECIDERS = {'len', 'bool', 'any', 'all'}


def opaque_uses(fn, param):
    """classify every read of ``param`` in ``fn``: returns (violations, unknown) as lists of (node, reason)"""
    parents = {}
    for n in ast.walk(fn):
        for c in ast.iter_child_nodes(n):
            parents[c] = n
    bad, unknown, n_reads = [], [], 0
    for n in ast.walk(fn):
        if not (isinstance(n, ast.Name) and n.id == param and isinstance(n.ctx, ast.Load)):
            continue
        n_reads += 1
        p = parents.get(n)
        if isinstance(p, ast.Call):
            if n in p.args or any(k.value is n for k in p.keywords):
                fname = p.func.id if isinstance(p.func, ast.Name) else None
                if fname == 'isinstance' and p.args and p.args[0] is n:
                    continue
                if fname in DECIDERS:
                    bad.append((p, '%s(%s) is taken' % (fname, param)))
                continue
            unknown.append((p, 'called'))
        elif isinstance(p, ast.Attribute):
            gp = parents.get(p)
            if isinstance(gp, ast.Call) and gp.func is p and p.attr in ('encode', 'decode'):
                continue
            unknown.append((p, 'attribute .%s read' % p.attr))
        elif isinstance(p, (ast.If, ast.While, ast.IfExp)) and p.test is n:
            bad.append((p, 'its truthiness is tested'))
        elif isinstance(p, ast.UnaryOp) and isinstance(p.op, ast.Not):
            bad.append((p, 'its truthiness is tested'))
        elif isinstance(p, ast.BoolOp):
            bad.append((p, 'its truthiness is tested'))
        elif isinstance(p, ast.Compare):
            if all(isinstance(o, (ast.Is, ast.IsNot)) for o in p.ops) and any(isinstance(c, ast.Constant) and c.value is None for c in [p.left] + p.comparators):
                continue
            bad.append((p, 'it is compared'))
        elif isinstance(p, (ast.Assign, ast.Return, ast.keyword, ast.Tuple, ast.List, ast.Starred, ast.Expr)):
            continue
        elif isinstance(p, ast.IfExp):
            continue
        elif isinstance(p, ast.Assert):
            bad.append((p, 'its truthiness is asserted'))
        else:
            unknown.append((p, 'used in %s' % type(p).__name__))
    return bad, unknown, n_reads


def _selftest(ctx):
    tree = ast.parse(_FIXTURE)
    res = {}
    for f in tree.body:
        b, u, _ = opaque_uses(f, 'secret')
        res[f.name] = (len(b), len(u))
    if res != {'ok': (0, 0), 'bad_truth': (1, 0), 'bad_len': (2, 0), 'bad_default': (1, 0)}:
        raise AnalysisError('opaque-parameter fixture classified %s' % res)
    ctx.saw('opaque-parameter self-test on the embedded fixture: %s' % res)


def opaque_parameter(ctx, sites, why):
    """``sites``: list of (qualname, parameter)"""
    _selftest(ctx)
    total = 0
    for q, param in sites:
        fn = ctx.repo.func(q)
        if param not in [a.arg for a in fn.args.posonlyargs + fn.args.args + fn.args.kwonlyargs]:
            raise AnalysisError('%s has no parameter %s any more' % (q, param))
        bad, unknown, n = opaque_uses(fn, param)
        total += n
        ctx.saw('%s: %d reads of `%s`, %d decide something' % (q, n, param, len(bad)))
        for node, reason in unknown:
            ctx.unsure('%s: use of `%s` not classified (%s): %s' % (q, param, reason, norm(node)[:80]))
        for node, reason in bad:
            ctx.violate(q, '`%s` is not just handed on: %s in `%s`' % (param, reason, norm(node)[:90].split('\n')[0]), node, why)
    return total
