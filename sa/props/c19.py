"""C19 Script evaluation agrees with consensus for the implemented opcodes — registry, per-opcode stack effects, truthiness."""
import ast

from ..core import Property, AnalysisError, unparse, norm, walk_no_nested
from ..sym import Interp, S, term, show, subterms, State, rewrite
from ..stack import SymStack, stack_decide, ShapeSplit
from ..cfg import build_cfg
from .. import intv, mut

PROP = Property(
    'C19', 'Script interpreter: opcode registry, stack effect of every handler, truthiness, dispatch, conditionals',
    'Static: every Stack.op_* handler is evaluated on a symbolic stack [.. in3 in2 in1]; the items consumed and the terms '
    'pushed are compared with the consensus effect table (interpreter.cpp) modulo commutativity; every boolean reading of '
    'a stack item must go through numeric decoding; the opcode table and the handler set must cover each other; the dispatch '
    'loop must fail on a False / raising handler and on an empty final stack; the IF/ELSE/ENDIF splitting loop must not drop '
    'items on any path; arithmetic handlers must reject operands longer than 4 bytes. Hash and signature VALUES are '
    'hashlib/fastecdsa\'s; handlers with data-dependent arity (CHECKMULTISIG) are checked for pop order only.',
    ['hashlib / fastecdsa primitives are correct', 'decode_num/encode_num are checked under C18'])

I = lambda k: ('in', k)
N = lambda x: ('call', 'decode_num', (x,), ())
E = lambda v: ('call', 'encode_num', (v,), ())
B = lambda test: ('cond', test, b'\x01', b'')
cmp_ = lambda op, a, b: ('cmp', op, a, b)
bin_ = lambda op, a, b: ('binop', op, a, b)
ZERO = lambda x: cmp_('==', N(x), 0)
NZ = lambda x: cmp_('!=', N(x), 0)

# opcode -> (items consumed, outputs bottom..top)   [consensus: script/interpreter.cpp]
EFFECTS = {
    'op_nop': (0, []), 'op_nop1': (0, []), 'op_nop4': (0, []), 'op_nop5': (0, []), 'op_nop6': (0, []), 'op_nop7': (0, []),
    'op_nop8': (0, []), 'op_nop9': (0, []), 'op_nop10': (0, []),
    'op_2drop': (2, []), 'op_2dup': (2, [I(2), I(1), I(2), I(1)]), 'op_3dup': (3, [I(3), I(2), I(1), I(3), I(2), I(1)]),
    'op_2over': (4, [I(4), I(3), I(2), I(1), I(4), I(3)]), 'op_2rot': (6, [I(4), I(3), I(2), I(1), I(6), I(5)]),
    'op_2swap': (4, [I(2), I(1), I(4), I(3)]),
    'op_drop': (1, []), 'op_dup': (1, [I(1), I(1)]), 'op_nip': (2, [I(1)]), 'op_over': (2, [I(2), I(1), I(2)]),
    'op_rot': (3, [I(2), I(1), I(3)]), 'op_swap': (2, [I(1), I(2)]), 'op_tuck': (2, [I(1), I(2), I(1)]),
    'op_size': (1, [I(1), E(('len', I(1)))]),
    'op_depth': (0, [E(('stacklen', 0))]),
    'op_equal': (2, [B(cmp_('==', I(2), I(1)))]),
    'op_1add': (1, [E(bin_('+', N(I(1)), 1))]), 'op_1sub': (1, [E(bin_('-', N(I(1)), 1))]),
    'op_negate': (1, [E(('unop', 'USub', N(I(1))))]), 'op_abs': (1, [E(('call', 'abs', (N(I(1)),), ()))]),
    'op_not': (1, [B(ZERO(I(1)))]), 'op_0notequal': (1, [B(NZ(I(1)))]),
    'op_add': (2, [E(bin_('+', N(I(2)), N(I(1))))]), 'op_sub': (2, [E(bin_('-', N(I(2)), N(I(1))))]),
    'op_booland': (2, [B(('bool', 'and', (NZ(I(2)), NZ(I(1)))))]), 'op_boolor': (2, [B(('bool', 'or', (NZ(I(2)), NZ(I(1)))))]),
    'op_numequal': (2, [B(cmp_('==', N(I(2)), N(I(1))))]), 'op_numnotequal': (2, [B(cmp_('!=', N(I(2)), N(I(1))))]),
    'op_lessthan': (2, [B(cmp_('<', N(I(2)), N(I(1))))]), 'op_greaterthan': (2, [B(cmp_('>', N(I(2)), N(I(1))))]),
    'op_lessthanorequal': (2, [B(cmp_('<=', N(I(2)), N(I(1))))]), 'op_greaterthanorequal': (2, [B(cmp_('>=', N(I(2)), N(I(1))))]),
    'op_min': (2, 'MIN'), 'op_max': (2, 'MAX'),
    'op_within': (3, [B(('bool', 'and', (cmp_('<=', N(I(2)), N(I(3))), cmp_('<', N(I(3)), N(I(1))))))]),
    'op_ripemd160': (1, [('call', 'ripemd160', (I(1),), ())]),
    'op_sha1': (1, [('mcall', ('call', 'hashlib.sha1', (I(1),), ()), 'digest', (), ())]),
    'op_sha256': (1, [('mcall', ('call', 'hashlib.sha256', (I(1),), ()), 'digest', (), ())]),
    'op_hash160': (1, [('call', 'hash160', (I(1),), ())]),
    'op_hash256': (1, [('mcall', ('call', 'hashlib.sha256', (('mcall', ('call', 'hashlib.sha256', (I(1),), ()), 'digest', (), ()),), ()), 'digest', (), ())]),
}
# the repository names the four comparison handlers op_num*: map them to the consensus opcode they implement
ALIASES = {'op_numlessthan': 'op_lessthan', 'op_numgreaterthan': 'op_greaterthan', 'op_numlessthanorequal': 'op_lessthanorequal',
           'op_numgreaterthanorequal': 'op_greaterthanorequal'}
VERIFY_FORMS = {'op_equalverify': 'op_equal', 'op_numequalverify': 'op_numequal'}
DATA_DEPENDENT = {'op_checkmultisig', 'op_checkmultisigverify', 'op_if', 'op_notif', 'op_pick', 'op_roll'}
SPECIAL = {'op_verify', 'op_return', 'op_ifdup', 'op_checksig', 'op_checksigverify', 'op_checklocktimeverify', 'op_checksequenceverify'}
NOT_IMPLEMENTED = {'OP_CAT', 'OP_SUBSTR', 'OP_LEFT', 'OP_RIGHT', 'OP_INVERT', 'OP_AND', 'OP_OR', 'OP_XOR', 'OP_2MUL', 'OP_2DIV', 'OP_MUL', 'OP_DIV',
                   'OP_MOD', 'OP_LSHIFT', 'OP_RSHIFT', 'OP_VER', 'OP_VERIF', 'OP_VERNOTIF', 'OP_RESERVED', 'OP_RESERVED1', 'OP_RESERVED2',
                   'OP_TOALTSTACK', 'OP_FROMALTSTACK', 'OP_CODESEPARATOR', 'OP_INVALIDOPCODE'}
INLINE = {'OP_0', 'OP_1NEGATE', 'OP_ELSE', 'OP_ENDIF', 'OP_PUSHDATA1', 'OP_PUSHDATA2', 'OP_PUSHDATA4'} | {'OP_%d' % i for i in range(1, 17)}


def _run_handler(ctx, name, extra=None, report_split=False):
    fn = ctx.repo.func('scripts:Stack.' + name)
    it = Interp(ctx.repo, 'scripts', decide=stack_decide, max_depth=5)
    stk = SymStack()
    args = {'self': stk}
    for p, d in [(a.arg, None) for a in fn.args.args[1:]]:
        args[p] = S(('var', p))
    if extra:
        args.update(extra)
    try:
        exits = it.run_function(fn, args)
    except ShapeSplit as e:
        if name in DATA_DEPENDENT or name in SPECIAL:
            raise
        # a fixed-arity opcode whose stack depth depends on operand values: reported once, by C19.effect
        if report_split:
            ctx.violate('scripts:Stack.' + name, 'the number of items consumed depends on the operand values (%s)' % str(e)[:300], fn,
                        'consensus %s always consumes the same number of items; a pop inside a short-circuited / conditional expression is skipped for some operands' % name.upper())
        return fn, None
    return fn, exits


def _norm(t):
    """normal form modulo commutativity of + == != and / or, and modulo the repository's truth idiom (x == b'')"""
    def f(x):
        if isinstance(x, tuple) and x and x[0] == 'binop' and x[1] == '+':
            a, b = sorted([x[2], x[3]], key=repr)
            return ('binop', '+', a, b)
        if isinstance(x, tuple) and x and x[0] == 'cmp' and x[1] in ('==', '!='):
            a, b = sorted([x[2], x[3]], key=repr)
            return ('cmp', x[1], a, b)
        if isinstance(x, tuple) and x and x[0] == 'bool':
            return ('bool', x[1], tuple(sorted(x[2], key=repr)))
        if isinstance(x, tuple) and x and x[0] == 'cond' and isinstance(x[1], tuple) and x[1] and x[1][0] == 'cmp' and x[1][1] == '!=':
            return ('cond', ('cmp', '==', x[1][2], x[1][3]), x[3], x[2])
        return None
    return rewrite(t, f)


def _truth_modulo(t):
    """rewrite the repository's truth / numeric idioms into the consensus ones so that the effect comparison isolates
    operand order and structure (the idioms themselves are judged by C19.truth)"""
    def f(x):
        if isinstance(x, tuple) and x and x[0] == 'cmp' and x[1] in ('==', '!='):
            a, b = x[2], x[3]
            if b == b'' and isinstance(a, tuple) and a[0] == 'in':
                return ('cmp', x[1], N(a), 0)
            if a == b'' and isinstance(b, tuple) and b[0] == 'in':
                return ('cmp', x[1], N(b), 0)
        return None
    return rewrite(t, f)


def _numeric_modulo(t):
    def f(x):
        if isinstance(x, tuple) and x and x[0] == 'cmp' and x[1] in ('==', '!=') and all(isinstance(y, tuple) and y[0] == 'in' for y in (x[2], x[3])):
            return ('cmp', x[1], N(x[2]), N(x[3]))
        return None
    return rewrite(t, f)


def _main_exit(exits):
    """the exit on which the handler succeeds (returns True / falls through), with the stack model"""
    good = [e for e in exits if e.kind == 'return' and e.value is not False]
    return good[-1] if good else None


@PROP.obligation('C19.registry')
def registry(ctx):
    """Every opcode name of config.opcodes has a Stack.op_<name> handler, is handled inline by Script.evaluate / the parser, or
    is in the declared not-implemented (disabled / reserved) set; every Stack.op_* method is the target of an opcode name."""
    consts = ctx.repo.consts('scripts')
    names = consts.get('opcodenames')
    if not isinstance(names, dict):
        ctx.undecided('opcodenames not reconstructed')
    handlers = set(k for k in ctx.repo.methods_of('scripts:Stack') if k.startswith('op_'))
    ctx.saw('%d opcode names, %d handlers' % (len(names), len(handlers)), len(names))
    ctx.floor(len(names), 100, 'opcode names')
    ctx.floor(len(handlers), 55, 'Stack.op_* handlers')
    for code, nm in sorted(names.items()):
        if nm.lower() in handlers or nm in INLINE or nm in NOT_IMPLEMENTED:
            continue
        ctx.violate('config.opcodes:_opcodes', 'opcode %s (%d) has no handler Stack.%s and is not declared unimplemented' % (nm, code, nm.lower()), None,
                    'a script using it raises "Method not found" instead of being evaluated')
    targets = set(n.lower() for n in names.values())
    for h in sorted(handlers):
        if h not in targets:
            ctx.violate('scripts:Stack.' + h, 'handler %s is not the target of any opcode name (dispatch is by opcodenames[code].lower())' % h, ctx.repo.func('scripts:Stack.' + h),
                        'the handler is unreachable from Script.evaluate')


@PROP.obligation('C19.effect', canaries=[
    mut.replace_expr('scripts', 'Stack.op_swap', 'self.pop(-2)', 'self.pop(-3)', 'op_swap moves the third item'),
    mut.replace_expr('scripts', 'Stack.op_rot', 'self.pop(-3)', 'self.pop(-2)', 'op_rot becomes swap'),
    mut.replace_expr('scripts', 'Stack.op_2dup', 'self[-2:]', 'self[-3:]', 'op_2dup duplicates three'),
    mut.replace_expr('scripts', 'Stack.op_1sub', 'self.pop_as_number() - 1', 'self.pop_as_number() + 1', 'op_1sub adds'),
    mut.replace_expr('scripts', 'Stack.op_max', 'a > b', 'a < b', 'op_max returns the minimum'),
    mut.replace_expr('scripts', 'Stack.op_hash256', 'self.op_sha256()', 'self.op_sha1()', 'op_hash256 first round sha1', nth=0),
    mut.replace_expr('scripts', 'Stack.op_size', 'len(self[-1])', 'len(self)', 'op_size pushes the stack depth'),
    mut.replace_expr('scripts', 'Stack.op_nip', 'self.pop(-2)', 'self.pop(-1)', 'op_nip drops the top'),
    mut.replace_expr('scripts', 'Stack.op_over', 'self[-2]', 'self[-1]', 'op_over becomes dup'),
    mut.replace_expr('scripts', 'Stack.op_checksig', 'Signature.parse_bytes(signature, public_key=public_key)', 'Signature.parse_bytes(public_key, public_key=signature)', 'op_checksig swaps signature and key'),
    mut.drop_stmt('scripts', 'Stack.op_2drop', 'self.pop()', 'op_2drop drops one'),
])
def effect(ctx):
    """Each fixed-arity handler consumes and pushes exactly what consensus prescribes (operand order included)."""
    repo = ctx.repo
    handlers = sorted(k for k in repo.methods_of('scripts:Stack') if k.startswith('op_'))
    compared = 0
    for h in handlers:
        spec_name = ALIASES.get(h, h)
        q = 'scripts:Stack.' + h
        if spec_name in DATA_DEPENDENT or spec_name in SPECIAL or spec_name in VERIFY_FORMS:
            continue
        if spec_name not in EFFECTS:
            ctx.undecided('handler %s has no entry in the consensus effect table' % h)
        fn, exits = _run_handler(ctx, h, report_split=True)
        if exits is None:
            compared += 1
            continue
        e = _main_exit(exits)
        if e is None:
            ctx.violate(q, 'handler never succeeds', fn)
            continue
        stk = e.env['self']
        if stk.variants is not None or stk.dynamic:
            ctx.undecided('%s: effect depends on run-time data' % h)
        used, exp = EFFECTS[spec_name]
        got = [_norm(_numeric_modulo(_truth_modulo(x))) if spec_name in ('op_numequal', 'op_numnotequal') else _norm(_truth_modulo(x)) for x in stk.items]
        # inputs the handler materialised but left untouched at the bottom are not "consumed"
        g_used = stk.used
        while got and g_used > 0 and got[0] == I(g_used) and g_used > used:
            got.pop(0)
            g_used -= 1
        compared += 1
        if exp in ('MIN', 'MAX'):
            op = '<' if exp == 'MIN' else '>'
            a, b = N(I(1)), N(I(2))
            alts = [[('cond', cmp_(op, x, y), E(x), E(y))] for x, y in ((a, b), (b, a))] + [[E(('call', exp.lower(), (x, y), ()))] for x, y in ((a, b), (b, a))]
            ok = g_used == used and any(got == [_norm(z) for z in alt] for alt in alts)
            shown = '%s(in2, in1)' % exp.lower()
        else:
            ok = g_used == used and got == [_norm(x) for x in exp]
            shown = '[%s]' % ', '.join(show(x) for x in exp)
        ctx.saw('%s: (%d in) -> [%s]' % (h, g_used, ', '.join(show(x)[:60] for x in got)))
        if not ok:
            ctx.violate(q, 'stack effect is (%d consumed) -> [%s]; consensus %s is (%d consumed) -> %s' % (
                g_used, ', '.join(show(x) for x in got)[:200], spec_name.upper(), used, shown[:200]), fn,
                'scripts using this opcode evaluate differently from Bitcoin consensus')
    ctx.floor(compared, 40, 'handlers compared with the effect table')
    # verify forms: op_xverify = op_x followed by op_verify
    for h, base in VERIFY_FORMS.items():
        q = 'scripts:Stack.' + h
        fn = repo.func(q)
        calls = [unparse(c.func) for c in ast.walk(fn) if isinstance(c, ast.Call)]
        ctx.saw('%s calls %s' % (h, calls))
        ctx.require(calls == ['self.' + base, 'self.op_verify'], q, '%s is not %s followed by op_verify (calls: %s)' % (h, base, calls), fn)
    # dynamic index handlers
    for h, kind in (('op_pick', 'get'), ('op_roll', 'pop')):
        q = 'scripts:Stack.' + h
        fn, exits = _run_handler(ctx, h)
        e = _main_exit(exits)
        stk = e.env['self'] if e else None
        if stk is None or len(stk.dynamic) != 1 or stk.dynamic[0][0] != kind:
            ctx.undecided('%s: dynamic access not recognised' % h)
        idx = stk.dynamic[0][1]
        n = N(I(1))
        try:
            vals = [intv.value_eval(idx, {n: k}) for k in (0, 1, 2, 5)]
        except Exception:
            ctx.undecided('%s: index expression %s not evaluable' % (h, show(idx)))
        ctx.saw('%s: after popping n, accesses index %s -> for n=0,1,2,5: %s' % (h, show(idx), vals))
        if vals != [-1, -2, -3, -6]:
            ctx.violate(q, 'after popping n the item at index %s is used (n=0,1,2 -> %s); consensus uses the item n below the top (index -n-1)' % (show(idx), vals[:3]), fn,
                        'PICK/ROLL select the wrong item (n=0 even addresses the bottom of the stack)')
    # checksig: (sig pub -- bool), signature = second item, key = top
    q = 'scripts:Stack.op_checksig'
    fn, exits = _run_handler(ctx, 'op_checksig')
    e = _main_exit(exits)
    stk = e.env['self']
    ctx.saw('op_checksig: (%d in) -> [%s]' % (stk.used, ', '.join(show(x)[:110] for x in stk.items)))
    ok = stk.used == 2 and len(stk.items) == 1 and isinstance(stk.items[0], tuple) and stk.items[0][0] == 'cond' and stk.items[0][2:] == (b'\x01', b'')
    if ok:
        test = stk.items[0][1]
        ok = (isinstance(test, tuple) and test[0] == 'mcall' and test[2] == 'verify' and test[3] and test[3][0] == ('var', 'message') and test[3][1] == I(1)
              and test[1][:3] == ('mcall', ('global', 'Signature'), 'parse_bytes') and test[1][3][0] == I(2))
    ctx.require(ok, q, 'op_checksig effect is [%s]; expected the verdict of verifying signature in2 for key in1 over the message' % ', '.join(show(x)[:160] for x in stk.items), fn)


@PROP.obligation('C19.truth', canaries=[
    mut.replace_expr('scripts', 'Stack.op_if', 'decode_num(element) == 0', "element == b''", 'op_if tests the raw bytes'),
    mut.replace_expr('scripts', 'Stack.op_ifdup', "self[-1] != b''", 'decode_num(self[-1]) > 0', 'op_ifdup treats negative numbers as false'),
])
def truth(ctx):
    """Every boolean reading of a stack item (final result, VERIFY, IF/NOTIF, NOT, 0NOTEQUAL, BOOLAND/OR, IFDUP) and every numeric
    comparison (NUMEQUAL / NUMNOTEQUAL) goes through decode_num, which treats 00.., 80 (negative zero) and the empty vector
    alike; comparing with b'' accepts b'\\x00' as true."""
    repo = ctx.repo
    sites = 0
    for h in ('op_verify', 'op_not', 'op_0notequal', 'op_booland', 'op_boolor', 'op_ifdup', 'op_numequal', 'op_numnotequal', 'op_if', 'op_notif'):
        q = 'scripts:Stack.' + h
        extra = {'commands': S(('var', 'commands'), 'list')} if h in ('op_if', 'op_notif') else None
        fn, exits = _run_handler(ctx, h, extra)
        if exits is None:
            sites += 1
            ctx.saw('%s: stack depth is data dependent (reported by C19.effect)' % h)
            continue
        raw = set()
        for e in exits:
            stk = e.env['self']
            pool = [t for t, pol in e.pc] + list(stk.items) + ([x for v in (stk.variants or []) for x in ([v[0]] + list(v[1]))]) + \
                [term(v) for v in (e.heap or {}).values()] + ([term(e.value)] if e.value is not None else [])
            for t in pool:
                for s in subterms(('w', t)):
                    if isinstance(s, tuple) and s[0] == 'cmp' and s[1] in ('==', '!='):
                        a, b = s[2], s[3]
                        if (b == b'' and isinstance(a, tuple) and a[0] == 'in') or (a == b'' and isinstance(b, tuple) and b[0] == 'in'):
                            raw.add("stack item compared with b'' instead of decoded")
                        if all(isinstance(y, tuple) and y[0] == 'in' for y in (a, b)) and h.startswith('op_num'):
                            raw.add('numeric equality decided on the raw bytes')
                    if isinstance(s, tuple) and s[0] == 'cmp' and s[1] in ('<', '>', '<=', '>=') and not h.startswith('op_num'):
                        a, b = s[2], s[3]
                        dec = lambda y: isinstance(y, tuple) and y[0] == 'call' and y[1] == 'decode_num' and y[2] and isinstance(y[2][0], tuple) and y[2][0][0] == 'in'
                        if (dec(a) and isinstance(b, int)) or (dec(b) and isinstance(a, int)):
                            raw.add('truth of a stack item read as the ordering `%s`: consensus truth is "decoded number != 0", negative numbers are true' % show(s).replace('decode_num', 'num'))
        if h in ('op_if', 'op_notif'):
            # both arms look alike to the stack model; judge the branch test itself
            for n in walk_no_nested(fn):
                if isinstance(n, ast.If) and any(isinstance(x, ast.Name) and x.id == 'element' for x in ast.walk(n.test)):
                    if 'decode_num' not in unparse(n.test):
                        raw.add("branch chosen by `%s` instead of the decoded number" % norm(n.test))
        sites += 1
        ctx.saw('%s: %s' % (h, sorted(raw) or 'numeric decoding'))
        for r in sorted(raw):
            ctx.violate(q, r, fn, "b'\\x00' and b'\\x80' are false / zero in consensus but are treated as true / distinct here")
    # the final result test in Script.evaluate
    q = 'scripts:Script.evaluate'
    fn = repo.func(q)
    found = False
    for n in walk_no_nested(fn):
        if isinstance(n, ast.If) and 'self.stack.pop()' in unparse(n.test):
            found = True
            t = norm(n.test)
            ctx.saw('Script.evaluate final test: %s' % t)
            if 'decode_num' not in t:
                ctx.violate(q, "final stack item tested by `%s`" % t, n, "a script leaving b'\\x00' (or negative zero) on the stack is reported valid")
    if not found:
        ctx.undecided('final stack test in Script.evaluate not found')


@PROP.obligation('C19.dispatch', canaries=[
    mut.replace_expr('scripts', 'Script.evaluate', 'res is False', 'res is None', 'evaluate ignores a failing handler'),
    mut.replace_expr('scripts', 'Script.evaluate', 'encode_num(command - 80)', 'encode_num(command - 81)', 'OP_n pushes n-1'),
    mut.replace_expr('scripts', 'Script.evaluate', 'encode_num(-1)', 'encode_num(1)', 'OP_1NEGATE pushes 1'),
    mut.replace_stmt('scripts', 'Script.evaluate', 'if len(self.stack) == 0:', 'if False:\n    pass', 'empty final stack accepted'),
])
def dispatch(ctx):
    """Script.evaluate: OP_0 / OP_1NEGATE / OP_1..16 push encode_num(0 / -1 / n); a handler result that is False, or an exception in
    a handler, returns False; a script ending with an empty stack returns False."""
    repo = ctx.repo
    q = 'scripts:Script.evaluate'
    fn = repo.func(q)
    chain = None
    for n in walk_no_nested(fn):
        if isinstance(n, ast.If) and 'op.op_0' in unparse(n.test) and 'command' in unparse(n.test):
            chain = n
            break
    if chain is None:
        ctx.undecided('opcode dispatch chain not found')
    for code, exp in [(0, 0), (79, -1)] + [(80 + k, k) for k in (1, 2, 15, 16)]:
        it = Interp(repo, 'scripts')
        stk = SymStack()
        st = State(env={'command': code, 'self': S(('var', 'self')), 'commands': S(('var', 'commands'))})
        st.heap[('attr', ('var', 'self'), 'stack')] = stk
        it.frames.append([])
        end = it.exec_if(chain, st)
        if end is None:
            ctx.violate(q, 'opcode %d terminates evaluation' % code, chain)
            continue
        s2 = end.heap[('attr', ('var', 'self'), 'stack')]
        ctx.saw('opcode %d pushes %s' % (code, [show(x) for x in s2.items]))
        ctx.require(s2.used == 0 and s2.items == [E(exp)], q, 'opcode %d pushes %s, consensus pushes the number %d' % (code, [show(x) for x in s2.items], exp), chain)
    g = build_cfg(fn)
    # a False handler result reaches `return False`
    res_tests = [n for n in g.nodes if n.kind == 'test' and 'res is False' in unparse(n.ast)]
    ctx.saw('tests of the handler result: %s' % [norm(n.ast) for n in res_tests])
    if not res_tests:
        ctx.violate(q, 'the result of a handler is never tested with `res is False`', fn, 'a failing opcode (e.g. OP_VERIFY on false) does not fail the script')
    for n in res_tests:
        tgt = [s for s, l in n.succ if l == 'T']
        ok = tgt and g[tgt[0]].kind == 'return' and isinstance(g[tgt[0]].ast.value, ast.Constant) and g[tgt[0]].ast.value.value is False
        ctx.require(ok, q, 'a False handler result does not lead to `return False`', n.ast)
    # exceptions in handlers return False
    handlers = [n for n in g.nodes if n.kind == 'handler']
    okh = False
    for hnode in handlers:
        seen = g.reach([hnode.id])
        rets = [g[i] for i in seen if g[i].kind == 'return']
        first = [r for r in rets if isinstance(r.ast.value, ast.Constant) and r.ast.value.value is False]
        if first and any('getattr(self.stack, method_name)' in unparse(n.ast) for n in g.nodes if n.ast is not None and any(p == hnode.id for p, l in n.succ)):
            okh = True
    ctx.require(okh, q, 'an exception raised by a handler does not lead to `return False`', fn)
    # empty final stack
    empt = [n for n in g.nodes if n.kind == 'test' and 'len(self.stack) == 0' in unparse(n.ast).replace('not len(self.stack)', 'len(self.stack) == 0')]
    ctx.saw('empty-stack tests: %d' % len(empt))
    ok = False
    for n in empt:
        tgt = [s for s, l in n.succ if l == 'T']
        if tgt and g[tgt[0]].kind == 'return' and isinstance(g[tgt[0]].ast.value, ast.Constant) and g[tgt[0]].ast.value.value is False:
            ok = True
    ctx.require(ok, q, 'a script that leaves an empty stack is not rejected', fn)


def _mut_nested_else(tree):
    from ..mut import _find_func, _walk
    f = _find_func(tree, 'Stack.op_if')
    for n in _walk(f):
        if isinstance(n, ast.If) and unparse(n.test) == 'num_endifs_needed == 1 and item == 103':
            inner = ast.If(test=ast.parse('num_endifs_needed == 1', mode='eval').body, body=n.body, orelse=[])
            n.test = ast.parse('item == 103', mode='eval').body
            n.body = [inner]
            return True
    return False


from ..core import Canary


@PROP.obligation('C19.conditionals', canaries=[
    Canary('nested OP_ELSE dropped (test hoisted, fall-through append lost)', 'scripts', _mut_nested_else),
])
def conditionals(ctx):
    """Stack.op_if splitting loop: on every path through the loop body the item taken from the command stream is appended to the
    current arm, or is the top-level OP_ELSE (switches the arm) or the matching OP_ENDIF (ends the scan); nesting depth is
    incremented on IF/NOTIF and decremented on a nested ENDIF; the arm executed is chosen by decode_num(top) == 0."""
    q = 'scripts:Stack.op_if'
    fn = ctx.repo.func(q)
    loop = [n for n in walk_no_nested(fn) if isinstance(n, ast.While)]
    if len(loop) != 1:
        ctx.undecided('op_if: splitting loop not found')
    loop = loop[0]
    wrapper = ast.FunctionDef(name='body', args=ast.arguments(posonlyargs=[], args=[], kwonlyargs=[], kw_defaults=[], defaults=[]), body=loop.body, decorator_list=[], lineno=loop.lineno, col_offset=0)
    try:
        g = build_cfg(wrapper)
    except AnalysisError:
        # break at top level of the wrapper: build on the real function instead
        g = None
    gf = build_cfg(fn)
    pops = [n.id for n in gf.nodes if n.ast is not None and n.kind == 'stmt' and isinstance(n.ast, ast.Assign) and 'commands.pop(0)' in unparse(n.ast)]
    if len(pops) != 1:
        ctx.undecided('op_if: `item = commands.pop(0)` not found')
    start = pops[0]
    keep = [n.id for n in gf.nodes if n.ast is not None and n.kind == 'stmt' and 'current_array.append(item)' in unparse(n.ast)]
    switch = [n.id for n in gf.nodes if n.ast is not None and n.kind == 'stmt' and unparse(n.ast).startswith('current_array = false_items')]
    brk = [n.id for n in gf.nodes if n.ast is not None and isinstance(n.ast, ast.Break)]
    heads = [n.id for n in gf.nodes if n.kind == 'test' and n.ast is loop.test] + [n.id for n in gf.nodes if n.kind == 'join']
    ctx.saw('op_if loop: %d append sites, %d arm switches, %d breaks' % (len(keep), len(switch), len(brk)))
    # a path from the pop back to the loop head that avoids append / switch / break drops the item
    seen = gf.reach([start], blocked_nodes=set(keep) | set(switch) | set(brk))
    back = [h for h in heads if h in seen and h != start]
    if back:
        p = gf.path(seen, back[0])
        ctx.violate(q, 'an item taken from the command stream can be dropped: path %s reaches the next iteration without appending it' % gf.describe_path(p), loop,
                    'e.g. the OP_ELSE of a nested conditional disappears, so both arms of the inner IF are executed')
    # the switch must be guarded by depth == 1 and item == OP_ELSE (103)
    from ..dfa import guards_of
    for sid in switch:
        gs = [norm(gf[t].ast) for t, pol in guards_of(gf, sid) if pol == 'T']
        ctx.saw('arm switch guarded by %s' % gs)
        ctx.require(any('num_endifs_needed == 1' in x for x in gs) and any('item == 103' in x for x in gs), q, 'arm switch is guarded by %s, expected depth == 1 and OP_ELSE' % gs, gf[sid].ast)
    src = unparse(fn)
    # (whether the nesting depth is counted correctly is decided on command streams by C19.balanced-conditionals; here only noted)
    ctx.saw('depth counter incremented and decremented in the source: %s' % ('num_endifs_needed += 1' in src and 'num_endifs_needed -= 1' in src))
    incs = [n for n in walk_no_nested(fn) if isinstance(n, ast.If) and any('num_endifs_needed += 1' in unparse(s) for s in n.body)]
    if incs:
        t = norm(incs[0].test)
        ctx.saw('depth incremented when %s' % t)
        ctx.require('99' in t and '100' in t, q, 'nesting depth is incremented on `%s`, expected on OP_IF (99) and OP_NOTIF (100)' % t, incs[0])


@PROP.obligation('C19.timelocks')
def timelocks(ctx):
    """CHECKLOCKTIMEVERIFY separates block heights from timestamps at 500000000 (BIP65); a handler for an opcode that is not
    implemented cannot produce a truthy result."""
    repo = ctx.repo
    q = 'scripts:Stack.op_checklocktimeverify'
    fn = repo.func(q)
    consts = sorted(set(n.value for n in ast.walk(fn) if isinstance(n, ast.Constant) and isinstance(n.value, int) and n.value > 1000000 and n.value != 0xffffffff))
    ctx.saw('op_checklocktimeverify thresholds: %s' % consts)
    for c in consts:
        if c != 500000000:
            ctx.violate(q, 'lock-time type threshold is %d, BIP65 LOCKTIME_THRESHOLD is 500000000' % c, fn,
                        'lock times between the two values are classified as timestamps instead of block heights (or vice versa)')
    if not consts:
        ctx.undecided('no threshold constant in op_checklocktimeverify')
    q = 'scripts:Stack.op_checksequenceverify'
    fn = repo.func(q)
    it = Interp(repo, 'scripts', decide=stack_decide)
    exits = it.run_function(fn, {'self': SymStack(), 'sequence': S(('var', 'sequence'), 'int'), 'version': S(('var', 'version'), 'int')})
    for e in exits:
        if e.kind == 'return':
            v = term(e.value)
            ctx.saw('op_checksequenceverify returns %s' % show(v))
            if v == ('global', 'NotImplementedError') or (isinstance(v, tuple) and v[0] == 'global'):
                ctx.violate(q, 'returns the class %s (truthy, `is False` is false): every CHECKSEQUENCEVERIFY succeeds' % show(v), e.node,
                            'a relative time lock that consensus rejects is reported as satisfied')


@PROP.obligation('C19.arith-guard', canaries=[
    mut.replace_stmt('scripts', 'Stack.is_arithmetic', 'if len(i) > 4:', 'if len(i) > 5:\n    return False', 'numeric operands of 5 bytes accepted'),
    mut.replace_stmt('scripts', 'Stack.is_arithmetic', 'if len(i) > 4:', 'if len(i) >= 4:\n    return False', 'numeric operands of 4 bytes refused'),
    mut.drop_stmt('scripts', 'Stack.op_add', 'if not self.is_arithmetic(2)', 'op_add: operand size not checked'),
])
def arith_guard(ctx):
    """Numeric handlers fail (return False) exactly when one of their operands is longer than 4 bytes (consensus nMaxNumSize)."""
    repo = ctx.repo
    numeric = {'op_1add': 1, 'op_1sub': 1, 'op_negate': 1, 'op_abs': 1, 'op_not': 1, 'op_0notequal': 1, 'op_add': 2, 'op_sub': 2, 'op_booland': 2, 'op_boolor': 2,
               'op_numequal': 2, 'op_numnotequal': 2, 'op_numlessthan': 2, 'op_numgreaterthan': 2, 'op_numlessthanorequal': 2, 'op_numgreaterthanorequal': 2,
               'op_min': 2, 'op_max': 2, 'op_within': 3}
    for h, k in sorted(numeric.items()):
        q = 'scripts:Stack.' + h
        fn, exits = _run_handler(ctx, h)
        if exits is None:
            ctx.saw('%s: stack depth is data dependent (reported by C19.effect)' % h)
            continue
        lens = [('len', I(j)) for j in range(1, k + 1)]
        bad = []
        for j in range(1, k + 1):
            for size, must_fail in ((4, False), (5, True)):
                sub = {l: 1 for l in lens}
                sub[('len', I(j))] = size
                feas = [e for e in exits if intv.exit_feasible(e, sub)]
                succ = [e for e in feas if e.kind == 'return' and e.value is not False]
                fail = [e for e in feas if e.kind == 'return' and e.value is False]
                if must_fail and succ:
                    bad.append('operand in%d of %d bytes is accepted' % (j, size))
                if not must_fail and not succ:
                    bad.append('operand in%d of %d bytes is refused' % (j, size))
        ctx.saw('%s: %d operands, size guard %s' % (h, k, 'ok' if not bad else bad))
        for b in bad[:2]:
            ctx.violate(q, b + ' (consensus limit for numeric operands is 4 bytes)', fn)


@PROP.obligation('C19.multisig-order', canaries=[
    mut.replace_stmt('scripts', 'Stack.op_checkmultisig', 'for pubkey in pubkeys:', 'for pubkey in pubkeys[::-1]:\n    s = Signature.parse_bytes(signatures[sigcount])\n    if s.verify(message, pubkey):\n        sigcount += 1\n        if sigcount >= len(signatures):\n            break', 'checkmultisig walks the keys in the opposite order') if False else
    mut.replace_expr('scripts', 'Stack.op_checkmultisig', 'signatures[sigcount]', 'signatures[0]', 'checkmultisig always checks the first signature'),
])
def multisig_order(ctx):
    """op_checkmultisig pops n, n keys, m, m signatures (and the dummy element) in that order and walks the keys ONCE, advancing
    the signature cursor only on a successful verification (order-preserving matching, each key used at most once)."""
    q = 'scripts:Stack.op_checkmultisig'
    fn = ctx.repo.func(q)
    pops = [norm(n) for n in sorted((n for n in walk_no_nested(fn) if isinstance(n, (ast.Assign, ast.Expr)) and 'self.pop()' in unparse(n)), key=lambda n: n.lineno)]
    ctx.saw('pop order: %s' % pops)
    exp_order = ['n = decode_num(self.pop())', 'pubkeys.append(self.pop())', 'm = decode_num(self.pop())', 'signatures.append(self.pop())', 'self.pop()']
    ctx.require(pops == exp_order, q, 'pop sequence is %s, consensus order is n, keys, m, signatures, dummy' % pops, fn)
    allv = [n for n in walk_no_nested(fn) if isinstance(n, (ast.For, ast.While)) and 'verify' in unparse(n)]
    loops = [n for n in allv if not any(o is not n and any(x is n for x in ast.walk(o)) for o in allv)]
    if len(loops) != 1:
        ctx.undecided('op_checkmultisig: matching loop not found (%d candidates)' % len(loops))
    lp = loops[0]
    if not isinstance(lp, ast.For):
        ctx.undecided('op_checkmultisig: matching loop is not a for loop')
    ctx.saw('matching loop: for %s in %s' % (unparse(lp.target), unparse(lp.iter)))
    ctx.require(unparse(lp.iter) == 'pubkeys', q, 'matching loop iterates over `%s`, expected ONE pass over the keys' % unparse(lp.iter), lp,
                'signatures out of key order, or one signature used for several keys, would satisfy m-of-n')
    nested = [n for n in ast.walk(lp) if isinstance(n, (ast.For, ast.While)) and n is not lp]
    if nested:
        ctx.violate(q, 'nested loop `for %s in %s` inside the matching loop: a signature is tried against keys that were already passed' % (
            unparse(nested[0].target) if isinstance(nested[0], ast.For) else '', unparse(nested[0].iter) if isinstance(nested[0], ast.For) else unparse(nested[0].test)), nested[0],
            'signature/key ordering is not enforced and one key can satisfy several signatures: consensus rejects such spends')
        return
    body = unparse(lp)
    ctx.require('signatures[sigcount]' in body and 'sigcount += 1' in body, q, 'the signature cursor is not advanced on success only', lp)


@PROP.obligation('C19.cache-keys')
def cache_keys(ctx):
    """Memoisation (script evaluation): every container that a function both looks up and stores into is found (none exists on the reference tree; a
    fixture self-test keeps the detector honest) and the key that is looked up must carry every parameter - and for containers shared
    between objects every attribute of self - that the cached value depends on through data or control flow."""
    from .common_cache import cache_keys as run
    run(ctx, [('scripts', lambda q: True)], 'scripts')


@PROP.obligation('C19.attr-memos')
def attr_memos(ctx):
    """Values cached in attributes of Script: every method that assigns state a cached value was computed from (and that the reuse test
    does not validate) must reset the cache."""
    from .common_cache import attr_memos as run
    run(ctx, 'scripts', [['Script']], 'Script', 'the cached raw script no longer matches the commands')


@PROP.obligation('C19.encode-total', canaries=[
    mut.replace_stmt('scripts', 'encode_num', 'abs_num = abs(num)', "abs_num = abs(num)\nif abs_num > 2147483647:\n    raise ScriptError('overflow')", 'arithmetic results above 4 bytes refused'),
])
def encode_total(ctx):
    """scripts.encode_num is total: the 4-byte limit of script numbers applies to OPERANDS (checked when they are decoded), results are
    pushed at any size (2147483647 1ADD leaves the 5-byte 0000008000 and is valid). encode_num therefore contains no raise."""
    q = 'scripts:encode_num'
    fn = ctx.repo.func(q)
    raises = [n for n in ast.walk(fn) if isinstance(n, ast.Raise)]
    ctx.saw('encode_num: %d raise statements' % len(raises))
    for r in raises:
        ctx.violate(q, 'encode_num raises (`%s`): an arithmetic result is refused' % norm(r)[:80], r, 'scripts whose result needs 5 bytes, such as 2147483647 1ADD 2147483648 EQUAL, are reported invalid')
    rets = [n for n in ast.walk(fn) if isinstance(n, ast.Return)]
    ctx.floor(len(rets), 2, 'return statements in encode_num')


@PROP.obligation('C19.notif-cast', canaries=[
    mut.replace_stmt('scripts', 'Stack.op_notif', 'element = self.pop()', 'self.op_not()\nreturn self.op_if(commands)', 'NOTIF implemented with the numeric NOT'),
])
def notif_cast(ctx):
    """Stack.op_notif inverts the truth value of ANY byte vector and continues with op_if; it must not go through the numeric opcodes
    (op_not / is_arithmetic refuse operands longer than 4 bytes and compare raw bytes), which would abort on a hash160 / public key
    condition."""
    q = 'scripts:Stack.op_notif'
    fn = ctx.repo.func(q)
    callees = sorted(set(norm(c.func) for c in ast.walk(fn) if isinstance(c, ast.Call)))
    ctx.saw('op_notif calls %s' % callees)
    numeric = [c for c in callees if c.split('.')[-1] in ('op_not', 'op_0notequal', 'is_arithmetic', 'pop_as_number', 'op_numequal')]
    ctx.require(not numeric, q, 'op_notif goes through the numeric opcode %s' % numeric, fn, 'a condition longer than 4 bytes aborts the script; non-canonical false values take the wrong branch')
    ctx.require('self.op_if' in callees and 'self.pop' in callees, q, 'op_notif no longer pops the condition and continues with op_if', fn)


@PROP.obligation('C19.arg-binding', canaries=[
    mut.replace_expr('scripts', 'Script.evaluate', "self.stack.op_checklocktimeverify(self.env_data['sequence'], self.env_data.get('locktime'))", "self.stack.op_checklocktimeverify(self.env_data.get('locktime'), self.env_data['sequence'])", 'CLTV receives nLockTime as sequence and the sequence as nLockTime'),
])
def arg_binding(ctx):
    """Script.evaluate hands the transaction context (env_data['sequence'], ['locktime'], ['version']) to the handlers positionally: each
    value lands on the handler parameter named after its key (sequence -> sequence, locktime -> tx_locktime, version -> version), and
    plain variables land on the parameter of their own name."""
    from .common_argsel import arg_binding as run
    run(ctx, ['scripts'], 'CHECKLOCKTIMEVERIFY / CHECKSEQUENCEVERIFY compare the lock value with the wrong transaction field: expired locks are refused, unexpired ones accepted')


@PROP.obligation('C19.balanced-conditionals', canaries=[
    mut.replace_stmt('scripts', 'Stack.op_if', 'if not found:', 'if False:\n    pass', 'a conditional without ENDIF is accepted'),
    mut.drop_stmt('scripts', 'Stack.op_if', 'num_endifs_needed += 1', 'nesting depth not counted'),
    mut.replace_expr('scripts', 'Stack.op_notif', 'self.op_if(commands)', 'True', 'NOTIF never splits the command stream') if False else
    mut.replace_expr('scripts', 'Stack.op_if', 'num_endifs_needed == 1', 'num_endifs_needed >= 1', 'the ENDIF of a nested conditional closes the outer one', nth=1),
])
def balanced_conditionals(ctx):
    """Stack.op_if evaluated on concrete command streams (the commands that follow the IF): a stream in which the conditional - or a
    nested one - is never closed by OP_ENDIF makes the handler return False (consensus: SCRIPT_ERR_UNBALANCED_CONDITIONAL); balanced
    streams, also nested and with ELSE, do not."""
    q = 'scripts:Stack.op_if'
    fn = ctx.repo.func(q)
    IF, NOTIF, ELSE, ENDIF, ONE, TWO = 99, 100, 103, 104, 81, 82
    cases = [([ONE], False), ([ONE, ELSE, TWO], False), ([IF, ONE, ENDIF], False), ([NOTIF, ONE, ENDIF, ELSE, TWO], False), ([IF, IF, ONE, ENDIF, ENDIF], False), ([], False),
             ([ONE, ENDIF], True), ([ONE, ELSE, TWO, ENDIF], True), ([IF, ONE, ENDIF, ENDIF], True), ([IF, ONE, ELSE, TWO, ENDIF, ELSE, TWO, ENDIF], True), ([ONE, ENDIF, TWO], True), ([ENDIF], True)]
    n = 0
    for cmds, balanced in cases:
        it = Interp(ctx.repo, 'scripts', decide=stack_decide, max_depth=5)
        try:
            exits = it.run_function(fn, {'self': SymStack(), 'commands': list(cmds)})
        except AnalysisError as e:
            ctx.undecided('op_if not evaluable on the command stream %s: %s' % (cmds, str(e)[:80]))
        vals = set('False' if (e.kind == 'return' and e.value is False) else ('raise' if e.kind == 'raise' else 'ok') for e in exits)
        n += 1
        names = ' '.join({IF: 'IF', NOTIF: 'NOTIF', ELSE: 'ELSE', ENDIF: 'ENDIF', ONE: '1', TWO: '2'}[c] for c in cmds) or '(nothing)'
        if balanced:
            ctx.require(vals == {'ok'}, q, 'the balanced stream `IF %s` makes op_if fail (%s)' % (names, sorted(vals)), fn)
        else:
            ctx.require('ok' not in vals, q, 'the stream `IF %s` never closes the conditional, yet op_if succeeds' % names, fn,
                        'a script with an unbalanced conditional is evaluated as if the ENDIF stood at its end: consensus rejects it')
    ctx.saw('%d command streams (6 unbalanced, 6 balanced) classified as consensus does' % n)


@PROP.obligation('C19.under-run', canaries=[
    mut.replace_stmt('scripts', 'Stack.op_2over', 'if len(self) < 4', "items = self[-4:-2]\nif not items:\n    raise ValueError('Stack op_2over method requires minimum of 4 stack items')", 'OP_2OVER guard tests the (silently truncated) slice'),
    mut.const('scripts', 'Stack.op_3dup', 3, 2, 'OP_3DUP accepts a stack of two', nth=0),
    mut.drop_stmt('scripts', 'Stack.op_2swap', 'if len(self) < 4', 'OP_2SWAP size guard removed'),
])
def under_run(ctx):
    """Every fixed-arity handler FAILS (raises or returns False) on a stack that holds fewer items than consensus makes it consume
    (SCRIPT_ERR_INVALID_STACK_OPERATION): each handler is evaluated on stacks of exactly 0 .. arity-1 items, with Python's list
    semantics - pop and index raise on a short list, a slice or a slice assignment is silently truncated."""
    from ..stack import DepthStack
    repo = ctx.repo
    handlers = sorted(k for k in repo.methods_of('scripts:Stack') if k.startswith('op_'))
    n = 0
    for h in handlers:
        spec_name = ALIASES.get(h, h)
        if spec_name not in EFFECTS:
            continue
        used = EFFECTS[spec_name][0]
        q = 'scripts:Stack.' + h
        fn = repo.func(q)
        for d in range(used):
            stk = DepthStack([S(I(k), 'bytes') for k in range(d, 0, -1)])
            it = Interp(repo, 'scripts', max_depth=5)
            it.index_errors = True
            args = {'self': stk}
            for a in fn.args.args[1:]:
                args[a.arg] = S(('var', a.arg))
            try:
                exits = it.run_function(fn, args)
            except AnalysisError as e:
                ctx.undecided('%s on a stack of %d items not evaluable: %s' % (h, d, str(e)[:100]))
            n += 1
            ok = [e for e in exits if e.kind == 'return' and term(e.value) is not False]
            if ok:
                after = ok[0].env.get('self') if ok[0].env else None
                ctx.violate(q, '%s succeeds on a stack of %d item%s (consensus consumes %d)%s' % (spec_name.upper(), d, '' if d == 1 else 's', used,
                            ', leaving [%s]' % ', '.join(show(term(x))[:16] for x in after.items) if isinstance(after, DepthStack) else ''), fn,
                            'a script that under-runs the stack fails under consensus but is evaluated further - possibly to "valid" - here')
    ctx.saw('%d (handler, short stack) scenarios evaluated' % n)
    ctx.floor(n, 70, 'under-run scenarios')


# Bitcoin Core script/script.h, enum opcodetype: consecutive from OP_PUSHDATA1 = 0x4c to OP_NOP10 = 0xb9
_CONSENSUS_SEQ = """PUSHDATA1 PUSHDATA2 PUSHDATA4 1NEGATE RESERVED 1 2 3 4 5 6 7 8 9 10 11 12 13 14 15 16 NOP VER IF NOTIF VERIF VERNOTIF ELSE ENDIF VERIFY
RETURN TOALTSTACK FROMALTSTACK 2DROP 2DUP 3DUP 2OVER 2ROT 2SWAP IFDUP DEPTH DROP DUP NIP OVER PICK ROLL ROT SWAP TUCK CAT SUBSTR LEFT RIGHT SIZE INVERT
AND OR XOR EQUAL EQUALVERIFY RESERVED1 RESERVED2 1ADD 1SUB 2MUL 2DIV NEGATE ABS NOT 0NOTEQUAL ADD SUB MUL DIV MOD LSHIFT RSHIFT BOOLAND BOOLOR NUMEQUAL
NUMEQUALVERIFY NUMNOTEQUAL LESSTHAN GREATERTHAN LESSTHANOREQUAL GREATERTHANOREQUAL MIN MAX WITHIN RIPEMD160 SHA1 SHA256 HASH160 HASH256 CODESEPARATOR
CHECKSIG CHECKSIGVERIFY CHECKMULTISIG CHECKMULTISIGVERIFY NOP1 CHECKLOCKTIMEVERIFY CHECKSEQUENCEVERIFY NOP4 NOP5 NOP6 NOP7 NOP8 NOP9 NOP10""".split()
CONSENSUS_OPCODES = dict(('OP_' + n, 0x4c + i) for i, n in enumerate(_CONSENSUS_SEQ))
CONSENSUS_OPCODES.update({'OP_0': 0, 'OP_FALSE': 0, 'OP_TRUE': 0x51, 'OP_NOP2': 0xb1, 'OP_NOP3': 0xb2, 'OP_CHECKSIGADD': 0xba, 'OP_INVALIDOPCODE': 0xff})


def _mut_swap_opcodes(a, b):
    def mutate(tree):
        done = [0]
        for n in ast.walk(tree):
            if isinstance(n, ast.Constant) and n.value in (a, b):
                n.value = b if n.value == a else a
                done[0] += 1
        return done[0] == 2
    return mutate


@PROP.obligation('C19.opcode-numbers', canaries=[
    mut.Canary('OP_RIPEMD160 and OP_SHA1 transposed in the positional table', 'config.opcodes', _mut_swap_opcodes('OP_RIPEMD160', 'OP_SHA1')),
    mut.Canary('OP_MIN and OP_MAX transposed in the positional table', 'config.opcodes', _mut_swap_opcodes('OP_MIN', 'OP_MAX')),
])
def opcode_numbers(ctx):
    """The byte value of every opcode name is the consensus one (Bitcoin Core script.h): scripts arrive as BYTES and are dispatched
    through opcodenames[byte], so a transposition in the positional table makes two handlers evaluate each other's opcode while every
    script written by NAME still round-trips. The table replayed from config/opcodes.py is compared entry by entry."""
    names = ctx.repo.consts('scripts').get('opcodenames')
    if not isinstance(names, dict):
        ctx.undecided('opcodenames not reconstructed')
    n = 0
    for code, nm in sorted(names.items()):
        if nm not in CONSENSUS_OPCODES:
            ctx.unsure('opcode name %s (%#x) is not in the consensus table of this check' % (nm, code))
            continue
        n += 1
        ctx.require(CONSENSUS_OPCODES[nm] == code, 'config.opcodes:_opcodes', 'opcode name %s is numbered %#04x, consensus: %#04x' % (nm, code, CONSENSUS_OPCODES[nm]), None,
                    'a script containing byte %#04x is evaluated by the handler of %s' % (code, nm))
    ctx.saw('%d opcode numbers compared with the consensus table' % n)
    ctx.floor(n, 110, 'opcode numbers')


@PROP.obligation('C19.redeemscript-as-pushed', canaries=[
    mut.replace_expr('scripts', 'Script.parse_bytesio', 's2.as_bytes()', 's2.serialize()', 'embedded redeem script re-encoded before it is hashed'),
])
def redeemscript_as_pushed(ctx):
    """P2SH: consensus hashes the redeem script EXACTLY as it was pushed. Script.parse_bytesio hands the embedded script to evaluation
    through env_data['redeemscript'] (Script.evaluate pushes it for OP_HASH160 ... OP_EQUAL): every value it assigns to `redeemscript`
    is the data item read from the stream or the cached raw bytes of its parse (as_bytes / raw / as_hex) - never serialize(), which
    re-encodes pushes canonically (a key pushed with OP_PUSHDATA1 would hash differently)."""
    q = 'scripts:Script.parse_bytesio'
    fn = ctx.repo.func(q)
    n = 0
    for a in ast.walk(fn):
        if not (isinstance(a, ast.Assign) and any(isinstance(t, ast.Name) and t.id == 'redeemscript' for t in a.targets)):
            continue
        v = a.value
        if isinstance(v, ast.Constant):
            continue
        n += 1
        calls = [c for c in ast.walk(v) if isinstance(c, ast.Call) and isinstance(c.func, ast.Attribute)]
        re_encodes = [c for c in calls if c.func.attr in ('serialize', 'serialize_list')]
        raw_forms = [c for c in calls if c.func.attr in ('as_bytes', 'as_hex')] or [x for x in ast.walk(v) if isinstance(x, ast.Attribute) and x.attr in ('raw', '_raw')] or \
                    [x for x in ast.walk(v) if isinstance(x, ast.Name) and x.id == 'data']
        ctx.saw('redeemscript = %s' % norm(v)[:60])
        if re_encodes:
            ctx.violate(q, 'the embedded redeem script is taken from `%s`, a re-encoding of the parsed commands, not the bytes that were pushed' % norm(v)[:60], a,
                        'a P2SH spend whose redeem script pushes a key with OP_PUSHDATA1 is checked against the hash of the canonical re-encoding: consensus-valid spends are rejected and the canonical hash accepts a script that is not the one committed to')
        elif not raw_forms:
            ctx.unsure('parse_bytesio: provenance of `redeemscript = %s` not classified' % norm(v)[:60])
    ctx.floor(n, 1, 'assignments of the embedded redeem script')


@PROP.obligation('C19.script-numbers', canaries=[
    mut.replace_expr('scripts', 'Stack.op_checklocktimeverify', 'decode_num(self[-1])', "int.from_bytes(self[-1], 'little')", 'CLTV reads its operand as an unsigned integer'),
    mut.replace_expr('scripts', 'Stack.op_if', 'decode_num(element) == 0', "int.from_bytes(element, 'little') == 0", 'IF reads its operand as an unsigned integer'),
])
def script_numbers(ctx):
    """Numbers on the script stack are little-endian SIGN-MAGNITUDE (CScriptNum): 0x81 is -1, not 129. Every method of Stack that turns a
    stack element (self[i], self.pop(), a local assigned from one, an element of pop_as_number's input) into an integer does so with
    decode_num; int.from_bytes / int(...hex...) on a stack element reads negative operands as large positive ones - BIP65's "negative
    lock time fails" can no longer fire and `-1 CLTV` passes with any nLockTime above 129."""
    mod = ctx.repo.mod('scripts')
    n = dec = 0
    for name, fn in sorted(mod.functions.items()):
        if not name.startswith('Stack.'):
            continue
        q = 'scripts:' + name
        elems = set()
        for a in ast.walk(fn):
            if isinstance(a, ast.Assign) and len(a.targets) == 1:
                v = a.value
                is_elem = (isinstance(v, ast.Subscript) and norm(v.value) == 'self') or (isinstance(v, ast.Call) and norm(v.func) == 'self.pop')
                if is_elem:
                    for t in ast.walk(a.targets[0]):
                        if isinstance(t, ast.Name):
                            elems.add(t.id)
            if isinstance(a, (ast.For, ast.comprehension)) and norm(a.iter).startswith('self'):
                for t in ast.walk(a.target):
                    if isinstance(t, ast.Name):
                        elems.add(t.id)

        def is_element(x):
            return (isinstance(x, ast.Subscript) and norm(x.value) == 'self') or (isinstance(x, ast.Call) and norm(x.func) == 'self.pop') or (isinstance(x, ast.Name) and x.id in elems)
        for c in ast.walk(fn):
            if not isinstance(c, ast.Call):
                continue
            f = norm(c.func)
            if f == 'decode_num' and c.args and is_element(c.args[0]):
                dec += 1
            if f in ('int.from_bytes', 'int') and c.args and is_element(c.args[0]):
                n += 1
                ctx.violate(q, 'a stack element is turned into a number with `%s` instead of decode_num' % norm(c)[:60], c,
                            'the operand 0x81 (-1) is read as 129: OP_1NEGATE CHECKLOCKTIMEVERIFY, which consensus rejects, is reported valid')
    ctx.saw('Stack methods: %d stack elements decoded with decode_num, %d with int.from_bytes / int' % (dec, n))
    ctx.floor(dec, 3, 'decode_num applications to stack elements')


@PROP.obligation('C19.fresh-stack', canaries=[
    mut.replace_expr('scripts', 'Script.evaluate', 'Stack()', 'Stack(self.stack)', 'the stack of the previous evaluation is carried over'),
    mut.drop_stmt('scripts', 'Script.evaluate', 'self.stack = Stack()', 'evaluate continues on the stack it finds'),
])
def fresh_stack(ctx):
    """The verdict of evaluate() is a function of the script (and the message / environment data): it starts from an EMPTY stack. The
    first statement of Script.evaluate that touches self.stack assigns a Stack constructed from nothing (Stack() or Stack([])), at the
    top level of the method, before the command loop. A stack seeded with what the previous run left (an aborted script, a script
    that leaves two elements) makes `1 DEPTH 2 EQUAL` true on the second call."""
    q = 'scripts:Script.evaluate'
    fn = ctx.repo.func(q)
    first = None
    for i, s_ in enumerate(fn.body):
        if any(isinstance(x, ast.Attribute) and norm(x) == 'self.stack' for x in ast.walk(s_)):
            first = s_
            break
    if first is None:
        ctx.undecided('Script.evaluate never touches self.stack')
    def fresh(v):
        if isinstance(v, ast.Name):
            defs = [a.value for a in ast.walk(fn) if isinstance(a, ast.Assign) and any(isinstance(t, ast.Name) and t.id == v.id for t in a.targets)]
            return len(defs) == 1 and fresh(defs[0])
        return isinstance(v, ast.Call) and norm(v.func) == 'Stack' and not v.keywords and \
            (not v.args or (len(v.args) == 1 and isinstance(v.args[0], (ast.List, ast.Tuple)) and not v.args[0].elts))
    ok = isinstance(first, ast.Assign) and any(norm(t) == 'self.stack' for t in first.targets) and fresh(first.value)
    ctx.saw('first statement of evaluate that touches self.stack: `%s`' % norm(first)[:70])
    ctx.require(ok, q, 'the first statement that touches self.stack is `%s`, not the assignment of an empty Stack()' % norm(first)[:70], first,
                'a Script object evaluated twice gives two verdicts: `1 DEPTH 2 EQUAL`, which consensus rejects, is reported valid on the second call')
    later = [a for a in ast.walk(fn) if isinstance(a, ast.Assign) and any(norm(t) == 'self.stack' for t in a.targets) and a is not first]
    ctx.require(not later, q, 'self.stack is assigned again inside evaluate (`%s`)' % (norm(later[0])[:60] if later else ''), later[0] if later else fn)


@PROP.obligation('C19.push-verbatim', canaries=[
    mut.replace_expr('scripts', 'Script.evaluate', 'self.stack.append(command)', 'self.stack.append(to_bytes(command))', 'pushed data goes through the hex-guessing normaliser'),
    mut.replace_expr('scripts', 'Script.evaluate', 'self.stack.append(command)', 'self.stack.append(command.strip())', 'pushed data is stripped'),
])
def push_verbatim(ctx):
    """A data push puts exactly the pushed bytes on the stack. In Script.evaluate the branch for commands that are not opcodes appends the
    command itself - not the result of a call on it: to_bytes() reads bytes that spell hexadecimal text ("cafe", "12") as that hex
    string and ASCII white space as nothing, so `<"cafe"> <0xcafe> EQUAL`, which consensus rejects, would be reported valid."""
    q = 'scripts:Script.evaluate'
    fn = ctx.repo.func(q)
    branches = [i_ for i_ in ast.walk(fn) if isinstance(i_, ast.If) and norm(i_.test) == 'isinstance(command, int)' and i_.orelse]
    if len(branches) != 1:
        ctx.undecided('Script.evaluate: the opcode / data dispatch `if isinstance(command, int)` was not found')
    C = ('var', 'command')
    ST = ('var', 'the_stack')
    seen = []
    it = Interp(ctx.repo, 'scripts', self_cls='scripts:Script', hooks={'.append': lambda it_, b, a, kw, st, node: (seen.append((term(b) if isinstance(b, S) else b, [term(x) if isinstance(x, S) else x for x in a], node)), None)[1]})
    st = State(env={'self': S(('var', 'self')), 'command': S(C, 'bytes')})
    st.heap[('attr', ('var', 'self'), 'stack')] = S(ST)
    it.frames.append([])
    try:
        it.exec_block(branches[0].orelse, st)
    except AnalysisError as e:
        ctx.undecided('Script.evaluate: data-push branch not evaluable: %s' % str(e)[:100])
    it.frames.pop()
    pushes = [x for x in seen if x[0] == ST]
    if len(pushes) != 1:
        ctx.undecided('Script.evaluate: the data-push branch appends %d values to the stack, expected 1' % len(pushes))
    val = pushes[0][1][0] if pushes[0][1] else None
    ctx.saw('data push: stack.append(%s)' % (show(val) if isinstance(val, tuple) else val))
    ctx.require(val == C, q, 'a data push puts `%s` on the stack instead of the pushed bytes themselves' % (show(val) if isinstance(val, tuple) else val), pushes[0][2],
                'the element "cafe" (63616665) becomes 0xcafe: `<"cafe"> SHA256 <sha256("cafe")> EQUAL` fails and `<"cafe"> <0xcafe> EQUAL`, which consensus rejects, is reported valid')


from . import c18 as _c18x
PROP.obligation('C19.pushdata')(_c18x.pushdata)
