"""Shared obligation: the fast paths of encoding.change_base keep the leading zero digits the generic loop restores.

change_base(chars, base_from, base_to, min_length) has a generic digit loop that counts the leading zero digits of the input and puts
the corresponding zero digits in front of the output (callers rely on it: Mnemonic.to_entropy derives the checksum width from the
LENGTH of the bit string, base58 on the leading '1's). In front of the loop sit shortcut branches `if base_from == A and base_to == B:
return ...`. A shortcut whose input and output are both digit strings / bytes (neither base is 10) and whose result is routed through
an integer (int.from_bytes, int(x, base)) has lost those zeros; it is only acceptable when the result length is rebuilt from the
length of the input (len(inp) / len(chars)), not merely padded to min_length."""
import ast

from ..core import norm, fold, NotConst


def _base_pair(test):
    pair = {}
    for c in ast.walk(test):
        if isinstance(c, ast.Compare) and len(c.ops) == 1 and isinstance(c.ops[0], ast.Eq) and isinstance(c.left, ast.Name) and c.left.id in ('base_from', 'base_to') \
                and isinstance(c.comparators[0], ast.Constant):
            pair[c.left.id] = c.comparators[0].value
    return pair.get('base_from'), pair.get('base_to')


def fast_paths(ctx, why):
    q = 'encoding:change_base'
    fn = ctx.repo.func(q)
    n = 0
    for node in ast.walk(fn):
        if not isinstance(node, ast.If):
            continue
        bf, bt = _base_pair(node.test)
        if bf is None or bt is None:
            continue
        rets = [r for r in node.body if isinstance(r, ast.Return) and r.value is not None]
        for r in rets:
            n += 1
            txt = norm(r.value)
            via_int = any(isinstance(c, ast.Call) and (norm(c.func) == 'int.from_bytes' or (isinstance(c.func, ast.Name) and c.func.id == 'int')) for c in ast.walk(r.value))
            uses_len = any(isinstance(c, ast.Call) and isinstance(c.func, ast.Name) and c.func.id == 'len' for c in ast.walk(r.value))
            ctx.saw('shortcut %s -> %s: %s%s' % (bf, bt, txt[:80], ' (through an integer)' if via_int else ''))
            if bf != 10 and bt != 10 and via_int and not uses_len:
                ctx.violate(q, 'the shortcut for base %s -> %s returns `%s`: the value passes through an integer, so the leading zero digits of the input are restored only up to min_length, not as the generic loop does' % (bf, bt, txt[:100]), r, why)
    ctx.floor(n, 6, 'shortcut branches of change_base')
